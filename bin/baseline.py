#!/usr/bin/env python3
"""Run the repository's pinned test suite in a given tree and compare with BASELINE.json.
usage: bin/baseline.py [repo_dir]   exit 0 iff every stable_pass test passes."""
import json, os, subprocess, sys
repo = sys.argv[1] if len(sys.argv) > 1 else "/repo"
base = json.load(open("/root/.vp/BASELINE.json"))
env = dict(os.environ, GOFLAGS="-mod=mod", GOPROXY="off", GOSUMDB="off", GOTOOLCHAIN="local")
r = subprocess.run(["go", "test", "-json", "-vet=off", "-count=1", "-timeout", "25m", "./..."], cwd=repo, env=env, capture_output=True, text=True)
res = {}
for line in r.stdout.splitlines():
    try:
        ev = json.loads(line)
    except Exception:
        continue
    if ev.get("Test") and ev.get("Action") in ("pass", "fail", "skip") and "/" not in ev["Test"]:
        res[ev["Package"] + "::" + ev["Test"]] = ev["Action"]
bad = [t for t in base["stable_pass"] if res.get(t) != "pass"]
print("baseline: %d/%d stable tests pass" % (len(base["stable_pass"]) - len(bad), len(base["stable_pass"])))
for t in bad:
    print("  NOT PASSING:", t, res.get(t))
if bad and "-v" in sys.argv:
    print(r.stdout[-3000:], r.stderr[-3000:])
sys.exit(1 if bad else 0)
