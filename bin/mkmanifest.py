#!/usr/bin/env python3
"""Regenerate MANIFEST.json from bin/props.py (single source of truth for the registered checks)."""
import json, os, sys
VERIF = os.path.dirname(os.path.dirname(os.path.abspath(__file__)))
sys.path.insert(0, os.path.join(VERIF, "bin"))
from props import PROPS as _ALLPROPS, REGISTERED
PROPS = {k: v for k, v in _ALLPROPS.items() if k in REGISTERED}
try:
    from props import NOT_APPLICABLE
except ImportError:
    NOT_APPLICABLE = {}
allp = [json.loads(l)["id"] for l in open(os.path.join(VERIF, "properties.jsonl"))]
BASE = ("cd /repo && export GOFLAGS=-mod=mod GOPROXY=off GOSUMDB=off GOTOOLCHAIN=local && "
        "go test -json -vet=off -count=1 -timeout 25m ./...")
man = {
    "version": 1,
    "setup_cmd": "bin/setup",
    "hooks": {
        "guard": "verif",
        "enable": "no hook is committed into /repo: harness files (all '//go:build verif'), the virtual packages internal/vexp, "
                  "internal/vhook, instrumented copies of repo files, text-patched seams and (for engine-B builds) a patched copy of four runtime files are grafted at build time with "
                  "`go test -c -tags verif -overlay build/<id>/overlay.json` run in /repo (bin/check regenerates the overlay from the current working tree on every run)",
        "baseline_off_cmd": BASE,
        "source_commits": [],
        "add_only": True,
    },
    "engines": [
        {"name": "vexp", "path": "engine/vexp", "serves_properties": sorted(p for p, c in PROPS.items() if "vexp" in c.get("engines", ["vexp"])),
         "kind_free_text": "sequential exhaustive explorer on the real code: stateless DFS over environment choice sequences with deviation bound, and BFS to a fixpoint over canonical states with every (state, op) transition executed once"},
    ],
    "checks": [],
    "not_applicable": [],
    "notes": "All checks are driven by bin/check <id> <tier>; see DESIGN.md. Known findings: known_findings.jsonl.",
}
for p in allp:
    if p in PROPS:
        c = PROPS[p]
        man["checks"].append({
            "property_id": p,
            "quick_cmd": "bin/check %s quick" % p,
            "thorough_cmd": "bin/check %s thorough" % p,
            "evidence_file": "evidence/%s.json" % p,
            "replay_cmd_template": "bin/check %s --replay {path}" % p,
            "engine": ",".join(c.get("engines", ["vexp"])),
            "level_claimed": {"category": "model_checking", "text": c.get("level_text", c.get("rule", "")), "design_ref": "DESIGN.md section 5, " + p},
            "level_note": "; ".join(c.get("assumptions", [])) or "see DESIGN.md section 8",
            "technique": c.get("technique", "bounded exhaustive exploration of the real implementation (explicit-state search / stateless DFS over a closed driver) against a reference model"),
        })
    else:
        man["not_applicable"].append({"property_id": p, "reason": NOT_APPLICABLE.get(p, "no check registered yet in this revision (work in progress; model checking applies, see DESIGN.md section 5)")})
extra = [e for e in getattr(sys.modules["props"], "ENGINES", [])]
man["engines"] += extra
json.dump(man, open(os.path.join(VERIF, "MANIFEST.json"), "w"), indent=1)
print("MANIFEST.json: %d checks, %d not_applicable" % (len(man["checks"]), len(man["not_applicable"])))
