#!/usr/bin/env python3
"""Pre-build every harness test binary once so that checks start from a warm build cache."""
import os, sys, subprocess, importlib.util
VERIF = os.path.dirname(os.path.dirname(os.path.abspath(__file__)))
sys.path.insert(0, os.path.join(VERIF, "bin"))
spec = importlib.util.spec_from_loader("check", loader=None)
import types
src = open(os.path.join(VERIF, "bin", "check")).read()
mod = types.ModuleType("check")
mod.__file__ = os.path.join(VERIF, "bin", "check")
exec(compile(src.replace('if __name__ == "__main__":', 'if False:'), mod.__file__, "exec"), mod.__dict__)
bad = 0
import props as _p
for prop, cfg in sorted((k, v) for k, v in mod.PROPS.items() if k in _p.REGISTERED):
    cfg = dict(cfg)
    bdir = os.path.join(VERIF, "build", prop)
    os.makedirs(bdir, exist_ok=True)
    out, msg = None, ""
    for i, pc in enumerate(cfg.get("parts") or [None]):
        c = dict(cfg)
        if pc:
            c.update(pc)
        c.pop("parts", None)
        pdir = bdir if pc is None else os.path.join(bdir, "part%d" % i)
        os.makedirs(pdir, exist_ok=True)
        out, msg = mod.build(prop, c, pdir)
        if out is None:
            break
    if out is None:
        print("prebuild %s FAILED\n%s" % (prop, msg))
        bad += 1
    else:
        print("prebuild %s ok" % prop)
sys.exit(1 if bad else 0)
