# Overrides the C02 entry of bin/props.py (props.d entries are merged after PROPS): part 0 is that entry unchanged.
# part 0: block-partition DFS on the real PrepareRun/ChangeTriggerState/ProcessSegments against an independent criterion scan (engine A)
_MAIN = {
    "pkg": ".", "hdir": "dastard", "harness": DASTARD_COMMON + ["zz_verif_trig_test.go", "zz_verif_c02_test.go"], "test": "TestVerifC02",
    "engines": ["vexp"],
    "quick": T(16, 180), "thorough": T(16, 900),
}
# part 1: race probe -- three channels with the same edge/level/auto configuration processed concurrently by the real ProcessSegments
# in a race-detector build (zz_verif_raceprobe_test.go also holds the C08 probe, hence zz_verif_c08_test.go)
_RACE = {
    "pkg": ".", "hdir": "dastard", "harness": DASTARD_COMMON + ["zz_verif_trig_test.go", "zz_verif_c08_test.go", "zz_verif_raceprobe_test.go"], "test": "TestVerifC02Race",
    "engines": ["vexp", "vhook"], "runtime_patch": True, "race": True, "gomaxprocs": 4,
    "quick": T(16, 90), "thorough": T(16, 300),
}
ENTRY = {
    "C02": dict(_MAIN, **{
        "parts": [_MAIN, _RACE],
        "technique": "bounded exhaustive exploration of the real implementation (explicit-state search / stateless DFS over a closed driver) against a reference model (part 1); part 2: exhaustive enumeration of a small driver (signedness x trigger configuration x pulse layout x block pattern) with three channels processed by the real, free-running ProcessSegments goroutines in a race-detector build, the detector's happens-before reports and a processed-alone differential as per-execution monitors",
        "rule": "as C01 without edge-multi; oracle = independent scan of the ground-truth stream with the edge/level/auto criteria; "
                "non-trivial = a criterion sample lies within one record length of a block boundary. "
                "Race-probe part: one execution = one (signedness, edge/level/auto configuration, pulse layout, block pattern) with three channels all in that configuration and pulses at "
                "different positions in every channel sent through the real ProcessSegments (one free-running goroutine per channel, GOMAXPROCS 4) in a race-detector build; every race report "
                "with both accesses in repository code is a violation, and every channel's records must equal those of the same stream processed alone; non-trivial = at least two channels emitted records",
        "assumptions": ["criteria as defined by the code (DESIGN 7.1), dead time inclusive", "completeness only demanded where decidable from delivered data (DESIGN 7.2)",
                        "race-probe part: the race detector is happens-before based (a report does not depend on the actual timing of the goroutines) but keeps a bounded access history per word "
                        "and reports one pair of stacks once per process; goroutines are free-running, not schedule-enumerated (that is C17); no group triggers between the channels"],
    }),
}
