ENTRY = {
    "C03": {
        "pkg": ".", "hdir": "dastard", "harness": DASTARD_COMMON + ["zz_verif_c03_test.go"], "test": "TestVerifC03",
        "engines": ["vexp", "vhook"], "runtime_patch": True, "gomaxprocs": 2,
        "quick": T(16, 180), "thorough": T(16, 900),
        "rule": "one execution = one (group layout, map-iteration seed, loss pattern, assignment of the surviving packets to read ticks) through the real AbacoSource.Sample, "
                "PrepareChannels, PrepareRun, readerMainLoop, getNextBlock and distributeData with a scripted PacketProducer; every channel's output is compared sample by sample "
                "with the packets that arrived, filler counts/positions, block lengths, frame numbers and the dropped-frame total are checked; "
                "non-trivial = at least one packet was lost and filled and the script has at least two deviations; "
                "offsets family (groups leave start-up sampling at unequal offsets: 2..4 packets seen per group, not all equal, and a sequence-number base per group): the groups are aligned on "
                "'sequence number minus the first sequence number start-up sampling saw', the expected output starts at the first such number that follows start-up sampling in every group, "
                "arrived packets before it must be discarded, also when they are all a lagging group has delivered while another group already has data; "
                "non-trivial there = at least one arrived packet predates the first common sequence number and data was delivered",
        "assumptions": ["packets are built with the real constructors and pass through the real encoder/decoder", "unwrapping off (RescaleRaw=false) so samples pass through",
                        "all groups have the same number of frames per packet (alignment is by sequence number)",
                        "alignment reference as in the code: the first packet of each group that start-up sampling sees is taken as simultaneous (packets with equal 'sequence number minus that first one' carry equal time stamps in the scripts); start-up sampling sees at least two consecutive packets of every group (one packet gives no sample rate)", "the read period is 0.1 ms instead of 50 ms (same loop)",
                        "a loss at the very end of a group's script is not observable: the expected output ends at the last sequence number that arrived in every group"],
    },
}
