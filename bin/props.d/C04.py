ENTRY = {
    "C04": {
        "pkg": ".", "hdir": "dastard", "harness": DASTARD_COMMON + ["zz_verif_c04_test.go"], "test": "TestVerifC04",
        "gomaxprocs": 2,
        "textpatch": [{"file": "lancero_source.go", "old": "ls.readPeriod = 50 * time.Millisecond", "new": "ls.readPeriod = lanceroReadPeriod"},
                      {"file": "lancero_source.go", "old": "ticker := time.NewTicker(ls.readPeriod)", "new": "ticker := v04NewTicker(ls.readPeriod)"}],
        "quick": T(16, 150), "thorough": T(16, 600),
        "rule": "one execution = one (geometry, stream start offset, chunking of the byte stream into driver reads, external-trigger pattern, mix change, lost-byte gap) through the real "
                "LanceroSource.PrepareChannels, PrepareRun, StartRun, launchLanceroReader, getNextBlock, ConfigureMixFraction and distributeData with a scripted card; every output sample is matched "
                "to a frame of the card's stream (channel order, err/fb pairing), feedback delay/flag clearing/mix/saturation (per sample: the previous delivered feedback with its flag bits cleared + the fraction "
                "in force for THIS channel x the signed error of the same physical sample, saturated at 0 and 65535; the fraction in force is that of the last served request naming the channel, 0 if none), external-trigger counts, re-alignment, loss reporting and "
                "frame-number monotonicity are checked; non-trivial = data was delivered in at least two blocks. "
                "A mix change is one or two ConfigureMixFraction requests, each naming its own feedback channels with a fraction of its own per channel (the same fraction on all, a distinct fraction on "
                "every feedback channel incl. negative and saturating ones, a fraction on a single feedback channel - every channel -, a later request that changes one channel and switches another off); "
                "the card runs in lock-step (one driver read per block) until the last request has been served, so every request takes effect between two known blocks; the chunk family makes the "
                "distinct-fraction request before the first block and then runs through its chunkings freely. "
                "Restart family: one execution = two runs of the SAME LanceroSource/LanceroDevice/card objects (first run: geometry, start offset, no mix / mix on all feedback channels / "
                "a saturating mix on one channel / a distinct fraction on every feedback channel; second run: the same or any other geometry, start offset, no mix / mix on all / mix on one channel / "
                "distinct saturating fractions on every feedback channel), each started the way Start does it - the real "
                "Configure (rows, line period, NSAMP from a cringeGlobals file), the real Sample with sampleCard and updateChanOrderMap on a scripted sampling session, PrepareChannels, PrepareRun, "
                "StartRun - and ended the way a stopped run ends (abortSelf closed, reader closes its channel, stop(), nextBlock closed); each run is held to the full oracle of a fresh source "
                "(feedback starts from 0, mix only if set in this run, external-trigger counts), so nothing the first run left in the source may show in the second",
        "assumptions": ["outside the restart family sampleCard is bypassed: the geometry is written into the device and the per-start tables are built by the real updateChanOrderMap on a fresh source",
                        "restart family: sampleCard measures its 200 ms on the card's time stamps, not on the wall clock; the scripted card's time stamps run at 20 frames/s there, so 200 ms are 4 frames (two sampling chunkings, one of which makes the frame-bit search fail once); NSAMP = 1; no lost bytes",
                        "restart family: the external-trigger flag is low at the end of the first run and at the start of the second (the source remembers the last flag state across runs; whether a flag found high at the start of a run is a rising edge is not decided by the property)", "the 50 ms read period is made settable (0.1 ms); the loop is unchanged",
                        "at least two rows (with one row every word carries the frame bit and frame boundaries do not exist)", "one card (the reader panics for more: 'not yet implemented')",
                        "mix requests are made while the card holds back new data (lock-step), so the sample from which a request applies is known; a request racing with arriving data is not explored here (C17 runs one under the scheduler)",
                        "mix fractions: {0.5, -1.5, 400} on all, 0.25(k+1) and 350(k+1) with alternating sign on feedback channel number k, single channels, -2.5/0 in a second request; NSAMP = 1; the reply of ConfigureMixFraction is not part of the oracle (the property speaks about the data)", "a loss of a whole number of frames is not observable in the data and is excluded",
                        "lost bytes are the first bytes of a later read (ring overflow between reads)",
                        "after a loss the frame number of the block that notices it is a time-based estimate: external-trigger counts are then only checked for row and order"],
    },
}
