ENTRY = {
    "C04": {
        "pkg": ".", "hdir": "dastard", "harness": DASTARD_COMMON + ["zz_verif_c04_test.go"], "test": "TestVerifC04",
        "gomaxprocs": 2,
        "textpatch": [{"file": "lancero_source.go", "old": "ls.readPeriod = 50 * time.Millisecond", "new": "ls.readPeriod = lanceroReadPeriod"},
                      {"file": "lancero_source.go", "old": "ticker := time.NewTicker(ls.readPeriod)", "new": "ticker := v04NewTicker(ls.readPeriod)"}],
        "quick": T(16, 90), "thorough": T(16, 600),
        "rule": "one execution = one (geometry, stream start offset, chunking of the byte stream into driver reads, external-trigger pattern, mix change, lost-byte gap) through the real "
                "LanceroSource.PrepareChannels, PrepareRun, StartRun, launchLanceroReader, getNextBlock, ConfigureMixFraction and distributeData with a scripted card; every output sample is matched "
                "to a frame of the card's stream (channel order, err/fb pairing), feedback delay/flag clearing/mix/saturation, external-trigger counts, re-alignment, loss reporting and "
                "frame-number monotonicity are checked; non-trivial = data was delivered in at least two blocks",
        "assumptions": ["sampleCard (needs >= 200 ms of hardware pacing) is bypassed: geometry is set directly", "the 50 ms read period is made settable (0.1 ms); the loop is unchanged",
                        "at least two rows (with one row every word carries the frame bit and frame boundaries do not exist)", "one card (the reader panics for more: 'not yet implemented')", "a loss of a whole number of frames is not observable in the data and is excluded",
                        "lost bytes are the first bytes of a later read (ring overflow between reads)",
                        "after a loss the frame number of the block that notices it is a time-based estimate: external-trigger counts are then only checked for row and order"],
    },
}
