# part 0: histories through the real AnalyzeData/PublishData/writers, files decoded (engine A)
_MAIN = {
    "pkg": ".", "hdir": "dastard", "harness": DASTARD_COMMON + ["zz_verif_files_test.go", "zz_verif_c05_test.go"], "test": "TestVerifC05",
    "engines": ["vexp"],
    "quick": T(16, 60), "thorough": T(16, 600),
    "env": {"VERIF_C05_SCRATCH": "/dev/shm"},
}
import os as _os
_REPO = _os.environ.get("VERIF_REPO", "/repo")
_VERIF = _os.path.dirname(_os.path.dirname(_os.path.dirname(_os.path.abspath(__file__)))) if "__file__" in globals() else "/verif"
# part 1: back-pressure (writer queue nearly full) under the controlled scheduler, same scenarios as C07 at a smaller bound
_BP = {
    "pkg": ".", "hdir": "dastard", "harness": DASTARD_COMMON + ["zz_verif_files_test.go", "zz_verif_c07_test.go"], "test": "TestVerifC05BP",
    "engines": ["vexp", "vhook"], "runtime_patch": True, "gomaxprocs": 1,
    # as C07: opt-in points before the bufio calls and at atomic operations (switched on in the tick scenarios), ticker seam
    "instrument": {"files": {"asyncbufio/asyncbufio.go": {"call_points": ["*.Write", "*.Flush"], "atomics": True, "opt_guard": "VerifStallPoints"}}},
    "textpatch": [{"file": "ljh/ljh.go", "old": "const WRITECHANCAPACITY = 1000", "new": "var WRITECHANCAPACITY = 1000"},
                  {"file": "off/off.go", "old": "const WRITECHANCAPACITY = 1000", "new": "var WRITECHANCAPACITY = 1000"},
                  {"file": "asyncbufio/asyncbufio.go", "old": "time.NewTicker(aw.flushInterval)", "new": "VerifNewTicker(aw.flushInterval)"}],
    "_extra_overlay": {_os.path.join(_REPO, "asyncbufio", "zz_verif_seam.go"): _os.path.join(_VERIF, "harness", "asyncbufio", "zz_verif_seam.go")},
    "quick": T(16, 60), "thorough": T(16, 300),
}
ENTRY = {
    "C05": dict(_MAIN, **{
        "parts": [_MAIN, _BP],
        "technique": "bounded exhaustive exploration of the real implementation (explicit-state search / stateless DFS over a closed driver) against a reference model (part 1); part 2: stateless model checking of the real producer / writeLoop goroutines under a controlled scheduler (preemption-bounded DFS)",
        "rule": "one execution = one history {record ch0, record ch1, flush, PAUSE, UNPAUSE, STOP+START with the next file-type set} between an initial START and a final STOP on a "
                "2-channel source with non-trivial identity (names, numbers, row/column codes, sub-frame divisions/offsets, sample rate, decimation; channel 0 with 1xn or 2xn "
                "projectors), every record pushed through the real AnalyzeData + PublishData; after the final STOP (and two more records that must land nowhere) every file of every "
                "run is decoded with the independent LJH 2.2 / LJH 3 / OFF decoders: header fields against the source's tables, projector/basis matrices bit for bit, body against "
                "the records accepted while active and unpaused (samples, first-rising index, OFF summary values and float32 coefficients, frame / sub-frame counts, time stamps in "
                "the format's unit), file length = header + sum of record sizes, no file of a disabled type, nothing else in the run directory; plus ljh.Writer / Writer3 / "
                "off.Writer driven directly with extreme parameters, 0..3 records and every flush position; "
                "non-trivial = at least one record landed in a file and at least one of {flush, pause, second run} occurred (writer level: >= 1 record and a flush)",
        "assumptions": ["LJH 2.2 header keys are matched with exact capitalisation except 'Digitized Word Size In Bytes' (decided deviation); Timebase compared to 1e-6 relative (printed with %e); "
                        "Timestamp offset compared to 2 us (printed with %.6f)",
                        "Timebase / frameperiod / FramePeriodSeconds = 1/SampleRate also under decimation ('Number of samples per point' carries the decimation level)",
                        "record variants are assigned to the records of a channel by rotation (all 4 rotation offsets enumerated), not as a free choice per record",
                        "a record whose length differs from the channel's record length (channel 1, no projectors) is not 'accepted' by LJH 2.2 (fixed-length format) but is by LJH 3",
                        "LJH time stamps = floor(UnixNano/1000); time stamps stay inside 1971..2200",
                        "projector/basis matrices are compact (as produced by the RPC path's UnmarshalBinary), not strided views",
                        "names are newline-free; requests issued directly on the source (RPC queueing is C11); writer queue overflow is explored in the back-pressure part at queue depths 2..9 "
                        "(the constant 1000 made settable), with the writers driven directly; there a small family also has a clock thread offer periodic-flush ticks at arbitrary points "
                        "(ticker seam, stall points before the bufio calls, atomic operations as scheduling points: see C07)",
                        "LJH 3 and OFF layouts as fixed in the property brief (no format document in the repository)"],
    }),
}
