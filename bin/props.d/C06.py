# Overrides the C06 entry of bin/props.py (props.d entries are merged after PROPS): same harness; record publication is now part of the
# alphabet (a record on one channel is an operation of the BFS; the probe families choose what is published after every request), so the
# rule/assumptions say so, and the caps follow the added work (quick +42 % executions, thorough +16 %).
# Round 7: fault family (one experiment-state-file fault per history; landing oracle only): quick +3 % executions (3888), thorough depth 5.
ENTRY = {
    "C06": {
        "pkg": ".", "hdir": "dastard", "harness": DASTARD_COMMON + ["zz_verif_files_test.go", "zz_verif_c06_test.go"], "test": "TestVerifC06",
        "quick": T(16, 210), "thorough": T(16, 720),
        "rule": "BFS: every (canonical writing state, operation) pair executed once; an operation is a request through the real AnySource.WriteControl, "
                "the removal of a finished run directory, or one tagged record on ONE channel pushed through the real AnalyzeData/PublishData - so "
                "between two requests any number of records is published on any of the channels, down to none (requests back to back, or one channel "
                "still without a record in this run while the other has stored some); the canonical state includes, per channel, the pause flag, the "
                "writers, whether each writer has created its file, and whether the channel has stored a record since writing last started or stopped. "
                "DFS: all request sequences to the depth bound with a tagged record on both channels after every request; probe families: all request "
                "sequences to their depth bound with one of {no record, channel 0 only, channel 1 only, both} chosen after every request. In every "
                "execution all files are decoded after a final STOP: a tagged record must be in the files of the run in force when it was published, once "
                "per enabled type of an eligible channel, exactly when the state reported at that moment was active and not paused, and nowhere otherwise. "
                "Fault family (environment deviation, un-merged DFS): all sequences of the legal requests and UNPAUSE-with-label of a fixed length with ONE "
                "I/O fault per history, placed before any request but the first: the experiment-state file open at that moment fails from then on (its "
                "descriptor is closed under the server), so a later STOP / START / UNPAUSE-with-label returns an error part-way through; from the fault on "
                "the outcome of a request is not judged (not that the state is unchanged, not that files are closed), only the landing clause above: a record "
                "published after it is in the files of the reported run exactly when the state reported then was active and not paused (the final STOP of "
                "the check may fail too and is judged the same way, by one more record). "
                "non-trivial = at least one START succeeded and at least one tagged record was published (fault family: and a request returned an error after the fault)",
        "assumptions": ["requests issued directly on the source (the RPC layer's queueing is C11)",
                        "two channels, every projector assignment (channel 0 only, channel 1 only, both, none)",
                        "file types compared only while the state is active (STOP leaves the type flags as they were)",
                        "records are published one per channel and call (a batch of several records in one PublishData call is C05)",
                        "the number of records a channel has stored in the current run enters the canonical state only as zero / non-zero",
                        "I/O faults are outside the property's quantifier; the fault family adds one kind only (the open experiment-state file fails from a chosen "
                        "request on, simulated by closing its descriptor), one fault per history, one projector assignment, and judges only where records land"],
    },
}
