ENTRY = {
    "C07": {
        "pkg": ".", "hdir": "dastard", "harness": DASTARD_COMMON + ["zz_verif_files_test.go", "zz_verif_c07_test.go"], "test": "TestVerifC07",
        "engines": ["vexp", "vhook"], "runtime_patch": True, "gomaxprocs": 1,
        "instrument": {"files": {"asyncbufio/asyncbufio.go": {}}},
        "textpatch": [{"file": "ljh/ljh.go", "old": "const WRITECHANCAPACITY = 1000", "new": "var WRITECHANCAPACITY = 1000"},
                      {"file": "off/off.go", "old": "const WRITECHANCAPACITY = 1000", "new": "var WRITECHANCAPACITY = 1000"}],
        "quick": T(16, 90), "thorough": T(16, 900),
        "rule": "one execution = one complete interleaving (at synchronisation-operation granularity, iteratively preemption-bounded, all select alternatives) of the "
                "producer thread with the real asyncbufio.writeLoop goroutine, for one (writer type, queue depth, record count, flush position); the file is read back "
                "when Flush and Close return; non-trivial = at least one preemption or at least one rejected write (queue full)",
        "assumptions": ["queue depth constant (1000) made settable and explored at 2..12; Write/Flush/Close/writeLoop/flush and the three WriteRecord functions are the real code",
                        "the periodic flush ticker (3 s) does not fire within an execution; its action is the same flush() as an explicit Flush",
                        "one producer per writer (as in dastard: a channel's records are published by one goroutine at a time)"],
        "technique": "stateless model checking of the real goroutines under a controlled scheduler (preemption-bounded DFS over scheduling and select choices)",
    },
}
