import os as _os
_REPO = _os.environ.get("VERIF_REPO", "/repo")
_VERIF = _os.path.dirname(_os.path.dirname(_os.path.dirname(_os.path.abspath(__file__)))) if "__file__" in globals() else "/verif"
# asyncbufio.go: besides the automatic points at channel operations / selects, opt-in points (switched on per
# scenario by the package-level bool VerifStallPoints of the seam file) before every call into the bufio.Writer
# ("disk" write / flush) and before every atomic operation
_ASYNC_INSTRUMENT = {"files": {"asyncbufio/asyncbufio.go": {"call_points": ["*.Write", "*.Flush"], "atomics": True, "opt_guard": "VerifStallPoints"}}}
# the periodic-flush ticker of writeLoop becomes a seam (default: time.NewTicker itself)
_ASYNC_TEXTPATCH = [{"file": "asyncbufio/asyncbufio.go", "old": "time.NewTicker(aw.flushInterval)", "new": "VerifNewTicker(aw.flushInterval)"}]
_ASYNC_OVERLAY = {_os.path.join(_REPO, "asyncbufio", "zz_verif_seam.go"): _os.path.join(_VERIF, "harness", "asyncbufio", "zz_verif_seam.go")}
ENTRY = {
    "C07": {
        "pkg": ".", "hdir": "dastard", "harness": DASTARD_COMMON + ["zz_verif_files_test.go", "zz_verif_c07_test.go"], "test": "TestVerifC07",
        "engines": ["vexp", "vhook"], "runtime_patch": True, "gomaxprocs": 1,
        "instrument": _ASYNC_INSTRUMENT,
        "textpatch": [{"file": "ljh/ljh.go", "old": "const WRITECHANCAPACITY = 1000", "new": "var WRITECHANCAPACITY = 1000"},
                      {"file": "off/off.go", "old": "const WRITECHANCAPACITY = 1000", "new": "var WRITECHANCAPACITY = 1000"}] + _ASYNC_TEXTPATCH,
        "_extra_overlay": _ASYNC_OVERLAY,
        "quick": T(16, 180), "thorough": T(16, 900),
        "rule": "one execution = one complete interleaving (at synchronisation-operation granularity, iteratively preemption-bounded, all select alternatives) of the "
                "producer thread with the real asyncbufio.writeLoop goroutine, for one (writer type, queue depth, record count, flush position; for the writers behind a DataPublisher also: pause position, resume position); the file is read back "
                "when Flush and Close return (also when the Flush is issued while writing is paused: records published while paused are not accepted, everything accepted before is due); non-trivial = at least one preemption or at least one rejected write (queue full); tick scenarios: a clock thread under the same "
                "scheduler additionally offers 1-2 periodic-flush ticks, every call into the bufio.Writer and every atomic operation of asyncbufio.go is a scheduling point as well; "
                "non-trivial there = writeLoop took its periodic-flush case at least once",
        "assumptions": ["queue depth constant (1000) made settable and explored at 2..12; Write/Flush/Close/writeLoop/flush and the three WriteRecord functions are the real code",
                        "periodic flushes: the ticker of writeLoop is a seam (time.NewTicker by default; the call is text-patched, nothing else) fed in the tick scenarios by a clock thread that offers a bounded "
                        "number of ticks (1; 2 for the bare asynchronous writer) at arbitrary points of the execution, through a channel with the real ticker's one-element buffer; there the consumer can "
                        "also be stalled immediately before every bufio Write / Flush call (between draining the queue and the disk write) and at every atomic operation; these scenarios are small "
                        "(1-2 records, one queue depth per format, preemption bound 3); in all other scenarios the real 3 s ticker is used and does not fire within an execution",
                        "pausing (publisher-level writers only): DataPublisher.SetPause(true/false) is called by the producer between two PublishData calls, as the PAUSE / UNPAUSE requests reach a channel between "
                        "two blocks; nothing is demanded of the files when SetPause itself returns (it is not a flush call of the property), only when the explicit Flush that follows and the close return; "
                        "a record published while paused counts as not accepted (PublishData stores nothing then), so any byte of it in a file is reported",
                        "one producer per writer (as in dastard: a channel's records are published by one goroutine at a time)"],
        "technique": "stateless model checking of the real goroutines under a controlled scheduler (preemption-bounded DFS over scheduling and select choices)",
    },
}
