# Overrides the C08 entry of bin/props.py (props.d entries are merged after PROPS): part 0 is that entry unchanged.
# part 0: block-partition differential DFS on the real PrepareRun/ChangeTriggerState/ProcessSegments (engine A)
_MAIN = {
    "pkg": ".", "hdir": "dastard", "harness": DASTARD_COMMON + ["zz_verif_trig_test.go", "zz_verif_c08_test.go"], "test": "TestVerifC08",
    "engines": ["vexp"],
    "quick": T(16, 180), "thorough": T(16, 900),
}
# part 1: race probe -- three edge-multi channels processed concurrently by the real ProcessSegments in a race-detector build
_RACE = {
    "pkg": ".", "hdir": "dastard", "harness": DASTARD_COMMON + ["zz_verif_trig_test.go", "zz_verif_c08_test.go", "zz_verif_raceprobe_test.go"], "test": "TestVerifC08Race",
    "engines": ["vexp", "vhook"], "runtime_patch": True, "race": True, "gomaxprocs": 4,
    "quick": T(16, 90), "thorough": T(16, 300),
}
ENTRY = {
    "C08": dict(_MAIN, **{
        "parts": [_MAIN, _RACE],
        "technique": "bounded exhaustive exploration of the real implementation (explicit-state search / stateless DFS over a closed driver) against a reference model (part 1); part 2: exhaustive enumeration of a small driver (configuration x edge layout x block pattern) with three channels processed by the real, free-running ProcessSegments goroutines in a race-detector build, the detector's happens-before reports and a processed-alone differential as per-execution monitors",
        "rule": "one execution = one (geometry, edge-multi configuration, edge set, block partition); differential oracle against the one-block run "
                "of the same stream + ordering/extent rules + the C01 excerpt oracle; non-trivial = at least one record emitted and at least one cut. "
                "Race-probe part: one execution = one (edge-multi configuration, edge layout, block pattern) with three channels all in edge-multi mode and edges on the same or "
                "neighbouring frames sent through the real ProcessSegments (one free-running goroutine per channel, GOMAXPROCS 4) in a race-detector build; every race report "
                "with both accesses in repository code is a violation, and every channel's records must equal those of the same stream processed alone; non-trivial = at least two channels emitted records",
        "assumptions": ["unsigned streams (edge-multi ignores signedness)", "staircase streams with sub-threshold ripple; 1-3 edges",
                        "race-probe part: the race detector is happens-before based (a report does not depend on the actual timing of the goroutines) but keeps a bounded access history per word "
                        "and reports one pair of stacks once per process; goroutines are free-running, not schedule-enumerated (that is C17)"],
    }),
}
