# Overrides the C09 entry of bin/props.py (props.d entries are merged after PROPS): same harness, rule/assumptions brought up to date
# with the receiver-list families (requests whose receiver lists mix valid, self, repeated and out-of-range indices in every order).
ENTRY = {
    "C09": {
        "pkg": ".", "hdir": "dastard", "harness": DASTARD_COMMON + ["zz_verif_trig_test.go", "zz_verif_c09_test.go"], "test": "TestVerifC09",
        "quick": T(16, 150), "thorough": T(16, 600),
        "rule": "BFS: every (connection set, edit) pair executed once through the real ChangeGroupTrigger/StopTriggerCoupling/SetCoupling, followed by "
                "9 data cycles through the real ProcessSegments (every subset of channels firing, and two sources firing on one frame); "
                "DFS: all edit sequences to the depth bound with cycles after every edit; the same through the SourceControl RPC methods, where the "
                "last GROUPTRIGGER message sent to clients must equal the set in use. Edit alphabet: single-pair add/delete over indices -1..nchan, "
                "stop, couplings, and whole-list requests: one source key in -1..nchan with every receiver list of length 2 and 3 over -1..nchan "
                "(valid, self, repeated, negative and >= nchan indices in every order; every (connection set, request) pair in the closure, at both "
                "levels), two source keys with every pair of length-2 lists (on the empty and the full set), and all depth-2 sequences over the "
                "single-pair + length-2-list alphabet. Oracle for a list request: every valid pair of it takes effect (add) / disappears (delete), "
                "no other index does, whatever precedes it in the list or the map; the error a request returns is not judged. "
                "non-trivial = at least one secondary record was emitted",
        "assumptions": ["edits issued directly on the source or through a SourceControl whose request queue is served one request at a time (RPC queueing is C11)",
                        "a frame fired by m connected sources may appear 1..m times (DESIGN 7.5)",
                        "receiver lists of length <= 3, at most two source keys per request; the order in which the real code visits the source keys of a "
                        "request is Go's map order (not enumerated: the set-theoretic result does not depend on it)"],
    },
}
