# Overrides the C09 entry of bin/props.py (props.d entries are merged after PROPS): same harness, rule/assumptions brought up to date
# with the receiver-list families (requests whose receiver lists mix valid, self, repeated and out-of-range indices in every order)
# and the trigger-position family (the source's primaries at every sample of the stream, four trigger kinds).
ENTRY = {
    "C09": {
        "pkg": ".", "hdir": "dastard", "harness": DASTARD_COMMON + ["zz_verif_trig_test.go", "zz_verif_c09_test.go"], "test": "TestVerifC09",
        "quick": T(16, 150), "thorough": T(16, 600),
        "rule": "BFS: every (connection set, edit) pair executed once through the real ChangeGroupTrigger/StopTriggerCoupling/SetCoupling, followed by "
                "9 data cycles through the real ProcessSegments (every subset of channels firing, and two sources firing on one frame); "
                "DFS: all edit sequences to the depth bound with cycles after every edit; the same through the SourceControl RPC methods, where the "
                "last GROUPTRIGGER message sent to clients must equal the set in use. Edit alphabet: single-pair add/delete over indices -1..nchan, "
                "stop, couplings, and whole-list requests: one source key in -1..nchan with every receiver list of length 2 and 3 over -1..nchan "
                "(valid, self, repeated, negative and >= nchan indices in every order; every (connection set, request) pair in the closure, at both "
                "levels), two source keys with every pair of length-2 lists (on the empty and the full set), and all depth-2 sequences over the "
                "single-pair + length-2-list alphabet. Oracle for a list request: every valid pair of it takes effect (add) / disappears (delete), "
                "no other index does, whatever precedes it in the list or the map; the error a request returns is not judged. "
                "Trigger-position family (where in the stream the primaries fall): every connection set (64) x firing channel (3) x its trigger kind "
                "(edge, level, auto every NSamples, edge+auto) x one pulse starting at every sample 0..60 of the stream or none x trigger settings "
                "re-sent before the second block or not, 3 blocks of 30 samples: in every cycle each other channel emits exactly the firing channel's "
                "primaries (frames, once each, own samples) iff it is connected to it, including the earliest (stream index NPresamples: start of a "
                "run, after re-sent settings) and the latest triggerable sample; the firing channel's records are checked against the edge/level "
                "criterion on the ground truth. "
                "non-trivial = at least one secondary record was emitted",
        "assumptions": ["edits issued directly on the source or through a SourceControl whose request queue is served one request at a time (RPC queueing is C11)",
                        "a frame fired by m connected sources may appear 1..m times (DESIGN 7.5)",
                        "trigger-position family: one firing channel per execution (the other channels carry ripple only), fixed block length 30, "
                        "npre 3 / nsamp 6, generic (non-Lancero) source, source level only",
                        "receiver lists of length <= 3, at most two source keys per request; the order in which the real code visits the source keys of a "
                        "request is Go's map order (not enumerated: the set-theoretic result does not depend on it)"],
    },
}
