ENTRY = {
    "C10": {
        "pkg": ".", "hdir": "dastard", "harness": DASTARD_COMMON + ["zz_verif_c03_test.go", "zz_verif_c04_test.go", "zz_verif_c10_test.go", "zz_verif_c11_test.go", "zz_verif_c17_test.go"], "test": "TestVerifC10",
        "engines": ["vexp", "vhook"], "runtime_patch": True, "gomaxprocs": 1,
        "instrument": {"files": {
            "data_source.go": {"only": ["Start", "CoreLoop", "Stop", "closeIfOpen", "RunDoneActivate", "RunDoneDeactivate", "RunDoneWait",
                                        "RunDoneChan", "GetState", "SetStateStarting", "SetStateInactive"]},
            "abaco.go": {"only": ["readerMainLoop", "getNextBlock", "distributeData", "Sample"]},
            "lancero_source.go": {"only": ["launchLanceroReader", "getNextBlock", "ConfigureMixFraction", "distributeData"]},
            "simulated_data_sources.go": {"only": ["StartRun"]},
            "writing_state.go": {}}},
        "textpatch": [{"file": "simulated_data_sources.go", "old": "time.After(", "new": "vAfter(", "all": True},
                      {"file": "simulated_data_sources.go", "old": "time.NewTicker(", "new": "vSimTicker(", "all": True},
                      {"file": "lancero_source.go", "old": "ticker := time.NewTicker(ls.readPeriod)", "new": "ticker := vNewTicker(ls.readPeriod)"},
                      {"file": "abaco.go", "old": "ticker := time.NewTicker(as.readPeriod)", "new": "ticker := vNewTicker(as.readPeriod)"}],
        "quick": T(16, 180), "thorough": T(16, 900),
        "rule": "one execution = one complete interleaving (synchronisation-operation granularity, preemption-bounded, all select alternatives) of the driver threads "
                "(Start, Stop callers; in S11 the real SourceControl.Start / SourceControl.Stop handlers) with the real CoreLoop goroutine and the producer goroutine of a scripted source "
                "(S11: of the real ErroringSource, which ends by itself); oracle: no deadlock, all calls return (whatever Stop replies), final state "
                "Inactive, writing stopped, no goroutine of the run left, and the same object restarts and delivers (S11: every later SourceControl.Start succeeds, and a Triangle "
                "start through the same SourceControl delivers data); non-trivial = at least one preemption",
        "assumptions": ["Abaco/Lancero scenarios: the packet producer / card is scripted (Lancero: Sample() bypassed, geometry set directly) and the reader's ticker is a seam driven by a clock thread; the time.After alternatives of getNextBlock/readerMainLoop never fire",
                        "S8: the real TriangleSource / SimPulseSource with time.After / time.NewTicker replaced by channels that are ready three times per execution (the 1 s heartbeat ticker never fires); time.Until / time.Now stay real",
                        "the producer is scripted (it follows the protocol of SimPulseSource: select{abort|tick}, send, close(nextBlock)); real-time tickers of the simulated sources are not explored",
                        "Stop is only called after Start has returned (the RPC layer refuses Stop while no source is active); Start || Start is explored at the source level",
                        "S11 (SourceControl level): the self-terminating source is the real ErroringSource (the only one SourceControl can start by name without hardware); the Abaco no-data time-out and Roach errors end a run through the same CoreLoop exit; "
                        "SourceControl's outgoing channels (client updates, heartbeats) are drained by a goroutine without scheduling points of its own; SourceControl itself has no scheduling points (it has no synchronisation operations besides those sends): "
                        "its calls interleave at the points inside Start/Stop/CoreLoop/RunDone*/GetState; concurrent Stop requests model two client connections",
                        "scheduling points are at channel operations, select, close, Lock/Unlock/Wait/Done in Start, CoreLoop, Stop, RunDone*, state accessors and WritingState"],
        "technique": "stateless model checking of the real goroutines under a controlled scheduler (preemption-bounded DFS over scheduling and select choices)",
    },
}
