ENTRY = {
    "C11": {
        "pkg": ".", "hdir": "dastard", "harness": DASTARD_COMMON + ["zz_verif_c03_test.go", "zz_verif_c04_test.go", "zz_verif_c10_test.go", "zz_verif_c11_test.go", "zz_verif_c17_test.go"], "test": "TestVerifC11",
        "engines": ["vexp", "vhook"], "runtime_patch": True, "gomaxprocs": 1,
        "instrument": {"files": {
            "rpc_server.go": {},
            "data_source.go": {"only": ["Start", "CoreLoop", "Stop", "closeIfOpen", "RunDoneActivate", "RunDoneDeactivate", "RunDoneWait",
                                        "GetState", "SetStateStarting", "SetStateInactive", "ArchiveDataBlock", "archiveNewDataBlock"]},
            "abaco.go": {"only": ["readerMainLoop", "getNextBlock", "distributeData", "Sample"]},
            "writing_state.go": {}}},
        "textpatch": [{"file": "abaco.go", "old": "ticker := time.NewTicker(as.readPeriod)", "new": "ticker := vNewTicker(as.readPeriod)"}],
        "quick": T(16, 180), "thorough": T(16, 900),
        "rule": "part 1: one execution per (request type, argument class / I/O fault, source running or not) and per select alternative, through the real SourceControl "
                "methods, runLaterIfActive, the real CoreLoop and the real handlers of a scripted two-channel source; every request that has to be refused is also sent twice in a row, "
                "and every request is also followed by Stop, Start (with the record lengths of the server status, as SourceControl.Start does), an edge trigger and two blocks with pulses, "
                "also sent inside a triggering run (edge trigger on both channels, a block with a pulse before and two after the request, so that records are cut and analysed with the channel's model after the reply), "
                "and also sent while a block is being processed (the scripted source's ProcessSegments is an interval with a scheduling point after its begin and before its end; the client waits for the begin); "
                "projector requests cover every pair of {well-formed, other row count, wrong column count} projector matrix and {well-formed, wrong row count, other column count} basis matrix, for a channel without a model and for one that has a model of another shape; part 2: one execution = one complete interleaving "
                "(preemption-bounded) of requester thread(s), CoreLoop, producer and optional Stop caller; oracle: every call returns exactly once (no deadlock), error iff "
                "the arguments are invalid / no source runs / the I/O step fails, the next blocks are still processed and further requests answered, no handler runs while a "
                "block is being processed (exclusion monitor), no crash; an invalid request is refused again when repeated; a request answered with an error leaves the STATUS "
                "content unchanged (server status and every STATUS message sent while it was handled); the run after Stop + Start uses the record lengths of the last "
                "record-length request answered with success and its triggered records (at least one, else the harness reports itself vacuous) have that shape; in a triggering run a request answered with an error "
                "leaves the set of channels with a model and the triggered records (lengths, number of model coefficients, still produced) as before it, an accepted model shows in the records of the later blocks, "
                "and analysing those records does not crash; part 2 also sends every request type (trigger, lengths, projectors, write control, label, comment, FB/error coupling, group trigger add/delete/stop, raw block, mix) "
                "when the processing of a block has begun; non-trivial (part 2) = at least one preemption",
        "assumptions": ["hw/abaco scenario: the real AbacoSource with a scripted packet producer and a clock thread for the reader's ticker (a seam); delay-bounded",
                        "SourceControl built as RunRPCServer does, minus network; the source is attached the way SourceControl.Start does after choosing it by name",
                        "the fire-and-forget mode of SetExperimentStateLabel is excluded (statement)",
                        "StoreRawDataBlock with N <= 0: the statement does not say whether that is an error; only 'no crash, no hang' is required",
                        "I/O faults produced with a directory or regular file in the way (the sandbox runs as root)",
                        "an error reply means the request was refused: the ServerStatus a client is told (STATUS messages) must be what it was before the request, "
                        "and so must the channels' models and triggering (what the next records look like)",
                        "ConfigureMixFraction is served on the client thread by design (a Lancero source queues the change itself, C04); it is not a mutator of the scripted generic source",
                        "WriteControl START with a pixel map that does not fit the source is refused with 'map file invalidated' and the map is unloaded (documented reaction): "
                        "the same START sent again is a START without a map and may succeed; every other refused request must be refused again when repeated"],
        "technique": "stateless model checking of the real goroutines under a controlled scheduler (preemption-bounded DFS over scheduling and select choices) + exhaustive argument-class enumeration",
    },
}
