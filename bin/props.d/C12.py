ENTRY = {
    # replaces the C12 entry of props.py
    "C12": {
        "pkg": ".", "hdir": "dastard", "harness": DASTARD_COMMON + ["zz_verif_c12_test.go"], "test": "TestVerifC12",
        "quick": T(16, 150), "thorough": T(16, 600),
        "rule": "direct family: one execution = one (option set, raw sequence) run unsplit and under every split into calls on the real PhaseUnwrapper, "
                "for every (fraction bits 13..16, bits dropped 0..4) pair the constructor accepts (quanta 2^9..2^15; 0 bits dropped only with unwrapping off) x "
                "bias 0|+q/4|-q/4 x resetAfter 1|2|3 x pulse sign x inversion; "
                "oracle = integer arithmetic of the property (modulo-quantum, step window, reset timing, split invariance); "
                "non-trivial = the output left the home offset at least once (a wrap was removed). "
                "Device paths: one execution = one partition of a two-channel packet stream into calls of the real AbacoGroup.demuxData / blocks of the real "
                "RoachDevice.readPackets, compared with one fresh unwrapper fed everything in one call; "
                "non-trivial = a later call started while the output was away from the home offset",
        "assumptions": ["bias restricted to |bias| <= quarter quantum (a single +-quantum correction cannot reach the window otherwise)",
                        "reset boundary tolerates resetAfter vs resetAfter+1 (DESIGN 7.6)", "values from a boundary alphabet, not all 2^16",
                        "unwrapping on with 0 bits dropped is refused by the constructor (panic by design) and is not an option set; "
                        "with unwrapping off and 0 bits dropped the output must be the inverted input plus a whole number of quanta "
                        "(whether bits above the fraction bits are kept is not stated)",
                        "thorough: sequences of length <= 7 for fraction bits 16|14 x bits dropped 0|2|4 and for the smallest and largest quantum, <= 6 for the other pairs"],
    },
}
