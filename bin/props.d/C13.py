ENTRY = {
    "C13": {
        "pkg": ".", "hdir": "dastard", "harness": DASTARD_COMMON + ["zz_verif_files_test.go", "zz_verif_c13_test.go"], "test": "TestVerifC13",
        "quick": T(16, 150), "thorough": T(16, 600),
        "rule": "one execution = one (npre, nsamp, signedness, record contents, projector/basis set) pushed through the real SetProjectorsBasis / AnalyzeData / "
                "messageSummaries (OFF family: real SetOFF / PublishData, file decoded); oracle = 256-bit math/big evaluation of the definitions "
                "(mean, least-squares slope x (npre-1), post-trigger mean / rms / max relative to the pretrigger mean, P x, population std of x - B P x); "
                "shape family: every projector/basis shape pair within +-1 of compatible must be rejected with an error iff incompatible; "
                "non-trivial = the record is not constant",
        "assumptions": ["tolerance max(1e-3 counts, 1e-6 |want|) on float64 fields; float32 fields additionally one float32 ulp",
                        "peak value accepted as max(post)-ptmean or that value floored at 0 (the running maximum starts at the pretrigger mean)",
                        "record length equals the processor's NSamples (projections of other lengths panic by design)",
                        "sample values from a 6-value boundary alphabet, matrix entries from {-1,0,0.5,1,3}; nil matrices are not matrices"],
    },
}
