ENTRY = {
    "C14": {
        "pkg": ".", "hdir": "dastard", "harness": DASTARD_COMMON + ["zz_verif_c14_test.go"], "test": "TestVerifC14",
        "quick": T(16, 60), "thorough": T(16, 600),
        "env": {"GODEBUG": "asyncpreemptoff=1"},  # fewer signals: dastard's publisher drops a message when zmq_send is interrupted by one
        "rule": "one execution = one DataRecord (cross product of boundary alphabets for every field) encoded by the real messageRecords or messageSummaries "
                "and decoded by a decoder written from doc/BINARY_FORMATS.md (2 frames, 36-byte record header / 48-byte summary header, documented offsets, "
                "little-endian, type code 2/3, payload exactly the samples / float64 coefficients, bytes 0-1 = channel); every field must be recovered exactly "
                "(NaN by class; float64 analysis values as their IEEE float32 rounding); non-trivial = the record has samples or coefficients",
        "assumptions": ["summary header length taken from the documented field table (last field at byte 40, 8 bytes = 48); the sentence above the table says 36, copied from the record section",
                        "channel index within 0..65535, trigger time within the UnixNano range",
                        "sample count and pre-trigger count decoded as unsigned 32-bit, trigger time and frame as signed 64-bit two's complement"],
    },
}
