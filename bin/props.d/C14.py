# part 0: every field of every record through the real converters + the socket family (engine A)
_MAIN = {
    "pkg": ".", "hdir": "dastard", "harness": DASTARD_COMMON + ["zz_verif_c14_test.go"], "test": "TestVerifC14",
    "engines": ["vexp"],
    "quick": T(16, 150), "thorough": T(16, 600),
    "env": {"GODEBUG": "asyncpreemptoff=1"},  # fewer signals: dastard's publisher drops a message when zmq_send is interrupted by one
}
# part 1: race probe -- the two PUB-socket goroutines convert the same records concurrently in a race-detector build
# (zz_verif_raceprobe_test.go also holds the C08 probe, hence the trigger-driver files)
_RACE = {
    "pkg": ".", "hdir": "dastard", "harness": DASTARD_COMMON + ["zz_verif_trig_test.go", "zz_verif_c08_test.go", "zz_verif_raceprobe_test.go"], "test": "TestVerifC14Race",
    "engines": ["vexp", "vhook"], "runtime_patch": True, "race": True, "gomaxprocs": 4,
    "quick": T(16, 90), "thorough": T(16, 300),
    "env": {"GODEBUG": "asyncpreemptoff=1"},
}
ENTRY = {
    "C14": dict(_MAIN, **{
        "parts": [_MAIN, _RACE],
        "technique": "bounded exhaustive exploration of the real implementation (explicit-state search / stateless DFS over a closed driver) against a reference model (part 1); part 2: exhaustive enumeration of batch shapes through both real socket goroutines running concurrently in a race-detector build, the detector's happens-before reports as per-execution monitor",
        "rule": "one execution = one DataRecord (cross product of boundary alphabets for every field) encoded by the real messageRecords or messageSummaries "
                "and decoded by a decoder written from doc/BINARY_FORMATS.md (2 frames, 36-byte record header / 48-byte summary header, documented offsets, "
                "little-endian, type code 2/3, payload exactly the samples / float64 coefficients, bytes 0-1 = channel); every field must be recovered exactly "
                "(NaN by class; float64 analysis values as their IEEE float32 rounding); non-trivial = the record has samples or coefficients. "
                "Sequence family: one execution = 3 consecutive messages from the same converter (as the one publishing goroutine produces them), each with an independently chosen channel {0,65535} and "
                "variable-length part (records: length x signed; summaries: coefficient sets of 0,1,2,3,64), every message decoded and compared in full right after its conversion "
                "(classes c14-seq-*); non-trivial = the variable-length parts of the sequence differ. "
                "Socket family: 1-2 batches of 1-3 records over channels {0,1,256}, which have 4, 0 and 2 coefficients (projectors are per channel) and 3-5 samples, through the real startSocket goroutine "
                "and a ZMQ PUB socket to a SUB client; every record must arrive as its own two-frame message, in order, and decode to itself (all coefficients / samples); non-trivial = more than one record. "
                "Race-probe part: one execution = 1-3 rounds of record batches for three channels pushed by the real PublishData (one goroutine per channel) into the channels of the real "
                "startSocket(messageRecords) and startSocket(messageSummaries) goroutines, which convert the same records at the same time (free-running, GOMAXPROCS 4) in a race-detector build; "
                "every race report with both accesses in repository code is a violation; non-trivial = at least two records were published",
        "assumptions": ["summary header length taken from the documented field table (last field at byte 40, 8 bytes = 48); the sentence above the table says 36, copied from the record section",
                        "channel index within 0..65535, trigger time within the UnixNano range",
                        "a message is judged when it is handed over for sending (ZMQ copies on send); frames of earlier messages are not required to stay intact after the next conversion",
                        "sample count and pre-trigger count decoded as unsigned 32-bit, trigger time and frame as signed 64-bit two's complement",
                        "race-probe part: the race detector is happens-before based (a report does not depend on the actual timing of the goroutines) but keeps a bounded access history per word, "
                        "does not see accesses inside cgo/ZMQ and reports one pair of stacks once per process; the messages are not received (no SUB socket)"],
    }),
}
