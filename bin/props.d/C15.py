ENTRY = {
    "C15": {
        "pkg": "packets", "hdir": "packets", "harness": ["zz_verif_c15_test.go"], "test": "TestVerifC15",
        "quick": T(16, 60), "thorough": T(16, 600),
        "rule": "(A) one execution = one datagram: fixed header (header-length field consistent/+8/-8/+4/15, magic right/wrong, version, "
                "payload-length field 0/8/16/6/3/4096/65535) ++ one sequence of 0..3 (quick) / 0..4 (thorough) TLVs from a 33-entry menu of valid and "
                "malformed encodings ++ payload exact/one byte short/eight bytes extra, or one truncation of an encoder-made datagram; decoded by the real "
                "ReadPacket and ReadPacketPlusPad (stride 8 and 64) with bytes consumed measured on the reader, then Length/Timestamp/IsExternalTrigger/String/"
                "ChannelInfo/Frames/ReadValue/MakePretendPacket/Bytes each called in its own recover and the sizes compared. Cases = (header-length mode, first TLV). "
                "Non-trivial = the datagram decoded without error and a payload was read. "
                "(B) one execution = one packet built by NewPacket [+SetTimestamp] [+NewData] (cases = sample width x sample count x dims), Bytes(), ReadPacket, "
                "field-by-field comparison of version, source id, sequence number, channel offset, shape, samples, timestamp counter; always non-trivial.",
        "assumptions": ["structured enumeration over a boundary alphabet, not all byte strings up to 64 KiB",
                        "bytes-consumed bound is max(16, header length + payload length): the 16-byte fixed header must be read to learn the lengths",
                        "a constructor call that panics or returns an error builds no packet: round-trip clause vacuous, counted as observation (DESIGN 7.8)",
                        "ReadPacketPlusPad stride >= 1 (stride 0 divides by zero: out of domain); its bound is the declared size rounded up to the stride",
                        "Bytes() on a decoded packet is only required to round-trip where the re-encoded datagram is self-consistent "
                        "(emitted TLVs fill the retained header length and len(Bytes()) == Length()); it is not called on a decoded timestamp of rate 0 "
                        "(non-terminating loop, demonstrated once by case B/zz-timestamp-rate-zero under a 3 s watchdog)",
                        "Length() != len(Bytes()) for header-only constructed packets and bytes left unread by the decoder are recorded as observations, not violations"],
    },
}
