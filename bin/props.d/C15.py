ENTRY = {
    "C15": {
        "pkg": "packets", "hdir": "packets", "harness": ["zz_verif_c15_test.go"], "test": "TestVerifC15",
        "quick": T(16, 150), "thorough": T(16, 600),
        "rule": "(A) one execution = one datagram: fixed header (header-length field consistent/+8/-8/+4/15, magic right/wrong, version, "
                "payload-length field 0/8/16/6/3/4096/65535) ++ one sequence of 0..3 (quick) / 0..4 (thorough) TLVs from a 33-entry menu of valid and "
                "malformed encodings ++ payload exact/one byte short/eight bytes extra, or one truncation of an encoder-made datagram; decoded by the real "
                "ReadPacket and ReadPacketPlusPad (stride 8 and 64) with bytes consumed measured on the reader, then Length/Timestamp/IsExternalTrigger/String/"
                "ChannelInfo/Frames/ReadValue/MakePretendPacket each called in its own recover and the sizes compared. Cases = (header-length mode, number of TLVs, first TLV). "
                "Non-trivial = the datagram decoded without error and a payload was read. "
                "(B) one execution = one packet built by NewPacket [+SetTimestamp] [+NewData] (cases = sample width x sample count x dims), Bytes(), ReadPacket, "
                "field-by-field comparison of version, source id, sequence number, channel offset, shape, samples, timestamp counter; always non-trivial.",
        "assumptions": ["structured enumeration over a boundary alphabet, not all byte strings up to 64 KiB",
                        "bytes-consumed bound is max(16, header length + payload length): the 16-byte fixed header must be read to learn the lengths",
                        "a constructor call that panics or returns an error builds no packet: round-trip clause vacuous, counted as observation (DESIGN 7.8)",
                        "ReadPacketPlusPad stride >= 1 (stride 0 divides by zero: out of domain); its bound is the declared size rounded up to the stride",
                        "Bytes() on a *decoded* packet is outside the statement (its second clause is about constructor-built packets): a panic there "
                        "(format item without endian flag), a differing re-decode, and decoded rate-0 timestamps (on which Bytes() would not return; "
                        "not called) are counted as observations in coverage.extra, not as violations; skipped for payload-length fields > 4096",
                        "the constructor-side rate-0 timestamp (Bytes() never returns) is run once under a 3 s watchdog as the last case of the run",
                        "Length() != len(Bytes()) for header-only constructed packets and bytes left unread by the decoder are recorded as observations, not violations"],
    },
}
