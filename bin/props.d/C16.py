import os as _os
_REPO = _os.environ.get("VERIF_REPO", "/repo")
_VERIF = _os.path.dirname(_os.path.dirname(_os.path.dirname(_os.path.abspath(__file__)))) if "__file__" in globals() else "/verif"

# part 0: (a) SENDALL replay through the real RunClientUpdater + ZMQ, (b) persistence round trip; package dastard
_AB = {
    "pkg": ".", "hdir": "dastard", "harness": DASTARD_COMMON + ["zz_verif_c16_test.go"], "test": "TestVerifC16",
    "engines": ["vexp"],
    "quick": T(16, 150), "thorough": T(16, 480),
}
# part 1: (c) kill at every crash point of saveState, recovery by the real setupViper; package main of cmd/dastard
_C = {
    "pkg": "cmd/dastard", "hdir": "cmd_dastard", "harness": ["zz_verif_c16c_test.go"], "test": "TestVerifC16c",
    "engines": ["vexp", "vhook"], "runtime_patch": True,
    "instrument": {"files": {}, "crash": {"client_updater.go": ["saveState"]}},
    # the unexported saveState is reached through a door overlaid into package dastard (non-test file)
    "_extra_overlay": {_os.path.join(_REPO, "zz_verif_export.go"): _os.path.join(_VERIF, "harness", "dastard", "zz_verif_export.go")},
    "quick": T(16, 30, 30), "thorough": T(16, 120, 60),
}
ENTRY = {
    "C16": dict(_AB, **{
        "parts": [_AB, _C],
        "rule": "(a) one execution = one sequence of status updates (3 prefixed topics x 2 values with real payload types, repeats, the no-save topic ALIVE, NEWDASTARD, the no-publish topic "
                "CURRENTTIME, an update json.Marshal rejects) pushed through clientMessageChan into the real RunClientUpdater (real ZMQ PUB socket), then SENDALL, observed by a ZMQ SUB client: live "
                "traffic must be exactly the publishable updates in order, the replay exactly one message per topic ever published through that updater, equal to the most recent one; "
                "non-trivial = some topic was published with two different messages. "
                "(b) one execution = one value of one persisted structure (all other topics at a baseline) saved by the real saveState, read by a fresh viper, decoded by the UnmarshalKey calls of "
                "RunRPCServer / PrepareRun (trigger states also through the real PrepareRun on a 4-channel source), every exported field compared; then a second run saves changed values for some topics "
                "and a third start-up must see the new values for those and the old ones for the rest, no-save topics never in the file, .bak = previous file; non-trivial = the value is not the zero value. "
                "(c) one execution = directory pre-state x boot path x number of saves x kill at one crash point of the last saveState (before every statement that calls os or viper) "
                "[x torn temporary file], then the real setupViper: it must succeed and yield the complete previous or complete new version (all keys), then a further save+restart must work; "
                "non-trivial = the kill fired",
        "assumptions": ["kill = process kill between two statements of saveState (no power loss / page-cache loss); viper.WriteConfigAs itself is not instrumented: a kill inside it is modelled by the "
                        "torn temporary file (0 bytes, 1 byte, half, all but one byte); files live on tmpfs when /dev/shm exists",
                        "an empty configuration after a kill is accepted only if no version had ever been saved before",
                        "start-up deliberately normalises some values after decoding (Npresamp<=0 -> 400, Nsamples<=Npresamp -> 2*Npresamp, SamplePeriod<=0 -> 10us, Nchan==0 -> 1), forces EdgeMulti=false "
                        "and does not persist EMTState: the comparison is on the decoded values before normalisation, EdgeMulti/EMTState excluded; of WRITING only BasePath is used by start-up",
                        "negative channel indices in a saved trigger list are out of domain (ComputeFullTriggerState only emits processor indices; PrepareRun would index out of range)",
                        "an update whose state json.Marshal rejects is never published and no dastard state is unencodable: what the updater does with it (SENDALL then replays the topic with an empty body) "
                        "is counted as observation obs_a_unencodable_update_blanks_replay, not judged",
                        "NEWDASTARD is an event announcement the updater deliberately never remembers; TRIGGERRATE (thorough only) follows the same path as ALIVE",
                        "ZMQ delivery is asynchronous: the harness waits for a sentinel; a discrepancy is re-run alone on a fresh updater before it is reported; a missing sentinel is an infrastructure failure",
                        "the updater's own save timers (2 s after a change) fire during part (a) with no configuration file set, so saveState returns after WriteConfigAs fails"],
        "technique": "exhaustive bounded enumeration on the real code (sequential explorer) + crash-point injection (engine C) in saveState",
    }),
}
