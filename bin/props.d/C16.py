import os as _os
_REPO = _os.environ.get("VERIF_REPO", "/repo")
_AB = {
    "pkg": ".", "hdir": "dastard", "harness": DASTARD_COMMON + ["zz_verif_c16_test.go"], "test": "TestVerifC16",
    "engines": ["vexp"],
}
_C = {
    "pkg": "cmd/dastard", "hdir": "cmd_dastard", "harness": ["zz_verif_c16c_test.go"], "test": "TestVerifC16c",
    "engines": ["vexp", "vhook"], "runtime_patch": True,
    "instrument": {"files": {}, "crash": {"client_updater.go": ["saveState"]}},
    # the unexported saveState is reached through a door overlaid into package dastard
    "_extra_overlay": {_os.path.join(_REPO, "zz_verif_export.go"): "/verif/harness/dastard/zz_verif_export.go"},
    "quick": T(16, 30, 30), "thorough": T(16, 120, 60),
}
ENTRY = {
    "C16": dict(_AB, **{
        "parts": [_AB, _C],
        "quick": T(16, 60), "thorough": T(16, 480),
    }),
}
