ENTRY = {
    "C17": {
        "pkg": ".", "hdir": "dastard", "harness": DASTARD_COMMON + ["zz_verif_c03_test.go", "zz_verif_c04_test.go", "zz_verif_c10_test.go", "zz_verif_c11_test.go", "zz_verif_c17_test.go"], "test": "TestVerifC17",
        "engines": ["vexp", "vhook"], "runtime_patch": True, "gomaxprocs": 1, "race": True,
        "instrument": {"files": {
            "rpc_server.go": {},
            "data_source.go": {"only": ["Start", "CoreLoop", "Stop", "closeIfOpen", "RunDoneActivate", "RunDoneDeactivate", "RunDoneWait", "RunDoneChan",
                                        "GetState", "SetStateStarting", "SetStateInactive", "ArchiveDataBlock", "archiveNewDataBlock"]},
            "writing_state.go": {},
            "abaco.go": {"only": ["readerMainLoop", "getNextBlock", "distributeData", "Sample"]},
            "lancero_source.go": {"only": ["launchLanceroReader", "getNextBlock", "ConfigureMixFraction", "distributeData"]},
            "asyncbufio/asyncbufio.go": {}}},
        "textpatch": [{"file": "lancero_source.go", "old": "ticker := time.NewTicker(ls.readPeriod)", "new": "ticker := vNewTicker(ls.readPeriod)"},
                      {"file": "abaco.go", "old": "ticker := time.NewTicker(as.readPeriod)", "new": "ticker := vNewTicker(as.readPeriod)"},
                      {"file": "data_source.go", "old": "ds.numberWrittenTicker = time.NewTicker(1 * time.Second)", "new": "ds.numberWrittenTicker = vTickAlways(1 * time.Second)"},
                      {"file": "data_source.go", "old": "ds.writingState.externalTriggerTicker = time.NewTicker(time.Second * 1)", "new": "ds.writingState.externalTriggerTicker = vTickAlways(time.Second * 1)"},
                      {"file": "data_source.go", "old": "ds.writingState.dataDropTicker = time.NewTicker(time.Second * 10)", "new": "ds.writingState.dataDropTicker = vTickAlways(time.Second * 10)"}],
        "quick": T(16, 180), "thorough": T(16, 900),
        "rule": "one execution = one complete interleaving (preemption-bounded, all select alternatives) of the scenario's threads in a -race build; the race detector's log is read "
                "after every execution and every report whose two accesses are both in repository code is a violation (class = the unordered pair of top frames); "
                "non-trivial = at least one preemption",
        "assumptions": ["the scheduler's hand-off is invisible to the race detector (plain memory + runtime-internal atomics in //go:norace functions): verified by the self-test mutants",
                        "scheduling points at channel operations, select, close, Lock/Unlock/Wait/Done in the instrumented functions; code between two points runs as one step and is judged by the detector only",
                        "the detector's shadow history is bounded; accesses inside cgo/ZMQ are invisible; status, record and summary consumers are goroutines that serialise the data as the real publishers do",
                        "data time: every block of the scripted source covers 24 ms; blocks are contiguous in data time except in the data-timeline scenario, where two of four blocks follow 3.5 s and 2.2 s of lost data time "
                        "(frame number and time stamp jump together), so that one core-loop pass ends 2-4 one-second trigger-rate periods and hands the status thread several messages in a row; "
                        "a single block that itself holds more than 1 s of samples is not enumerated (the broker sees the same sequence of period ends either way)"],
        "technique": "stateless model checking of the real goroutines under a controlled scheduler in a race-detector build (preemption-bounded DFS); the race detector is the per-execution monitor",
    },
}
