ENTRY = {
    "C19": {
        "pkg": ".", "hdir": "dastard", "harness": DASTARD_COMMON + ["zz_verif_files_test.go", "zz_verif_c19_test.go"], "test": "TestVerifC19",
        "quick": T(16, 180), "thorough": T(16, 600),
        "rule": "one execution = one source configuration (Lancero: active cards, columns per card, rows, FirstRow, ChanSepColumns, ChanSepCards, with the geometry either written into the source or "
                "- lancero-sampled, cards with unequal column counts - found by the real Configure and Sample/sampleCard in the streams of scripted cards, the number of data streams Sample reports "
                "compared with the number the cards deliver whenever PrepareChannels does not reject; Abaco: set, arrival order and "
                "producer assignment of channel groups; generic/Triangle/SimPulse/Roach: channel count) through the real PrepareChannels (Abaco: real Sample first) and "
                "PrepareRun; names, numbers, groups and row/column codes compared with the geometry the harness configured, accepted Lancero separations re-checked "
                "against an independent literal numbering, overlapping Abaco groups must be rejected; for small configurations of every source type the real WriteControl START / "
                "PublishData (one tagged record per stream) / STOP runs with every non-empty set of file types out of LJH22, LJH3, OFF (OFF with projectors loaded on all streams; "
                "the OFF-only START also with projectors on every other stream only): the run directory must hold one file per (stream, type) that wrote a record, named for the "
                "stream's reported name, and the decoded LJH22 / LJH3 / OFF header (name, index, number, source, rows, columns, row, column, channel count, subframe fields, as far "
                "as the format records them) and the one record in it must be those of that stream; "
                "through the RPC layer: one SourceControl is asked (ConfigureLanceroSource / ConfigureTriangleSource / ConfigureSimPulseSource, Start, Stop) to run every ordered pair "
                "(thorough: triple) of a menu of 9 sources (Lancero on two simulated cards with several FirstRow / ChanSepColumns, Triangle, SimPulse; stream counts 16, 8, 3, so restarts "
                "with an equal and with a different count, within and across source types); after each Start, while the source runs, the last STATUS message (Running, Nchannels, ChanGroups), "
                "the last CHANNELNAMES message and the groups stored in ~/.dastard/channels.json must describe the running source: all identity oracles on the active source, "
                "Nchannels = number of streams, reported and stored groups cover exactly the channel numbers in use, names = the streams' names; "
                "non-trivial = the configuration was accepted and has at least 2 streams",
        "assumptions": ["Lancero geometry (devnum, columns, rows per card) is set directly in family A and twice/lancero (this alone reaches one-row cards and cards with unequal row counts, which the real Sample rejects); "
                        "in lancero-sampled and twice/lancero-sampled it comes from the real Configure (rows, line period, NSAMP from a cringeGlobals file) and the real Sample on scripted lancero.Lanceroer cards "
                        "(sampleCard paces itself on the card's time stamps: 5 frames at 20 frames/s of card time, three driver reads, stream starting one word into a frame); "
                        "RoachSource.nchan is set directly because samplePacket needs a UDP socket",
                        "a multi-card Lancero source cannot run (the reader panics 'not yet implemented' at its first tick): its identity is checked on what Sample, PrepareChannels and PrepareRun set up, and in the files a START writes",
                        "Abaco packets come from fake PacketProducers built with the real packets constructors; all groups measure the same sample rate",
                        "true geometry of a multi-card Lancero stream = (row, column) within its own card and that card's rows x columns; of an Abaco stream = row within its group, "
                        "group position as column, group size as rows, number of groups as columns",
                        "'status messages' = the STATUS and CHANNELNAMES client updates SourceControl.Start sends (read from SourceControl.clientUpdates by a harness goroutine standing in for the "
                        "client updater; heartbeats drained likewise) and the channels.json it stores under $HOME/.dastard (a private HOME per worker); the RPC family runs in real time on "
                        "lancero.NoHardware cards (one active card: a multi-card source cannot run) and the free-running Triangle/SimPulse sources; Abaco and Roach need UDP sockets and are not started through SourceControl",
                        "groups 'cover exactly' = the union of the reported [Firstchan, Firstchan+Nchan) ranges equals the set of channel numbers in use and the ranges are disjoint",
                        "rejecting a collision-free configuration is not a violation (counted in the evidence); exact Lancero numbers are not prescribed, only collision freedom",
                        "subframe offsets/divisions are compared between file header and source tables only; their physical correctness is not part of C19 (deviations are counted)",
                        "output files are named <run prefix>_<reported stream name>.<ljh|ljh3|off> (data_source.go, 'file names from channel name'); a stream without projectors writes no OFF file; "
                        "projectors are a 2 x nsamp matrix (first sample, sum of samples), so the first OFF coefficient identifies the stream that wrote the record"],
    },
}
