ENTRY = {
    "C19": {
        "pkg": ".", "hdir": "dastard", "harness": DASTARD_COMMON + ["zz_verif_files_test.go", "zz_verif_c19_test.go"], "test": "TestVerifC19",
        "quick": T(16, 60), "thorough": T(16, 600),
        "rule": "one execution = one source configuration (Lancero: active cards, columns, rows, FirstRow, ChanSepColumns, ChanSepCards; Abaco: set, arrival order and "
                "producer assignment of channel groups; generic/Triangle/SimPulse/Roach: channel count) through the real PrepareChannels (Abaco: real Sample first) and "
                "PrepareRun; names, numbers, groups and row/column codes compared with the geometry the harness configured, accepted Lancero separations re-checked "
                "against an independent literal numbering, overlapping Abaco groups must be rejected; for small configurations the real WriteControl START / "
                "PublishData / STOP writes LJH22 (and LJH3) files whose names and decoded headers are compared with the reported identity; "
                "non-trivial = the configuration was accepted and has at least 2 streams",
        "assumptions": ["Lancero geometry (devnum, columns, rows per card) is set directly because sampleCard needs hardware; RoachSource.nchan is set directly because samplePacket needs a UDP socket",
                        "Abaco packets come from fake PacketProducers built with the real packets constructors; all groups measure the same sample rate",
                        "true geometry of a multi-card Lancero stream = (row, column) within its own card and that card's rows x columns; of an Abaco stream = row within its group, "
                        "group position as column, group size as rows, number of groups as columns",
                        "groups 'cover exactly' = the union of the reported [Firstchan, Firstchan+Nchan) ranges equals the set of channel numbers in use and the ranges are disjoint",
                        "rejecting a collision-free configuration is not a violation (counted in the evidence); exact Lancero numbers are not prescribed, only collision freedom",
                        "subframe offsets/divisions are compared between file header and source tables only; their physical correctness is not part of C19 (deviations are counted)"],
    },
}
