# Overrides the C20 entry of bin/props.py (props.d entries are merged after PROPS): same harness and test, texts and quick cap
# brought up to date with the label-text family (label texts that coincide with dastard's own markers and request words).
ENTRY = {
    "C20": {
        "pkg": ".", "hdir": "dastard", "harness": DASTARD_COMMON + ["zz_verif_trig_test.go", "zz_verif_c20_test.go"], "test": "TestVerifC20",
        "quick": T(16, 180), "thorough": T(16, 900),
        "rule": "one execution = one history of write-control requests, state labels and data blocks (with external-trigger lists and drop counts) through the real "
                "WriteControl / SetExperimentStateLabel / ProcessSegments, all side files decoded after every STOP and again at the end: the experiment-state file must hold "
                "the header, START, exactly one line per accepted label request in order (whatever the label text is), STOP; after every STOP neither the writing state nor the "
                "process (open descriptors under the run directory) may still hold a side file. Label texts: ordinary ones in all histories; in the label family (histories "
                "that begin with START) also START, STOP, PAUSE, UNPAUSE and their lower-case forms, each through SetExperimentStateLabel and through 'UNPAUSE <text>' "
                "('unpause <text>' for the lower-case forms), at every position of one or two consecutive runs. "
                "non-trivial = at least one run was started and at least one event was due to be logged (label family: and a label with a marker text was accepted)",
        "assumptions": ["time stamps of START/STOP/UNPAUSE-label lines are chosen by dastard (time.Now) and only checked for format; those of SetExperimentStateLabel lines are "
                        "chosen by the harness and compared exactly",
                        "label texts are single-line and contain no ', ' (an empty label is rejected by the RPC layer before it reaches the source and is not in the alphabet)",
                        "quick explores upper-case and lower-case marker texts in separate histories; thorough mixes them in one alphabet",
                        "the open-descriptor scan reads /proc/self/fd; a handle dropped without Close is seen only until the garbage collector finalises it (can under-report, never over-report)"],
    },
}
