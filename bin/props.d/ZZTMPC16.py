import os as _os
_REPO = _os.environ.get("VERIF_REPO", "/repo")
ENTRY = {
    "C16T": {
        "pkg": "cmd/dastard", "hdir": "cmd_dastard", "harness": ["zz_verif_c16c_test.go"], "test": "TestVerifC16c",
        "engines": ["vexp", "vhook"], "runtime_patch": True,
        "instrument": {"files": {}, "crash": {"client_updater.go": ["saveState"]}},
        "_extra_overlay": {_REPO + "/zz_verif_export.go": "/verif/harness/dastard/zz_verif_export.go"},
        "quick": T(16, 60), "thorough": T(16, 300),
    },
}
