# Per-property check configuration used by bin/check.
# pkg: package directory under /repo whose test binary hosts the harness
# hdir: directory under /verif/harness holding the harness files
# harness: files overlaid into the package directory
# test: the Go test function that runs the exploration


def T(shards=16, deadline_s=60, grace_s=60):
    return {"shards": shards, "deadline_s": deadline_s, "grace_s": grace_s}


PROPS = {
    "C18": {
        "pkg": "ringbuffer", "hdir": "ringbuffer", "harness": ["zz_verif_c18_test.go"], "test": "TestVerifC18",
        "quick": T(16, 60), "thorough": T(16, 600),
        "rule": "BFS: every (canonical state, op) pair of the ring buffer executed once on the real RingBuffer "
                "(state = read/write positions mod lcm(cap,12) and fill level); DFS: every op sequence to the depth bound, "
                "un-merged. Non-trivial = the execution wrapped around the end of the buffer (BFS) / wrapped and was exactly full (DFS).",
        "assumptions": ["RingBuffer built in-package over Go memory instead of shm (same methods)",
                        "chunk/stride sizes >= 1 (0 divides by zero: out of domain, DESIGN 7.10)",
                        "single goroutine: concurrent reader/writer processes are not modelled"],
    },
}
