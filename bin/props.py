# Per-property check configuration used by bin/check.
# pkg: package directory under /repo whose test binary hosts the harness
# hdir: directory under /verif/harness holding the harness files
# harness: files overlaid into the package directory
# test: the Go test function that runs the exploration


def T(shards=16, deadline_s=60, grace_s=60):
    return {"shards": shards, "deadline_s": deadline_s, "grace_s": grace_s}


DASTARD_COMMON = ["zz_verif_common_test.go"]

PROPS = {
    "C20": {
        "pkg": ".", "hdir": "dastard", "harness": DASTARD_COMMON + ["zz_verif_trig_test.go", "zz_verif_c20_test.go"], "test": "TestVerifC20",
        "quick": T(16, 150), "thorough": T(16, 900),
        "rule": "one execution = one history of write-control requests, state labels and data blocks (with external-trigger lists and drop counts) through the real "
                "WriteControl / SetExperimentStateLabel / ProcessSegments, all side files decoded after every STOP and again at the end; "
                "non-trivial = at least one run was started and at least one event was due to be logged",
        "assumptions": ["time stamps of START/STOP/UNPAUSE-label lines are chosen by dastard (time.Now) and only checked for format"],
    },
    "C01": {
        "pkg": ".", "hdir": "dastard", "harness": DASTARD_COMMON + ["zz_verif_trig_test.go", "zz_verif_c01_test.go"], "test": "TestVerifC01",
        "quick": T(16, 150), "thorough": T(16, 900),
        "rule": "one execution = one (geometry, signedness, trigger configuration, control history, pulse set, block partition) run through the real "
                "PrepareRun/ChangeTriggerState/ProcessSegments; non-trivial = at least one emitted record spans a block boundary",
        "assumptions": ["decimation off", "structured streams (baseline + position-dependent ripple + 1-2 pulses), not all 2^16n value sequences",
                        "block time stamps mutually consistent (DESIGN 7.13)"],
    },
    "C02": {
        "pkg": ".", "hdir": "dastard", "harness": DASTARD_COMMON + ["zz_verif_trig_test.go", "zz_verif_c02_test.go"], "test": "TestVerifC02",
        "quick": T(16, 150), "thorough": T(16, 900),
        "rule": "as C01 without edge-multi; oracle = independent scan of the ground-truth stream with the edge/level/auto criteria; "
                "non-trivial = a criterion sample lies within one record length of a block boundary",
        "assumptions": ["criteria as defined by the code (DESIGN 7.1), dead time inclusive", "completeness only demanded where decidable from delivered data (DESIGN 7.2)"],
    },
    "C06": {
        "pkg": ".", "hdir": "dastard", "harness": DASTARD_COMMON + ["zz_verif_files_test.go", "zz_verif_c06_test.go"], "test": "TestVerifC06",
        "quick": T(16, 150), "thorough": T(16, 600),
        "rule": "BFS: every (canonical writing state, request) pair executed once through the real AnySource.WriteControl with a tagged record per channel "
                "pushed through the real AnalyzeData/PublishData after each request and all files decoded after a final STOP; DFS: all request "
                "sequences to the depth bound; non-trivial = at least one START succeeded",
        "assumptions": ["requests issued directly on the source (the RPC layer's queueing is C11)", "two channels, one with projectors",
                        "file types compared only while the state is active (STOP leaves the type flags as they were)"],
    },
    # C08 is overridden by props.d/C08.py (this entry as part 0 + the race-probe part)
    "C08": {
        "pkg": ".", "hdir": "dastard", "harness": DASTARD_COMMON + ["zz_verif_trig_test.go", "zz_verif_c08_test.go"], "test": "TestVerifC08",
        "quick": T(16, 150), "thorough": T(16, 900),
        "rule": "one execution = one (geometry, edge-multi configuration, edge set, block partition); differential oracle against the one-block run "
                "of the same stream + ordering/extent rules + the C01 excerpt oracle; non-trivial = at least one record emitted and at least one cut",
        "assumptions": ["unsigned streams (edge-multi ignores signedness)", "staircase streams with sub-threshold ripple; 1-3 edges"],
    },
    "C09": {
        "pkg": ".", "hdir": "dastard", "harness": DASTARD_COMMON + ["zz_verif_trig_test.go", "zz_verif_c09_test.go"], "test": "TestVerifC09",
        "quick": T(16, 150), "thorough": T(16, 600),
        "rule": "BFS: every (connection set, edit) pair executed once through the real ChangeGroupTrigger/StopTriggerCoupling/SetCoupling, followed by "
                "9 data cycles through the real ProcessSegments (every subset of channels firing, and two sources firing on one frame); "
                "DFS: all edit sequences to the depth bound with cycles after every edit; non-trivial = at least one secondary record was emitted",
        "assumptions": ["edits issued directly on the source (RPC queueing is C11)", "a frame fired by m connected sources may appear 1..m times (DESIGN 7.5)"],
    },
    "C12": {
        "pkg": ".", "hdir": "dastard", "harness": DASTARD_COMMON + ["zz_verif_c12_test.go"], "test": "TestVerifC12",
        "quick": T(16, 150), "thorough": T(16, 600),
        "rule": "one execution = one (option set, raw sequence) run unsplit and under every split into calls on the real PhaseUnwrapper; "
                "oracle = integer arithmetic of the property (modulo-quantum, step window, reset timing, split invariance); "
                "non-trivial = the output left the home offset at least once (a wrap was removed)",
        "assumptions": ["bias restricted to |bias| <= quarter quantum (a single +-quantum correction cannot reach the window otherwise)",
                        "reset boundary tolerates resetAfter vs resetAfter+1 (DESIGN 7.6)", "values from a boundary alphabet, not all 2^16"],
    },
    "SELFTEST": {
        "pkg": ".", "hdir": "dastard", "harness": DASTARD_COMMON + ["zz_verif_selftest_test.go"], "test": "TestVerifSelfTest",
        "engines": ["vexp", "vhook"], "runtime_patch": True, "gomaxprocs": 1,
        "quick": T(1, 60), "thorough": T(1, 60),
        "rule": "engine B self-test: closed-form interleaving counts", "assumptions": [],
    },
    "C18": {
        "pkg": "ringbuffer", "hdir": "ringbuffer", "harness": ["zz_verif_c18_test.go"], "test": "TestVerifC18",
        "quick": T(16, 150), "thorough": T(16, 600),
        "rule": "BFS: every (canonical state, op) pair of the ring buffer executed once on the real RingBuffer "
                "(state = read/write positions mod lcm(cap,12) and fill level); DFS: every op sequence to the depth bound, "
                "un-merged. Non-trivial = the execution wrapped around the end of the buffer (BFS) / wrapped and was exactly full (DFS).",
        "assumptions": ["RingBuffer built in-package over Go memory instead of shm (same methods)",
                        "chunk/stride sizes >= 1 (0 divides by zero: out of domain, DESIGN 7.10)",
                        "single goroutine: concurrent reader/writer processes are not modelled"],
    },
}

# Additional per-property entries live in bin/props.d/<id>.py, each defining a dict ENTRY = {"Cxx": {...}}.
import glob as _glob
import os as _os
for _f in sorted(_glob.glob(_os.path.join(_os.path.dirname(_os.path.abspath(__file__)), "props.d", "*.py"))):
    _ns = {"T": T, "DASTARD_COMMON": DASTARD_COMMON}
    exec(compile(open(_f).read(), _f, "exec"), _ns)
    PROPS.update(_ns.get("ENTRY", {}))

# Only these are registered in MANIFEST.json (a props.d entry may exist while its harness is still being written).
REGISTERED = ["C01", "C02", "C03", "C04", "C05", "C06", "C07", "C08", "C09", "C10", "C11", "C12", "C13", "C14", "C15", "C16", "C17", "C18", "C19", "C20"]
