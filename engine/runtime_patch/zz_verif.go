// Added to package runtime by the /verif build overlay (engine B). See /verif/DESIGN.md, Appendix A.
// Gives the controlled scheduler: deterministic select poll order, deterministic map-iteration
// start, a cheap goroutine-status snapshot, the current goroutine id, and atomics that the race
// detector does not see (the runtime package is never race-instrumented).
package runtime

import (
	"internal/runtime/atomic"
)

var verifSelectBias int32 = -1 // >=0: poll case #bias first, the others in ascending order

var verifMapSeed int64 = -1 // >=0: fixed map-iteration start

func verifSelectJ(i, norder uint32) uint32 {
	b := verifSelectBias
	if b < 0 {
		return cheaprandn(norder + 1)
	}
	if i == uint32(b) {
		return 0
	}
	return norder
}

func verifMapRand() uintptr {
	if s := verifMapSeed; s >= 0 {
		return uintptr(s)
	}
	return uintptr(rand())
}

// VerifG is one row of the goroutine snapshot.
type VerifG struct {
	Goid       uint64
	Parent     uint64
	Status     uint32
	WaitReason uint32
}

func VerifSnapshot(out []VerifG) int {
	n := 0
	forEachGRace(func(gp *g) {
		s := readgstatus(gp) &^ _Gscan
		if s == _Gdead || s == _Gidle || isSystemGoroutine(gp, false) {
			return // GC workers etc. are started by whichever goroutine triggers them: not part of any execution
		}
		if n < len(out) {
			out[n] = VerifG{Goid: gp.goid, Parent: gp.parentGoid, Status: s, WaitReason: uint32(gp.waitreason)}
		}
		n++
	})
	return n
}

func VerifGoid() uint64 { return getg().goid }

func VerifLoad32(p *uint32) uint32 { return atomic.Load(p) }

func VerifStore32(p *uint32, v uint32) { atomic.Store(p, v) }

func VerifCas32(p *uint32, old, new uint32) bool { return atomic.Cas(p, old, new) }

func VerifLoad64(p *uint64) uint64 { return atomic.Load64(p) }

func VerifStore64(p *uint64, v uint64) { atomic.Store64(p, v) }

func VerifCas64(p *uint64, old, new uint64) bool { return atomic.Cas64(p, old, new) }

// verifIsBlocking reports whether a wait reason can only be ended by another goroutine
// (channel operations, select, mutexes, wait groups, condition variables).
//
func VerifIsBlocking(r uint32) bool {
	switch waitReason(r) {
	case waitReasonChanReceiveNilChan, waitReasonChanSendNilChan, waitReasonSelect, waitReasonSelectNoCases,
		waitReasonChanReceive, waitReasonChanSend, waitReasonSemacquire, waitReasonSyncCondWait,
		waitReasonSyncMutexLock, waitReasonSyncRWMutexRLock, waitReasonSyncRWMutexLock:
		return true
	}
	return false
}

func VerifReasonString(r uint32) string { return waitReason(r).String() }

// VerifSetSelectBias sets the select poll-order bias (-1 = stock random order).
func VerifSetSelectBias(b int32) { verifSelectBias = b }

// VerifSetMapSeed fixes the start of every map iteration (-1 = stock behaviour).
func VerifSetMapSeed(s int64) { verifMapSeed = s }

var verifAfterWakeFn func()

// VerifAfterWake is called by sync.WaitGroup.Wait right after its semaphore wake-up.
func VerifAfterWake() {
	if f := verifAfterWakeFn; f != nil {
		f()
	}
}

// VerifSetAfterWake installs the hook.
func VerifSetAfterWake(f func()) { verifAfterWakeFn = f }

// VerifChanReady reports whether a send (send=true) or receive on channel ch would proceed without
// blocking right now. ch must be a channel value (any element type, any direction).
func VerifChanReady(ch any, send bool) bool {
	e := efaceOf(&ch)
	c := (*hchan)(e.data)
	if c == nil {
		return false
	}
	lock(&c.lock)
	var r bool
	if send {
		r = c.closed != 0 || c.recvq.first != nil || c.qcount < c.dataqsiz
	} else {
		r = c.closed != 0 || c.sendq.first != nil || c.qcount > 0
	}
	unlock(&c.lock)
	return r
}
