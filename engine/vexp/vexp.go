//go:build verif

// Package vexp is the sequential exhaustive explorer (engine A of /verif/DESIGN.md).
//
// A harness body is a deterministic function of the choices it asks for with X.Choose /
// X.ChooseDev. The Runner enumerates every choice sequence (stateless DFS, optional deviation
// bound) or, for harnesses that supply a canonical state, does a breadth-first search to a
// fixpoint in which every (state, op) transition is executed once on the real code.
//
// The package lives physically in /verif/engine/vexp and is grafted into the module as
// github.com/usnistgov/dastard/internal/vexp by the build overlay; nothing is written to /repo.
package vexp

import (
	"encoding/json"
	"fmt"
	"hash/fnv"
	"os"
	"runtime/debug"
	"sort"
	"strconv"
	"strings"
	"time"
)

// X is the handle one execution uses to ask the environment for decisions.
type X struct {
	prefix  []int
	Choices []int
	Arity   []int
	IsDev   []bool
	Trace   bool     // true when replaying or collecting a sample: Logf output is kept
	Log     []string // observation log (only when Trace)
	Steps   int      // transitions executed (driver steps); harness increments
}

type nondetError struct{ msg string }

func (e nondetError) Error() string { return e.msg }

func (x *X) choose(n int, dev bool) int {
	if n <= 0 {
		panic(nondetError{fmt.Sprintf("Choose(%d): arity must be positive", n)})
	}
	i := len(x.Choices)
	c := 0
	if i < len(x.prefix) {
		c = x.prefix[i]
		if c >= n {
			panic(nondetError{fmt.Sprintf("nondeterministic driver: replayed choice %d at position %d but arity is %d", c, i, n)})
		}
	}
	x.Choices = append(x.Choices, c)
	x.Arity = append(x.Arity, n)
	x.IsDev = append(x.IsDev, dev)
	return c
}

// Choose returns a value in [0,n). All values are enumerated.
func (x *X) Choose(n int) int { return x.choose(n, false) }

// ChooseDev is Choose, except that a non-zero answer counts as one deviation from the default
// environment answer and is subject to the runner's deviation bound.
func (x *X) ChooseDev(n int) int { return x.choose(n, true) }

// Bool is Choose(2)==1.
func (x *X) Bool() bool { return x.Choose(2) == 1 }

// Logf records an observation (kept only in trace mode).
func (x *X) Logf(format string, a ...interface{}) {
	if x.Trace {
		x.Log = append(x.Log, fmt.Sprintf(format, a...))
	}
}

// Result is what one execution reports.
type Result struct {
	Violation  string // "" = property held on this execution
	Class      string // stable class key of the violation (for de-duplication / known findings)
	Nontrivial bool   // the interesting thing happened (rule stated by the harness)
	Outcome    string // canonical observable outcome (distinct outcomes are counted)
	States     []string
	Desc       string // optional description for samples
	Skip       bool   // not an execution of its own (duplicate pruned by the scheduler): not counted
	CutAt      int    // >0: explore alternatives only at the first CutAt positions of this execution (used for executions that ran into the step horizon: their tail is a loop, and timing-dependent)
}

// Violation record written to the worker output.
type Violation struct {
	Case    string   `json:"case"`
	Choices []int    `json:"choices"`
	History []int    `json:"history,omitempty"`
	Class   string   `json:"class"`
	What    string   `json:"what"`
	Log     []string `json:"log,omitempty"`
}

// Sample is one written-out execution.
type Sample struct {
	Case    string   `json:"case"`
	Choices []int    `json:"choices"`
	Outcome string   `json:"outcome,omitempty"`
	Desc    string   `json:"desc,omitempty"`
	Log     []string `json:"log,omitempty"`
}

// Summary is the per-worker output merged by bin/check.
type Summary struct {
	Property        string           `json:"property"`
	Shard           string           `json:"shard"`
	Evaluations     int64            `json:"evaluations"`
	Nontrivial      int64            `json:"nontrivial"`
	Transitions     int64            `json:"transitions"`
	States          int64            `json:"states"`
	Outcomes        int64            `json:"outcomes"`
	Cases           int              `json:"cases"`
	CasesDone       int              `json:"cases_done"`
	MaxDepth        int              `json:"max_depth"`
	CapHit          bool             `json:"cap_hit"`
	CapNote         string           `json:"cap_note,omitempty"`
	Exhaustive      bool             `json:"exhaustive"`
	Bound           string           `json:"bound"`
	Samples         []Sample         `json:"samples"`
	Violations      []Violation      `json:"violations"`
	ViolationCounts map[string]int64 `json:"violation_counts"`
	Notes           []string         `json:"notes,omitempty"`
	Extra           map[string]int64 `json:"extra,omitempty"`
	WallS           float64          `json:"wall_s"`
	Done            bool             `json:"done"`
}

// Runner drives the exploration inside one worker process.
type Runner struct {
	Property string
	Tier     string // quick | thorough
	Seed     int64
	shardI   int
	shardN   int
	caseNo   int

	sum       Summary
	states    map[uint64]struct{}
	outcomes  map[uint64]struct{}
	start     time.Time
	deadline  time.Time
	curFile   *os.File
	replay    *Violation // replay mode
	resume    *resumePoint
	deepest   Sample
	nontrivS  int
	maxPerCls int
	lastCkpt  time.Time
	curLen    int
	prefixDepth int
	prevCase  string
	prevChoices []int
	// CrashTrace makes the runner record the execution about to start (one pwrite per execution) so
	// that a process death in a goroutine the harness cannot recover from is attributed to it.
	CrashTrace bool
}

type resumePoint struct {
	Case    string `json:"case"`
	Choices []int  `json:"choices"`
	Arity   []int  `json:"arity"`
	IsDev   []bool `json:"isdev"`
	// the execution before this one: a panic in a spawned goroutine lets the main goroutine run on
	// for a moment, so the record may already name the successor of the execution that died
	PrevCase    string `json:"prev_case,omitempty"`
	PrevChoices []int  `json:"prev_choices,omitempty"`
}

// NewRunner reads VERIF_* from the environment.
func NewRunner(property string) *Runner {
	r := &Runner{Property: property, shardN: 1, maxPerCls: 3}
	r.Tier = os.Getenv("VERIF_TIER")
	if r.Tier == "" {
		r.Tier = "quick"
	}
	r.Seed, _ = strconv.ParseInt(os.Getenv("VERIF_SEED"), 10, 64)
	if s := os.Getenv("VERIF_SHARD"); s != "" {
		fmt.Sscanf(s, "%d/%d", &r.shardI, &r.shardN)
		if r.shardN <= 0 {
			r.shardN = 1
		}
	}
	r.start = time.Now()
	if s := os.Getenv("VERIF_DEADLINE_S"); s != "" {
		if f, err := strconv.ParseFloat(s, 64); err == nil && f > 0 {
			r.deadline = r.start.Add(time.Duration(f * float64(time.Second)))
		}
	}
	if p := os.Getenv("VERIF_CUR"); p != "" {
		f, err := os.OpenFile(p, os.O_CREATE|os.O_RDWR|os.O_TRUNC, 0644)
		if err == nil {
			r.curFile = f
		}
	}
	if p := os.Getenv("VERIF_REPLAY"); p != "" {
		b, err := os.ReadFile(p)
		if err != nil {
			panic(err)
		}
		var v Violation
		if err := json.Unmarshal(b, &v); err != nil {
			panic(err)
		}
		r.replay = &v
	}
	if p := os.Getenv("VERIF_RESUME"); p != "" {
		b, err := os.ReadFile(p)
		if err == nil {
			var rp resumePoint
			if json.Unmarshal(b, &rp) == nil && rp.Case != "" {
				r.resume = &rp
			}
		}
	}
	r.states = map[uint64]struct{}{}
	r.outcomes = map[uint64]struct{}{}
	r.sum.Property = property
	r.sum.Shard = fmt.Sprintf("%d/%d", r.shardI, r.shardN)
	r.sum.ViolationCounts = map[string]int64{}
	r.sum.Extra = map[string]int64{}
	r.sum.Exhaustive = true
	return r
}

// Thorough reports whether the thorough tier was requested.
func (r *Runner) Thorough() bool { return r.Tier == "thorough" }

// Replaying reports whether this process replays one recorded execution.
func (r *Runner) Replaying() bool { return r.replay != nil }

// SetBound records the human-readable bound this run completes.
func (r *Runner) SetBound(s string) { r.sum.Bound = s }

// Note adds a free-text note to the evidence.
func (r *Runner) Note(s string) { r.sum.Notes = append(r.sum.Notes, s) }

// Count adds to a named extra counter.
func (r *Runner) Count(name string, n int64) { r.sum.Extra[name] += n }

var dumpAll = os.Getenv("VERIF_DUMP") != ""

func h64(s string) uint64 {
	h := fnv.New64a()
	h.Write([]byte(s))
	return h.Sum64()
}

// mine implements round-robin sharding of cases. In replay mode only the recorded case runs;
// in resume mode cases before the resume case (in this shard's order) are skipped.
func (r *Runner) mine(caseID string) bool {
	if r.replay != nil {
		return r.replay.Case == caseID
	}
	if f := os.Getenv("VERIF_CASE_FILTER"); f != "" && !strings.Contains(caseID, f) {
		return false
	}
	n := r.caseNo
	r.caseNo++
	if n%r.shardN != r.shardI {
		return false
	}
	r.sum.Cases++
	if r.resume != nil {
		if r.resume.Case != caseID {
			r.sum.CasesDone++ // done by the worker incarnation that crashed later
			return false
		}
	}
	return true
}

func (r *Runner) expired() bool {
	return !r.deadline.IsZero() && time.Now().After(r.deadline)
}

func (r *Runner) writeCur(caseID string, c []int, a []int, d []bool) {
	if r.curFile == nil || !r.CrashTrace {
		return
	}
	b, _ := json.Marshal(resumePoint{Case: caseID, Choices: c, Arity: a, IsDev: d, PrevCase: r.prevCase, PrevChoices: r.prevChoices})
	r.prevCase, r.prevChoices = caseID, append([]int{}, c...)
	b = append(b, '\n')
	for len(b) < r.curLen { // overwrite the tail of a longer previous record
		b = append(b, ' ')
	}
	r.curLen = len(b)
	r.curFile.WriteAt(b, 0)
}

func (r *Runner) record(caseID string, x *X, res Result, hist []int) {
	if res.Skip {
		r.sum.Extra["pruned_duplicates"]++
		return
	}
	r.sum.Evaluations++
	if dumpAll {
		fmt.Fprintf(os.Stderr, "DUMP %s %v %v %s %s\n", caseID, x.Choices, x.Arity, res.Outcome, res.Class)
	}
	if r.sum.Evaluations&0xfff == 0 && time.Since(r.lastCkpt) > 2*time.Second {
		r.checkpoint()
	}
	r.sum.Transitions += int64(x.Steps)
	if len(x.Choices) > r.sum.MaxDepth {
		r.sum.MaxDepth = len(x.Choices)
		r.deepest = Sample{Case: caseID, Choices: append([]int{}, x.Choices...), Outcome: res.Outcome, Desc: res.Desc}
	}
	if res.Outcome != "" {
		r.outcomes[h64(res.Outcome)] = struct{}{}
	}
	for _, s := range res.States {
		r.states[h64(s)] = struct{}{}
	}
	if res.Nontrivial {
		r.sum.Nontrivial++
		if r.nontrivS < 2 {
			r.nontrivS++
			r.sum.Samples = append(r.sum.Samples, Sample{Case: caseID, Choices: append([]int{}, x.Choices...), Outcome: res.Outcome, Desc: res.Desc})
		}
	} else if len(r.sum.Samples) == 0 {
		r.sum.Samples = append(r.sum.Samples, Sample{Case: caseID, Choices: append([]int{}, x.Choices...), Outcome: res.Outcome, Desc: res.Desc})
	}
	if res.Violation != "" {
		cls := res.Class
		if cls == "" {
			cls = "violation"
		}
		r.sum.ViolationCounts[cls]++
		if r.sum.ViolationCounts[cls] <= int64(r.maxPerCls) {
			r.sum.Violations = append(r.sum.Violations, Violation{Case: caseID, Choices: append([]int{}, x.Choices...),
				History: append([]int{}, hist...), Class: cls, What: res.Violation})
		}
	}
}

// runOne executes body once with the given prefix, converting a panic in the calling goroutine
// into a violation of class "panic:<normalised message>".
func (r *Runner) runOne(prefix []int, trace bool, body func(x *X) Result) (x *X, res Result) {
	x = &X{prefix: prefix, Trace: trace}
	defer func() {
		if e := recover(); e != nil {
			if ne, ok := e.(nondetError); ok {
				fmt.Fprintf(os.Stderr, "VERIF-INFRA nondeterminism: %s (prefix %v, choices so far %v, arities %v)\n", ne.msg, prefix, x.Choices, x.Arity)
				for _, l := range x.Log {
					fmt.Fprintln(os.Stderr, "   | "+l)
				}
				os.Exit(3)
			}
			msg := fmt.Sprint(e)
			res = Result{Violation: "panic: " + msg + "\n" + shortStack(), Class: "panic:" + NormalisePanic(msg) + "@" + panicSite()}
		}
	}()
	res = body(x)
	return
}

// PanicInfo must be called from the deferred function that recovered e: it returns the violation
// class ("panic:<normalised message>@<innermost non-runtime function>") and a text with the stack.
func PanicInfo(e interface{}) (class, text string) {
	msg := fmt.Sprint(e)
	return "panic:" + NormalisePanic(msg) + "@" + panicSite(), "panic: " + msg + "\n" + shortStack()
}

// NormalisePanic strips numbers so that the class does not depend on the failing values.
func NormalisePanic(msg string) string {
	var b strings.Builder
	lastDigit := false
	for _, c := range msg {
		if c >= '0' && c <= '9' {
			if !lastDigit {
				b.WriteByte('N')
			}
			lastDigit = true
			continue
		}
		lastDigit = false
		if c == '\n' {
			break
		}
		b.WriteRune(c)
	}
	s := b.String()
	if len(s) > 100 {
		s = s[:100]
	}
	return s
}

func shortStack() string {
	s := string(debug.Stack())
	lines := strings.Split(s, "\n")
	if len(lines) > 40 {
		lines = lines[:40]
	}
	return strings.Join(lines, "\n")
}

// panicSite returns the innermost non-runtime, non-harness function on the panicking stack.
func panicSite() string {
	lines := strings.Split(string(debug.Stack()), "\n")
	seenPanic := false
	for i := 0; i+1 < len(lines); i++ {
		l := lines[i]
		if strings.HasPrefix(l, "panic(") {
			seenPanic = true
			continue
		}
		if !seenPanic || strings.HasPrefix(l, "\t") || strings.HasPrefix(l, "runtime.") || strings.HasPrefix(l, "goroutine") {
			continue
		}
		if j := strings.LastIndex(l, "("); j > 0 {
			l = l[:j]
		}
		if j := strings.LastIndex(l, "/"); j >= 0 {
			l = l[j+1:]
		}
		return l
	}
	return "?"
}

// DFSSharded is DFS with the case's tree divided among all shards: a subtree is identified by the
// position and value of the first non-zero choice (with deviation bounding the tree is extremely
// unbalanced along fixed-depth prefixes, but well balanced along "where the first deviation happens").
// Every shard walks the spine; foreign subtrees are skipped without being executed.
func (r *Runner) DFSSharded(caseID string, maxDev int, depth int, body func(x *X) Result) {
	r.prefixDepth = 1
	defer func() { r.prefixDepth = 0 }()
	r.DFS(caseID, maxDev, body)
}

// nonzeros returns the positions of the first two non-zero choices (-1 if absent).
func nonzeros(c []int) (int, int) {
	p1, p2 := -1, -1
	for i, v := range c {
		if v != 0 {
			if p1 < 0 {
				p1 = i
			} else {
				p2 = i
				break
			}
		}
	}
	return p1, p2
}

func hmix(h uint64, v int) uint64 {
	h = (h ^ uint64(v+1)) * 1099511628211
	return h ^ (h >> 29)
}

// ownsSubtree: which shard records the execution with choice vector c. Subtrees are identified by
// the first two non-zero choices; skippable reports whether the whole subtree below the second
// non-zero position has this one owner (so a foreign one need not be executed at all).
func (r *Runner) ownsSubtree(c []int) (mine bool, skipAt int) {
	if r.prefixDepth == 0 || r.shardN <= 1 {
		return true, -1
	}
	p1, p2 := nonzeros(c)
	if p1 < 0 {
		return r.shardI == 0, -1
	}
	h := hmix(hmix(14695981039346656037, p1), c[p1])
	if p2 < 0 {
		return int(h%uint64(r.shardN)) == r.shardI, -1
	}
	h = hmix(hmix(h, p2), c[p2])
	return int(h%uint64(r.shardN)) == r.shardI, p2
}

// DFS enumerates all choice sequences of body for one case. maxDev<0 means no deviation bound.
func (r *Runner) DFS(caseID string, maxDev int, body func(x *X) Result) {
	if f := os.Getenv("VERIF_CASE_FILTER"); f != "" && r.replay == nil && !strings.Contains(caseID, f) {
		return
	}
	if r.prefixDepth > 0 && r.replay == nil {
		// every shard takes part
		if r.resume != nil && r.resume.Case != caseID {
			return
		}
		r.sum.Cases++
	} else if !r.mine(caseID) {
		return
	}
	if r.replay != nil {
		x, res := r.runOne(r.replay.Choices, true, body)
		r.printReplay(caseID, x, res)
		return
	}
	var cur []int
	var ar []int
	var dv []bool
	first := true
	evalsBefore := r.sum.Evaluations
	if r.resume != nil {
		cur, ar, dv = r.resume.Choices, r.resume.Arity, r.resume.IsDev
		r.resume = nil
		r.sum.Extra["resumed_after_crash"]++
		first = false
		// treat the crashed execution as finished with no deeper positions
		if len(ar) < len(cur) { // arity unknown: give up on this case
			r.sum.CapHit, r.sum.Exhaustive = true, false
			r.sum.CapNote = "case " + caseID + " abandoned after crash (no arity information)"
			r.sum.CasesDone++
			return
		}
		cur = cur[:len(ar)]
		if os.Getenv("VERIF_RESUME_INCLUSIVE") == "" {
			nxt, ok := step(cur, ar, dv, maxDev)
			if !ok {
				r.sum.CasesDone++
				return
			}
			cur = nxt
		}
	}
	for {
		if r.expired() {
			r.sum.CapHit, r.sum.Exhaustive = true, false
			r.sum.CapNote = fmt.Sprintf("deadline reached inside case %s at choices %v", caseID, cur)
			return
		}
		if first {
			cur = nil
			first = false
		}
		// arity of the prefix positions is known from the previous execution
		r.writeCur(caseID, cur, ar[:min(len(ar), len(cur))], dv[:min(len(dv), len(cur))])
		if mine, p := r.ownsSubtree(cur); !mine && p >= 0 && p < len(ar) {
			// foreign subtree: skip it without executing (arities of the prefix are known)
			nxt, ok := step(cur[:p+1], ar[:p+1], dv[:p+1], maxDev)
			if !ok {
				break
			}
			cur = nxt
			continue
		}
		x, res := r.runOne(cur, false, body)
		ar, dv = x.Arity, x.IsDev
		if mine, _ := r.ownsSubtree(x.Choices); mine {
			r.record(caseID, x, res, nil)
		}
		if res.CutAt > 0 && res.CutAt < len(x.Choices) {
			x.Choices, x.Arity, x.IsDev = x.Choices[:res.CutAt], x.Arity[:res.CutAt], x.IsDev[:res.CutAt]
			ar, dv = x.Arity, x.IsDev
			r.sum.Extra["executions_cut_at_horizon"]++
		}
		nxt, ok := step(x.Choices, x.Arity, x.IsDev, maxDev)
		if !ok {
			break
		}
		cur = nxt
	}
	r.sum.CasesDone++
	r.sum.Extra["evals:"+caseID] += r.sum.Evaluations - evalsBefore
}

func min(a, b int) int {
	if a < b {
		return a
	}
	return b
}

// step is the odometer: the lexicographically next choice vector within the deviation bound.
func step(c, a []int, d []bool, maxDev int) ([]int, bool) {
	devBefore := make([]int, len(c)+1)
	for i := range c {
		devBefore[i+1] = devBefore[i]
		if i < len(d) && d[i] && c[i] != 0 {
			devBefore[i+1]++
		}
	}
	for i := len(c) - 1; i >= 0; i-- {
		if c[i]+1 >= a[i] {
			continue
		}
		if maxDev >= 0 && i < len(d) && d[i] && c[i] == 0 && devBefore[i] >= maxDev {
			continue
		}
		n := append(append([]int{}, c[:i]...), c[i]+1)
		return n, true
	}
	return nil, false
}

// BFSSpec describes a fixpoint search: Run replays history (a list of op indices) on a fresh
// real object, checks the oracle after every step, and returns the canonical state reached.
type BFSSpec struct {
	NumOps   int
	MaxDepth int // 0 = until closure
	Run      func(x *X, history []int) (canon string, res Result)
	OpName   func(op int) string
}

// BFS explores the reachable canonical state graph; every (state, op) pair is executed once.
// It is not sharded: only shard 0 runs it (state graphs here are small).
func (r *Runner) BFS(caseID string, spec BFSSpec) {
	if r.replay != nil {
		if r.replay.Case != caseID {
			return
		}
		x := &X{Trace: true}
		var res Result
		func() {
			defer func() {
				if e := recover(); e != nil {
					res = Result{Violation: "panic: " + fmt.Sprint(e) + "\n" + shortStack(), Class: "panic:" + NormalisePanic(fmt.Sprint(e))}
				}
			}()
			_, res = spec.Run(x, r.replay.History)
		}()
		r.printReplay(caseID, x, res)
		return
	}
	if !r.mine(caseID) {
		return
	}
	type node struct{ hist []int }
	seen := map[string]bool{}
	runHist := func(h []int) (canon string, x *X, res Result) {
		x = &X{}
		defer func() {
			if e := recover(); e != nil {
				if ne, ok := e.(nondetError); ok {
					fmt.Fprintf(os.Stderr, "VERIF-INFRA nondeterminism: %s\n", ne.msg)
					os.Exit(3)
				}
				msg := fmt.Sprint(e)
				res = Result{Violation: "panic: " + msg + "\n" + shortStack(), Class: "panic:" + NormalisePanic(msg) + "@" + panicSite()}
				canon = ""
			}
		}()
		canon, res = spec.Run(x, h)
		return
	}
	c0, x0, res0 := runHist(nil)
	r.record(caseID, x0, res0, nil)
	seen[c0] = true
	r.states[h64(caseID+"|"+c0)] = struct{}{}
	frontier := []node{{nil}}
	depth := 0
	closed := true
	for len(frontier) > 0 {
		if spec.MaxDepth > 0 && depth >= spec.MaxDepth {
			closed = false
			break
		}
		var next []node
		for _, nd := range frontier {
			for op := 0; op < spec.NumOps; op++ {
				if r.expired() {
					r.sum.CapHit, r.sum.Exhaustive = true, false
					r.sum.CapNote = fmt.Sprintf("deadline reached in BFS %s at depth %d", caseID, depth)
					return
				}
				h := append(append([]int{}, nd.hist...), op)
				r.writeCur(caseID, h, nil, nil)
				c, x, res := runHist(h)
				x.Steps = 1
				x.Choices = h
				r.record(caseID, x, res, h)
				if res.Violation != "" || c == "" {
					continue
				}
				if !seen[c] {
					seen[c] = true
					r.states[h64(caseID+"|"+c)] = struct{}{}
					next = append(next, node{h})
				}
			}
		}
		frontier = next
		depth++
	}
	if !closed {
		r.sum.CapHit, r.sum.Exhaustive = true, false
		r.sum.CapNote = fmt.Sprintf("BFS %s stopped at depth cap %d before closure", caseID, spec.MaxDepth)
	} else {
		r.sum.Notes = append(r.sum.Notes, fmt.Sprintf("BFS %s closed: %d canonical states, depth %d", caseID, len(seen), depth))
	}
	r.sum.CasesDone++
}

func (r *Runner) printReplay(caseID string, x *X, res Result) {
	fmt.Printf("REPLAY case=%s choices=%v\n", caseID, x.Choices)
	for _, l := range x.Log {
		fmt.Println("  | " + l)
	}
	fmt.Printf("REPLAY outcome=%s\n", res.Outcome)
	if res.Violation != "" {
		fmt.Printf("REPLAY-VIOLATION class=%s\n%s\n", res.Class, res.Violation)
	} else {
		fmt.Println("REPLAY-OK")
	}
	r.sum.Evaluations++
}

// checkpoint writes a partial summary so that a worker that later dies still contributes counts.
func (r *Runner) checkpoint() {
	r.lastCkpt = time.Now()
	p := os.Getenv("VERIF_OUT")
	if p == "" {
		return
	}
	s := r.sum
	s.States = int64(len(r.states))
	s.Outcomes = int64(len(r.outcomes))
	s.WallS = time.Since(r.start).Seconds()
	s.Done = false
	b, _ := json.Marshal(s)
	os.WriteFile(p+".partial", append(b, '\n'), 0644)
}

// Finish writes the worker summary to VERIF_OUT (or stdout).
func (r *Runner) Finish() {
	if r.replay != nil {
		if r.sum.Evaluations == 0 {
			fmt.Println("REPLAY-NOTFOUND case", r.replay.Case)
			os.Exit(4)
		}
		return
	}
	r.sum.States = int64(len(r.states))
	r.sum.Outcomes = int64(len(r.outcomes))
	if r.deepest.Case != "" {
		r.sum.Samples = append(r.sum.Samples, r.deepest)
	}
	sort.Slice(r.sum.Violations, func(i, j int) bool {
		a, b := r.sum.Violations[i], r.sum.Violations[j]
		if a.Class != b.Class {
			return a.Class < b.Class
		}
		return len(a.Choices) < len(b.Choices)
	})
	r.sum.WallS = time.Since(r.start).Seconds()
	r.sum.Done = true
	b, _ := json.Marshal(r.sum)
	if p := os.Getenv("VERIF_OUT"); p != "" {
		os.WriteFile(p, append(b, '\n'), 0644)
	} else {
		fmt.Println(string(b))
	}
}
