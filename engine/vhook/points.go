//go:build verif

package vhook

import (
	"encoding/json"
	"fmt"
	"os"
)

func loadPoints() {
	p := os.Getenv("VERIF_POINTS")
	if p == "" {
		return
	}
	b, err := os.ReadFile(p)
	if err != nil {
		return
	}
	var pts []struct {
		ID    uint32 `json:"id"`
		File  string `json:"file"`
		Line  int    `json:"line"`
		Func  string `json:"func"`
		Kind  string `json:"kind"`
	}
	if json.Unmarshal(b, &pts) != nil {
		return
	}
	for _, q := range pts {
		pointDocs[q.ID] = fmt.Sprintf("%s:%d(%s %s)", q.File, q.Line, q.Func, q.Kind)
	}
}

// AllPoints returns the ids of all instrumented points of the given kind.
func AllPoints(kind string) []uint32 {
	p := os.Getenv("VERIF_POINTS")
	b, err := os.ReadFile(p)
	if err != nil {
		return nil
	}
	var pts []struct {
		ID   uint32 `json:"id"`
		Kind string `json:"kind"`
	}
	json.Unmarshal(b, &pts)
	var out []uint32
	for _, q := range pts {
		if q.Kind == kind {
			out = append(out, q.ID)
		}
	}
	return out
}
