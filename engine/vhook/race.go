//go:build verif

package vhook

import (
	"fmt"
	"os"
	"path/filepath"
	"regexp"
	"sort"
	"strings"
)

// RaceReport is one report of the Go race detector, reduced to the top frames of the two accesses.
type RaceReport struct {
	Class string // "race:<func@file:line>|<func@file:line>" (sorted)
	Text  string
	Repo  bool // both accesses are in repository code (not harness / engine code)
}

var raceOff = map[string]int64{}

var frameRe = regexp.MustCompile(`(?m)^  (\S+)\(.*\)\n\s+(\S+):(\d+)`)

// NewRaceReports returns the reports written (to GORACE log_path) since the previous call.
func NewRaceReports() []RaceReport {
	lp := ""
	for _, f := range strings.Fields(os.Getenv("GORACE")) {
		if strings.HasPrefix(f, "log_path=") {
			lp = strings.TrimPrefix(f, "log_path=")
		}
	}
	if lp == "" {
		return nil
	}
	files, _ := filepath.Glob(lp + ".*")
	var out []RaceReport
	for _, fn := range files {
		if !strings.HasSuffix(fn, fmt.Sprintf(".%d", os.Getpid())) {
			continue
		}
		b, err := os.ReadFile(fn)
		if err != nil {
			continue
		}
		off := raceOff[fn]
		if int64(len(b)) <= off {
			continue
		}
		txt := string(b[off:])
		// only complete reports
		end := strings.LastIndex(txt, "==================\n")
		if end < 0 {
			continue
		}
		end += len("==================\n")
		raceOff[fn] = off + int64(end)
		for _, rep := range strings.Split(txt[:end], "WARNING: DATA RACE") {
			if !strings.Contains(rep, " by goroutine ") && !strings.Contains(rep, " by main goroutine") {
				continue
			}
			out = append(out, parseRace(rep))
		}
	}
	return out
}

func parseRace(rep string) RaceReport {
	// the report has two access sections ("Write at ... by goroutine N:" / "Previous read at ... by goroutine M:")
	// followed by goroutine-creation sections; take the first frame of each of the first two sections
	secs := regexp.MustCompile(`(?m)^(?:Previous )?(?:[Rr]ead|[Ww]rite|[Aa]tomic [a-z]+) at 0x[0-9a-f]+ by .*:$`).FindAllStringIndex(rep, -1)
	var tops []string
	repo := true
	for i, s := range secs {
		if i >= 2 {
			break
		}
		e := len(rep)
		if i+1 < len(secs) {
			e = secs[i+1][0]
		}
		body := rep[s[1]:e]
		if j := strings.Index(body, "\n\n"); j >= 0 {
			body = body[:j+1]
		}
		m := frameRe.FindStringSubmatch(body)
		if m == nil {
			tops = append(tops, "?")
			continue
		}
		fn := m[1]
		if k := strings.LastIndex(fn, "/"); k >= 0 {
			fn = fn[k+1:]
		}
		file := m[2]
		if strings.Contains(file, "zz_verif_") || strings.Contains(file, "/internal/vhook/") || strings.Contains(file, "/internal/vexp/") || strings.Contains(file, "/verif/") {
			repo = false
		}
		tops = append(tops, fmt.Sprintf("%s@%s:%s", fn, filepath.Base(file), m[3]))
	}
	sort.Strings(tops)
	return RaceReport{Class: "race:" + strings.Join(tops, "|"), Text: "WARNING: DATA RACE" + rep, Repo: repo && len(tops) == 2}
}
