//go:build verif

// Package vhook is engine B of /verif/DESIGN.md: a controlled scheduler for real goroutines.
//
// Instrumented code calls P / PS before every synchronisation operation (inserted by
// tools/vinstrument at check time) and C at the start of every select clause. While an execution
// is being scheduled, a goroutine calling P parks until the scheduler grants it one step; the
// scheduler decides enabledness by looking at the runtime's own goroutine status (a goroutine
// blocked inside a real channel or mutex operation is seen blocked), so no shadow model of the
// synchronisation state exists that could drift from the code.
//
// The hand-off uses plain memory and the runtime's uninstrumented atomics inside //go:norace
// functions: it adds no happens-before edges, so a race-detector build judges every explored
// interleaving by the program's own synchronisation only.
package vhook

import (
	"fmt"
	"os"
	"runtime"
	"sort"
	"strings"
	"sync"
	"time"

	"github.com/usnistgov/dastard/internal/vexp"
)

type rtG = runtime.VerifG

var (
	rtSnapshot     = runtime.VerifSnapshot
	rtIsBlocking   = runtime.VerifIsBlocking
	rtReasonString = runtime.VerifReasonString
)

//go:norace
func rtGoid() uint64 { return runtime.VerifGoid() }

//go:norace
func rtLoad32(p *uint32) uint32 { return runtime.VerifLoad32(p) }

//go:norace
func rtStore32(p *uint32, v uint32) { runtime.VerifStore32(p, v) }

//go:norace
func rtCas32(p *uint32, old, new uint32) bool { return runtime.VerifCas32(p, old, new) }

//go:norace
func rtLoad64(p *uint64) uint64 { return runtime.VerifLoad64(p) }

//go:norace
func rtStore64(p *uint64, v uint64) { runtime.VerifStore64(p, v) }

//go:norace
func rtCas64(p *uint64, old, new uint64) bool { return runtime.VerifCas64(p, old, new) }

const PointAfterWake = 99 // a goroutine woken inside WaitGroup.Wait, before it re-checks the counter

func init() {
	runtime.VerifSetAfterWake(func() { park(PointAfterWake, 0) })
}

// SetMapSeed fixes the start of every map iteration (-1 = stock behaviour).
func SetMapSeed(s int64) { runtime.VerifSetMapSeed(s) }

// goroutine status values (runtime2.go)
const (
	gRunnable = 1
	gRunning  = 2
	gSyscall  = 3
	gWaiting  = 4
)

const (
	stFree    = 0
	stRunning = 1
	stParked  = 2
	stGranted = 3
	stDone    = 4
)

const maxSlots = 256

type slot struct {
	goid     uint64
	state    uint32
	point    uint32
	ncases   uint32
	lastCase uint32 // 1+clause index of the last select clause entered, 0 = none
	crashAt  uint32
	chans    []interface{} // PSC: the select's channels in source order (nil for PS)
	sends    []bool
	hasDef   bool
}

var (
	active  uint32 // 1 while an execution is under the scheduler's control
	nslots  uint32
	slots   [maxSlots]slot
	schedGoid uint64
	crashID uint32 // K(id) panics when id == crashID (engine C)
	nPoints uint64 // K points passed (for enumeration)
)

//go:norace
func findSlot(g uint64) *slot {
	n := rtLoad32(&nslots)
	for i := uint32(0); i < n; i++ {
		if rtLoad64(&slots[i].goid) == g {
			return &slots[i]
		}
	}
	return nil
}

//go:norace
func claimSlot(g uint64) *slot {
	for {
		n := rtLoad32(&nslots)
		if n >= maxSlots {
			panic("VERIF-INFRA vhook: out of goroutine slots")
		}
		if rtCas32(&nslots, n, n+1) {
			s := &slots[n]
			rtStore32(&s.state, stRunning)
			rtStore32(&s.lastCase, 0)
			rtStore64(&s.goid, g)
			return s
		}
	}
}

// P is a scheduling point before a synchronisation operation.
//
//go:norace
func P(id uint32) { park(id, 0) }

// PS is the scheduling point before a select statement with ncases communication clauses.
//
//go:norace
func PS(id uint32, ncases uint32) { park(id, ncases) }

// PSC is PS for a select whose channels are plain variables or fields: the scheduler can ask the
// runtime which cases are ready and only branches over those.
//
//go:norace
func PSC(id uint32, chans []interface{}, sends []bool, hasDefault bool) {
	if rtLoad32(&active) == 0 {
		return
	}
	g := rtGoid()
	if g == rtLoad64(&schedGoid) || isBanned(g) {
		return
	}
	s := findSlot(g)
	if s == nil {
		s = claimSlot(g)
	}
	s.chans, s.sends, s.hasDef = chans, sends, hasDefault
	park(id, uint32(len(chans)))
	s.chans, s.sends = nil, nil
}

// readyCases returns the runtime case indices (sends first, then receives, each in source order: the
// order selectgo numbers them) of the cases that are ready now, or nil if the select is not inspectable.
//
//go:norace
func readyCases(s *slot) (idx []int, ok bool) {
	if s.chans == nil {
		return nil, false
	}
	// cmd/compile (walk/select.go) numbers the send cases 0,1,.. in source order and the receive cases
	// from the end backwards: the first receive in the source is case ncas-1, the second ncas-2, ...
	ncas := len(s.chans)
	si, ri := 0, 0
	for i, ch := range s.chans {
		var rt int
		if s.sends[i] {
			rt = si
			si++
		} else {
			ri++
			rt = ncas - ri
		}
		if runtime.VerifChanReady(ch, s.sends[i]) {
			idx = append(idx, rt)
		}
	}
	sort.Ints(idx)
	return idx, true
}

// wouldBlock: the thread is parked before an inspectable select without default, no case is ready, and
// no other thread parked before an inspectable select offers the complementary operation on one of its
// channels (two such threads would rendezvous once one of them is let into its select): granting it would
// only move it from "parked" to "blocked in select", so it is not offered as a choice.
//
//go:norace
func wouldBlock(s *slot) bool {
	if s.chans == nil || s.hasDef {
		return false
	}
	if r, _ := readyCases(s); len(r) > 0 {
		return false
	}
	n := rtLoad32(&nslots)
	for i := uint32(0); i < n; i++ {
		o := &slots[i]
		if o == s || o.chans == nil || rtLoad32(&o.state) != stParked {
			continue
		}
		for a, ca := range s.chans {
			for b, cb := range o.chans {
				if ca == cb && s.sends[a] != o.sends[b] {
					return false
				}
			}
		}
	}
	return true
}

// C records which select clause was entered.
//
//go:norace
func C(idx uint32) {
	if rtLoad32(&active) == 0 {
		return
	}
	if s := findSlot(rtGoid()); s != nil {
		rtStore32(&s.lastCase, idx+1)
	}
}

//go:norace
func park(id uint32, ncases uint32) {
	if rtLoad32(&active) == 0 {
		return
	}
	g := rtGoid()
	if g == rtLoad64(&schedGoid) || isBanned(g) {
		return // the scheduler's own goroutine (harness oracle code) and left-over goroutines never park
	}
	s := findSlot(g)
	if s == nil {
		s = claimSlot(g)
	}
	rtStore32(&s.point, id)
	rtStore32(&s.ncases, ncases)
	rtStore32(&s.state, stParked)
	for rtLoad32(&s.state) != stGranted {
		if rtLoad32(&active) == 0 {
			break
		}
		runtime.Gosched()
	}
	rtStore32(&s.state, stRunning)
}

// goroutines left over from earlier executions never park again
var banned [8192]uint64
var nbanned uint32

//go:norace
func isBanned(g uint64) bool {
	n := rtLoad32(&nbanned)
	for i := uint32(0); i < n && i < 8192; i++ {
		if rtLoad64(&banned[i]) == g {
			return true
		}
	}
	return false
}

// ---------------------------------------------------------------------------------------------

// Options of one scheduled execution.
type Options struct {
	MaxSteps int // horizon (default 400)
	// DelayBound: every departure from the canonical choice (continue the running thread, else the
	// lowest logical id) costs one deviation, also when the running thread has blocked or finished
	// (delay-bounded scheduling). Without it only preemptions of a runnable thread cost (CHESS).
	DelayBound bool
	Names    []string
	PointDoc func(id uint32) string
}

// Step is one trace entry.
type Step struct {
	Thread int
	Point  uint32
	Bias   int
	Case   int
}

// Outcome of a scheduled execution.
type Outcome struct {
	Deadlock   bool
	Horizon    bool
	Pruned     bool // duplicate of a sibling execution (same select clause under another bias)
	Steps      int
	Trace      []Step
	Blocked    []string // description of threads blocked at the end (deadlock report)
	Preempt    int
	Contended  bool // some step found its thread blocked in the operation (real contention)
	Survivors  []string
	PanicClass string // a driver thread panicked (recovered): class and text
	PanicText  string
}

type thr struct {
	lid    int
	goid   uint64
	slot   *slot
	parent uint64
	name   string
	done   bool
}

// Sched is one execution under the controlled scheduler.
type Sched struct {
	x       *vexp.X
	opt     Options
	world   map[uint64]bool
	thrs    map[uint64]*thr
	order   []*thr
	drivers []*thr
	last    *thr
	buf     []rtG
	nextLid int
	byLid   []*thr
	out     Outcome
	started time.Time
	allDone sync.WaitGroup
}

// WaitDrivers blocks until every driver has returned (only meaningful after Release when the scheduled
// phase ended early). It gives the caller a real happens-before edge from the drivers' last actions.
func (s *Sched) WaitDrivers() { s.allDone.Wait() }

var selOwner = map[string][]int8{}

// timing statistics (diagnostics only)
var StatRun, StatRelease, StatGrace time.Duration
var StatNoEnabledSleeps, StatReleaseIters int


// Run executes the drivers as concurrent threads under the scheduler; every scheduling decision is
// an x.Choose. It returns when every driver has returned, or on deadlock / horizon.
func Run(x *vexp.X, opt Options, drivers ...func()) *Sched {
	if runtime.GOMAXPROCS(0) != 1 {
		panic("VERIF-INFRA vhook.Run requires GOMAXPROCS=1 (deterministic goroutine ids)")
	}
	if opt.MaxSteps == 0 {
		opt.MaxSteps = 400
	}
	s := &Sched{x: x, opt: opt, world: map[uint64]bool{}, thrs: map[uint64]*thr{}, buf: make([]rtG, 512), started: time.Now()}
	// reset the slot table
	n := rtLoad32(&nslots)
	for i := uint32(0); i < n; i++ {
		rtStore64(&slots[i].goid, 0)
		rtStore32(&slots[i].state, stFree)
	}
	rtStore32(&nslots, 0)
	runtime.VerifSetSelectBias(-1)
	rtStore64(&schedGoid, rtGoid())
	rtStore32(&active, 1)
	started := make(chan uint64, len(drivers))
	s.allDone.Add(len(drivers))
	for i, d := range drivers {
		i, d := i, d
		go func() {
			g := rtGoid()
			sl := claimSlot(g)
			started <- g
			park(uint32(i), 0) // initial point: the scheduler decides who starts
			defer func() {
				if os.Getenv("VERIF_NO_RECOVER") != "" {
					rtStore32(&sl.state, stDone)
					return
				}
				if e := recover(); e != nil {
					c, t := vexp.PanicInfo(e)
					if s.out.PanicClass == "" {
						s.out.PanicClass, s.out.PanicText = c, t
					}
				}
				rtStore32(&sl.state, stDone)
				s.allDone.Done() // a real happens-before edge from each driver's end to WaitDrivers (race builds)
			}()
			d()
		}()
		g := <-started
		t := &thr{lid: i, goid: g, name: fmt.Sprintf("T%d", i)}
		if i < len(opt.Names) {
			t.name = opt.Names[i]
		}
		s.world[g] = true
		s.thrs[g] = t
		s.order = append(s.order, t)
		s.drivers = append(s.drivers, t)
		s.byLid = append(s.byLid, t)
	}
	s.nextLid = len(drivers)
	t0 := time.Now()
	s.loop()
	StatRun += time.Since(t0)
	return s
}

func (s *Sched) infra(msg string) {
	fmt.Fprintf(os.Stderr, "VERIF-INFRA vhook: %s\n%s\n", msg, s.describe())
	os.Exit(3)
}

func (s *Sched) describe() string {
	var sb strings.Builder
	n := rtSnapshot(s.buf)
	if n > len(s.buf) {
		n = len(s.buf)
	}
	for _, g := range s.buf[:n] {
		if s.world[g.Goid] {
			t := s.thrs[g.Goid]
			name, st, pt := "?", uint32(99), uint32(0)
			if t != nil {
				name = t.name
				if t.slot != nil {
					st, pt = rtLoad32(&t.slot.state), rtLoad32(&t.slot.point)
				}
			}
			fmt.Fprintf(&sb, "  goroutine %d (%s) status=%d waitreason=%d slotstate=%d point=%d\n", g.Goid, name, g.Status, g.WaitReason, st, pt)
		}
	}
	return sb.String()
}

// settle waits until every world goroutine is parked at a point, blocked in an operation only another
// goroutine can complete, finished, or dead. It returns the blocked goroutines.
func (s *Sched) settle() (blocked []*thr) {
	deadline := time.Now().Add(20 * time.Second)
	for iter := 0; ; iter++ {
		runtime.Gosched()
		n := rtSnapshot(s.buf)
		if n > len(s.buf) {
			s.buf = make([]rtG, 2*n)
			continue
		}
		snap := s.buf[:n]
		// grow the world: children of world goroutines
		var fresh []rtG
		for _, g := range snap {
			if !s.world[g.Goid] && s.world[g.Parent] && g.Parent != 0 {
				fresh = append(fresh, g)
			}
		}
		if len(fresh) > 0 {
			for _, g := range fresh {
				// no logical id yet: short-lived helpers (e.g. per-channel workers) may or may not be
				// observed, so ids are given only to goroutines that reach a scheduling point
				t := &thr{lid: -1, goid: g.Goid, parent: g.Parent, name: "helper"}
				s.world[g.Goid] = true
				s.thrs[g.Goid] = t
				s.order = append(s.order, t)
			}
			continue // look again: a fresh goroutine may have children of its own
		}
		alive := map[uint64]rtG{}
		for _, g := range snap {
			alive[g.Goid] = g
		}
		quiet := true
		blocked = blocked[:0]
		for _, t := range s.order {
			if t.done {
				continue
			}
			if t.slot == nil {
				t.slot = findSlot(t.goid)
			}
			g, isAlive := alive[t.goid]
			if !isAlive {
				t.done = true
				continue
			}
			if t.slot != nil {
				st := rtLoad32(&t.slot.state)
				if st == stParked {
					continue
				}
				if st == stDone {
					continue // driver returned; its goroutine is about to exit
				}
				if st == stGranted {
					quiet = false
					break
				}
			}
			if g.Status == gWaiting {
				if rtIsBlocking(g.WaitReason) {
					blocked = append(blocked, t)
					continue
				}
			}
			quiet = false
			break
		}
		if quiet {
			// goroutines that have reached their first scheduling point get the next logical ids,
			// in creation order (goroutine ids are sequential under GOMAXPROCS=1)
			var newly []*thr
			for _, t := range s.order {
				if !t.done && t.lid < 0 && t.slot != nil {
					newly = append(newly, t)
				}
			}
			sort.Slice(newly, func(i, j int) bool { return newly[i].goid < newly[j].goid })
			for _, t := range newly {
				t.lid = s.nextLid
				s.nextLid++
				t.name = fmt.Sprintf("g%d", t.lid)
				if p := s.thrs[t.parent]; p != nil && p.lid >= 0 {
					t.name = fmt.Sprintf("g%d<%s", t.lid, p.name)
				}
				s.byLid = append(s.byLid, t)
			}
			return blocked
		}
		if iter%64 == 63 {
			time.Sleep(50 * time.Microsecond) // something is in a syscall or sleeping
			if time.Now().After(deadline) {
				s.infra("execution did not become quiescent within 20 s (a goroutine keeps running between scheduling points)")
			}
		}
	}
}

func (s *Sched) driversDone() bool {
	for _, t := range s.drivers {
		if t.done {
			continue
		}
		if t.slot == nil {
			t.slot = findSlot(t.goid)
		}
		if t.slot == nil || rtLoad32(&t.slot.state) != stDone {
			return false
		}
	}
	return true
}

func (s *Sched) loop() {
	blocked := s.settle()
	for {
		if s.driversDone() {
			return
		}
		var enabled []*thr
		for _, t := range s.order {
			if !t.done && t.slot != nil && rtLoad32(&t.slot.state) == stParked && !wouldBlock(t.slot) {
				enabled = append(enabled, t)
			}
		}
		if len(enabled) == 0 {
			// nothing can be granted: is anything still able to move on its own (timers)? give real time a chance
			time.Sleep(2 * time.Millisecond)
			StatNoEnabledSleeps++
			blocked = s.settle()
			for _, t := range s.order {
				if !t.done && t.slot != nil && rtLoad32(&t.slot.state) == stParked && !wouldBlock(t.slot) {
					enabled = append(enabled, t)
				}
			}
			if len(enabled) == 0 {
				if s.driversDone() {
					return
				}
				s.out.Deadlock = true
				for _, t := range s.order {
					if !t.done && t.slot != nil && rtLoad32(&t.slot.state) == stParked {
						s.out.Blocked = append(s.out.Blocked, fmt.Sprintf("%s waits at %s with no case ready", t.name, s.pointDoc(rtLoad32(&t.slot.point))))
					}
				}
				for _, t := range blocked {
					pt := uint32(0)
					if t.slot != nil {
						pt = rtLoad32(&t.slot.point)
					}
					s.out.Blocked = append(s.out.Blocked, fmt.Sprintf("%s blocked after point %s", t.name, s.pointDoc(pt)))
				}
				return
			}
		}
		if s.out.Steps >= s.opt.MaxSteps {
			s.out.Horizon = true
			return
		}
		// canonical order: the thread that ran last first (if still enabled), then ascending logical id
		sort.SliceStable(enabled, func(i, j int) bool {
			if (enabled[i] == s.last) != (enabled[j] == s.last) {
				return enabled[i] == s.last
			}
			return enabled[i].lid < enabled[j].lid
		})
		var c int
		if (len(enabled) > 0 && enabled[0] == s.last) || s.opt.DelayBound {
			c = s.x.ChooseDev(len(enabled)) // switching away from a runnable thread is a preemption
			if c != 0 {
				s.out.Preempt++
			}
		} else {
			c = s.x.Choose(len(enabled))
		}
		t := enabled[c]
		bias := -1
		nc := int(rtLoad32(&t.slot.ncases))
		var key string
		if ready, ok := readyCases(t.slot); ok {
			// inspectable select: branch over the ready cases only (no duplicates to prune)
			nc = 0
			if len(ready) > 1 {
				if s.opt.DelayBound {
					bias = ready[s.x.ChooseDev(len(ready))] // a non-default select alternative is a deviation, too
				} else {
					bias = ready[s.x.Choose(len(ready))]
				}
			} else if len(ready) == 1 {
				bias = ready[0]
			}
		} else if nc > 1 {
			key = fmt.Sprint(s.x.Choices)
			bias = s.x.Choose(nc)
		}
		runtime.VerifSetSelectBias(int32(bias))
		rtStore32(&t.slot.lastCase, 0)
		pt := rtLoad32(&t.slot.point)
		rtStore32(&t.slot.state, stGranted)
		blocked = s.settle()
		runtime.VerifSetSelectBias(-1)
		s.last = t
		s.out.Steps++
		s.x.Steps++
		cs := int(rtLoad32(&t.slot.lastCase)) - 1
		for _, b := range blocked {
			if b == t {
				s.out.Contended = true
				cs = -2 // blocked inside the operation
			}
		}
		s.out.Trace = append(s.out.Trace, Step{t.lid, pt, bias, cs})
		if s.x.Trace {
			s.x.Logf("step %d: %s runs from %s%s", s.out.Steps, t.name, s.pointDoc(pt), biasDoc(bias, cs))
		}
		if nc > 1 {
			// the same clause under another (smaller) bias is the same execution: prune the duplicate.
			// The owner of a clause is the smallest bias that produced it; executions of the owner itself
			// (deeper alternatives below it) must of course not be pruned.
			if len(selOwner) > 200000 {
				selOwner = map[string][]int8{}
			}
			ow := selOwner[key]
			if ow == nil {
				ow = make([]int8, nc+3)
				for i := range ow {
					ow[i] = -1
				}
				selOwner[key] = ow
			}
			ci := cs + 2
			if ci >= 0 && ci < len(ow) {
				if ow[ci] < 0 || int(ow[ci]) > bias {
					ow[ci] = int8(bias)
				} else if int(ow[ci]) < bias {
					s.out.Pruned = true
					return
				}
			}
		}
	}
}

func biasDoc(bias, cs int) string {
	if bias < 0 {
		return ""
	}
	switch cs {
	case -2:
		return fmt.Sprintf(" [select bias %d -> blocks]", bias)
	case -1:
		return fmt.Sprintf(" [select bias %d]", bias)
	}
	return fmt.Sprintf(" [select bias %d -> clause %d]", bias, cs)
}

// Doc registers a description for a hand-placed point (harness code uses ids 100..999).
func Doc(id uint32, text string) {
	if pointDocs == nil {
		pointDocs = map[uint32]string{}
		loadPoints()
	}
	pointDocs[id] = text
}

func (s *Sched) pointDoc(id uint32) string {
	if id == PointAfterWake {
		return "woken-inside-WaitGroup.Wait"
	}
	if id < 100 {
		return fmt.Sprintf("start(%d)", id)
	}
	if s.opt.PointDoc != nil {
		return s.opt.PointDoc(id)
	}
	return PointDoc(id)
}

// Outcome returns the verdict of the scheduled part.
func (s *Sched) Outcome() *Outcome { return &s.out }

// Release ends the controlled phase: every parked goroutine continues freely. It then waits until
// every goroutine of this execution's world has exited, and reports the ones that have not.
// Goroutines that stay blocked forever are banned from parking in later executions.
func (s *Sched) Release(wait time.Duration) []string {
	t0 := time.Now()
	defer func() { StatRelease += time.Since(t0) }()
	rtStore32(&active, 0)
	deadline := time.Now().Add(wait)
	hard := time.Now().Add(5 * wait) // goroutines that are still runnable get longer: on a loaded machine they may simply not have had their turn
	var survivors []string
	blockedRounds := 0
	for {
		runtime.Gosched()
		n := rtSnapshot(s.buf)
		if n > len(s.buf) {
			s.buf = make([]rtG, 2*n)
			continue
		}
		survivors = survivors[:0]
		running := false
		for _, g := range s.buf[:n] {
			if !s.world[g.Goid] && !(s.world[g.Parent] && g.Parent != 0) {
				continue
			}
			s.world[g.Goid] = true
			name := fmt.Sprintf("goroutine %d", g.Goid)
			if t := s.thrs[g.Goid]; t != nil {
				name = t.name
				if t.slot != nil {
					name += " last point " + s.pointDoc(rtLoad32(&t.slot.point))
				}
			}
			why := "running"
			if g.Status == gWaiting {
				why = "blocked in " + rtReasonString(g.WaitReason)
				if !rtIsBlocking(g.WaitReason) {
					running = true
				}
			} else {
				running = true
			}
			survivors = append(survivors, name+": "+why)
		}
		if len(survivors) == 0 {
			break
		}
		if time.Now().After(deadline) {
			if running && time.Now().Before(hard) {
				time.Sleep(200 * time.Microsecond)
				continue
			}
			if running {
				fmt.Fprintf(os.Stderr, "VERIF-POISON goroutines of a finished execution keep running: %v\n", survivors)
				os.Exit(5)
			}
			for _, g := range s.buf[:n] {
				if s.world[g.Goid] {
					k := rtLoad32(&nbanned)
					if k < 8192 {
						rtStore64(&banned[k], g.Goid)
						rtStore32(&nbanned, k+1)
					} else {
						fmt.Fprintf(os.Stderr, "VERIF-POISON too many leaked goroutines\n")
						os.Exit(5)
					}
				}
			}
			break
		}
		if !running {
			// everything left is blocked: re-check a few times (another goroutine outside this world, e.g.
			// a channel drainer, might still release it), then give up on them
			blockedRounds++
			if blockedRounds > 200 && time.Until(deadline) > 0 {
				deadline = time.Now()
			}
		} else {
			blockedRounds = 0
		}
		StatReleaseIters++
		if StatReleaseIters%256 == 255 {
			time.Sleep(100 * time.Microsecond) // let a goroutine that is in a system call finish
		}
	}
	s.out.Survivors = append([]string{}, survivors...)
	return s.out.Survivors
}

// TraceString renders the schedule for reports.
func (s *Sched) TraceString() string {
	var sb strings.Builder
	for i, st := range s.out.Trace {
		name := fmt.Sprintf("t%d", st.Thread)
		if st.Thread >= 0 && st.Thread < len(s.byLid) {
			name = s.byLid[st.Thread].name
		}
		fmt.Fprintf(&sb, "%d:%s@%s%s ", i+1, name, s.pointDoc(st.Point), biasDoc(st.Bias, st.Case))
	}
	return sb.String()
}

var pointDocs map[uint32]string

// PointDoc describes an instrumented point (file:line function kind), from points.json.
func PointDoc(id uint32) string {
	if pointDocs == nil {
		pointDocs = map[uint32]string{}
		loadPoints()
	}
	if d, ok := pointDocs[id]; ok {
		return d
	}
	return fmt.Sprintf("#%d", id)
}

// K is a crash point (engine C): it panics with CrashSentinel when armed for this id.
func K(id uint32) {
	nPoints++
	if crashID != 0 && id == crashID {
		crashID = 0
		panic(CrashSentinel{id})
	}
}

// CrashSentinel is the panic value of an injected crash.
type CrashSentinel struct{ ID uint32 }

// ArmCrash makes the next K(id) panic; 0 disarms.
func ArmCrash(id uint32) { crashID = id }
