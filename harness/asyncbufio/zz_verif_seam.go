//go:build verif

package asyncbufio

// Seams of the C07 / C05 (back-pressure part) builds; this file is placed into /repo/asyncbufio through the
// build overlay (bin/props.d/C07.py, "_extra_overlay"). Nothing here changes logic:
//
//   - VerifNewTicker replaces the call time.NewTicker(aw.flushInterval) in writeLoop (text patch). Its default
//     IS time.NewTicker. For the tick scenarios the harness installs a ticker whose channel is fed by a clock
//     thread running under the controlled scheduler, so that the periodic-flush case of writeLoop is taken at
//     arbitrary points of an execution (3 s of real time never pass within one).
//   - VerifStallPoints switches on the opt-in scheduling points the instrumenter places before the calls into
//     the bufio.Writer ("disk" write / flush) and before atomic operations (tools/vinstrument: call_points,
//     atomics, opt_guard). Default off: the scenarios without ticks are scheduled exactly as before.

import "time"

var VerifNewTicker = time.NewTicker

var VerifStallPoints bool
