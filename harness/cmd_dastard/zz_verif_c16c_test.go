//go:build verif

package main

// C16 part (c) — a kill at any instant of a configuration save leaves a configuration file that the
// next start-up reads as a complete old or complete new version.
//
// Engine C: the real saveState (package dastard, reached through the overlay-only door
// dastard.VerifSaveState) carries a crash point before every statement that calls into package os or
// viper. One execution = one (directory pre-state, boot path, save history, crash point of the last
// save [, torn length of the temporary file]); the "kill" is the CrashSentinel panic unwinding out of
// saveState (the function has no defer, so nothing runs after the crash point), after which the
// in-memory viper is thrown away and the REAL start-up path of cmd/dastard (setupViper -> makeFileExist
// -> viper.ReadInConfig) reads whatever is on disk.

import (
	"fmt"
	"io"
	"log"
	"os"
	"path/filepath"
	"sort"
	"strings"
	"testing"

	"github.com/spf13/viper"
	"github.com/usnistgov/dastard"
	"github.com/usnistgov/dastard/internal/vexp"
	"github.com/usnistgov/dastard/internal/vhook"
)

func TestMain(m *testing.M) {
	if os.Getenv("VERIF_LOGS") == "" {
		log.SetOutput(io.Discard)
	}
	dastard.ProblemLogger = log.New(io.Discard, "", 0)
	dastard.UpdateLogger = log.New(io.Discard, "", 0)
	os.Exit(m.Run())
}

func v16cInfra(format string, a ...interface{}) {
	fmt.Fprintf(os.Stderr, "VERIF-INFRA C16c: "+format+"\n", a...)
	os.Exit(3)
}

// version n of the configuration: every key carries n, so a mixture of two versions is detectable.
func v16cVersion(n int) map[string]interface{} {
	ws := &dastard.WritingState{BasePath: fmt.Sprintf("/data/run v%d", n), Active: n%2 == 1}
	return map[string]interface{}{
		"MARKER": fmt.Sprintf("v%d", n),
		"STATUS": dastard.ServerStatus{SourceName: fmt.Sprintf("src%d", n), Nchannels: 4 + n, Nsamples: 1000 + n, Npresamp: 100 + n,
			ChanGroups: []dastard.GroupIndex{{Firstchan: n, Nchan: 4 + n}}},
		"WRITING":  &ws, // broadcastWritingState publishes a pointer to a *WritingState
		"SIMPULSE": &dastard.SimPulseSourceConfig{Nchan: n + 1, SampleRate: 1000.5 + float64(n), Amplitudes: []float64{float64(n), 2.5}, Nsamp: 10 + n},
		"TRIGGER": []dastard.FullTriggerState{{ChannelIndices: []int{0, n + 1},
			TriggerState: dastard.TriggerState{AutoTrigger: true, EdgeLevel: int32(-n - 1), LevelLevel: dastard.RawType(4000 + n)}}},
		"ALIVE": dastard.Heartbeat{Running: true, Time: float64(n)}, // a no-save topic, present in the updater's map
	}
}

// v16cDecode reads the version out of the viper that the start-up path has just filled.
// It returns the marker ("" = no marker: empty configuration) and a description of any key that does
// not belong to the marker's version.
func v16cDecode() (marker string, bad string) {
	marker = viper.GetString("marker")
	if marker == "" {
		var keys []string
		for _, k := range viper.AllKeys() {
			if k != "verbose" {
				keys = append(keys, k)
			}
		}
		if len(keys) > 0 {
			sort.Strings(keys)
			bad = "no marker but keys " + strings.Join(keys, ",")
		}
		return
	}
	var n int
	if _, err := fmt.Sscanf(marker, "v%d", &n); err != nil {
		return marker, "unparsable marker " + marker
	}
	var probs []string
	var st dastard.ServerStatus
	if err := viper.UnmarshalKey("status", &st); err != nil {
		probs = append(probs, "status: "+err.Error())
	} else if st.SourceName != fmt.Sprintf("src%d", n) || st.Nchannels != 4+n || st.Nsamples != 1000+n || st.Npresamp != 100+n ||
		len(st.ChanGroups) != 1 || st.ChanGroups[0].Firstchan != n || st.ChanGroups[0].Nchan != 4+n {
		probs = append(probs, fmt.Sprintf("status=%+v", st))
	}
	var ws dastard.WritingState
	if err := viper.UnmarshalKey("writing", &ws); err != nil {
		probs = append(probs, "writing: "+err.Error())
	} else if ws.BasePath != fmt.Sprintf("/data/run v%d", n) {
		probs = append(probs, fmt.Sprintf("writing.BasePath=%q", ws.BasePath))
	}
	var spc dastard.SimPulseSourceConfig
	if err := viper.UnmarshalKey("simpulse", &spc); err != nil {
		probs = append(probs, "simpulse: "+err.Error())
	} else if spc.Nchan != n+1 || spc.SampleRate != 1000.5+float64(n) || len(spc.Amplitudes) != 2 || spc.Amplitudes[0] != float64(n) || spc.Nsamp != 10+n {
		probs = append(probs, fmt.Sprintf("simpulse=%+v", spc))
	}
	var fts []dastard.FullTriggerState
	if err := viper.UnmarshalKey("trigger", &fts); err != nil {
		probs = append(probs, "trigger: "+err.Error())
	} else if len(fts) != 1 || len(fts[0].ChannelIndices) != 2 || fts[0].ChannelIndices[1] != n+1 || !fts[0].AutoTrigger ||
		fts[0].EdgeLevel != int32(-n-1) || fts[0].LevelLevel != dastard.RawType(4000+n) {
		probs = append(probs, fmt.Sprintf("trigger=%+v", fts))
	}
	if viper.IsSet("alive") {
		probs = append(probs, "no-save topic ALIVE is in the file")
	}
	return marker, strings.Join(probs, "; ")
}

type v16cEnv struct {
	home, dot, main, tmp, bak string
	boot                      int
}

func v16cNewEnv(boot int) *v16cEnv {
	// tmpfs if available: viper fsyncs every write, and the property is about process kills, not power loss
	base := ""
	if fi, err := os.Stat("/dev/shm"); err == nil && fi.IsDir() {
		base = "/dev/shm"
	}
	home, err := os.MkdirTemp(base, "c16c")
	if err != nil && base != "" {
		home, err = os.MkdirTemp("", "c16c")
	}
	if err != nil {
		v16cInfra("MkdirTemp: %v", err)
	}
	os.Setenv("HOME", home)
	e := &v16cEnv{home: home, boot: boot}
	e.dot = filepath.Join(home, ".dastard")
	e.main = filepath.Join(e.dot, "config.yaml")
	e.tmp = filepath.Join(e.dot, "config.tmp.yaml")
	e.bak = e.main + ".bak"
	return e
}

func (e *v16cEnv) close() { os.RemoveAll(e.home) }

// start is one process start: boot 0 = the real setupViper; boot 1 = viper pointed at the file by name
// (SetConfigFile) and the file read if it exists, without makeFileExist creating an empty one.
func (e *v16cEnv) start() error {
	viper.Reset()
	if e.boot == 0 {
		return setupViper()
	}
	if err := os.MkdirAll(e.dot, 0775); err != nil {
		return err
	}
	viper.SetConfigFile(e.main)
	if _, err := os.Stat(e.main); err == nil {
		return viper.ReadInConfig()
	}
	return nil
}

// save calls the real saveState with a crash armed at point id (0 = none). It reports whether the
// process was "killed" there.
func v16cSave(m map[string]interface{}, id uint32) (killed bool) {
	defer func() {
		vhook.ArmCrash(0)
		if r := recover(); r != nil {
			if cs, ok := r.(vhook.CrashSentinel); ok && cs.ID == id {
				killed = true
				return
			}
			panic(r)
		}
	}()
	vhook.ArmCrash(id)
	dastard.VerifSaveState(m)
	return false
}

func v16cMerge(dst, src map[string]interface{}) {
	for k, v := range src {
		dst[k] = v
	}
}

func (e *v16cEnv) ls() string {
	ents, _ := os.ReadDir(e.dot)
	var s []string
	for _, en := range ents {
		if en.IsDir() {
			continue
		}
		fi, _ := en.Info()
		sz := int64(-1)
		if fi != nil {
			sz = fi.Size()
		}
		s = append(s, fmt.Sprintf("%s(%d)", en.Name(), sz))
	}
	return strings.Join(s, " ")
}

// lsClass: which of the three files exist (sizes dropped) — part of the canonical outcome.
func (e *v16cEnv) lsClass() string {
	s := ""
	for _, p := range []struct{ n, f string }{{"main", e.main}, {"tmp", e.tmp}, {"bak", e.bak}} {
		if fi, err := os.Stat(p.f); err == nil {
			if fi.Size() == 0 {
				s += p.n + "=empty "
			} else {
				s += p.n + " "
			}
		}
	}
	return strings.TrimSpace(s)
}

var v16cPreNames = []string{"nofiles", "main", "main+bak", "main+staletmp"}
var v16cBootNames = []string{"setupViper", "SetConfigFile"}
var v16cTornNames = []string{"intact", "0B", "1B", "half", "allbut1"}

func TestVerifC16c(t *testing.T) {
	r := vexp.NewRunner("C16")
	defer r.Finish()

	points := vhook.AllPoints("crashpoint")
	if len(points) == 0 {
		v16cInfra("no crash points (VERIF_POINTS=%q)", os.Getenv("VERIF_POINTS"))
	}
	sort.Slice(points, func(i, j int) bool { return points[i] < points[j] })

	// calibration: which points a save reaches, and which is the first one after the temporary file
	// has been written (the torn-write variants are attached to that one).
	reached := make([]bool, len(points))
	afterWrite := -1
	for i, id := range points {
		e := v16cNewEnv(0)
		if err := e.start(); err != nil {
			v16cInfra("calibration start: %v", err)
		}
		m := map[string]interface{}{}
		v16cMerge(m, v16cVersion(0))
		v16cSave(m, 0)
		v16cMerge(m, v16cVersion(1))
		reached[i] = v16cSave(m, id)
		if _, err := os.Stat(e.tmp); err == nil && reached[i] && afterWrite < 0 {
			afterWrite = i
		}
		e.close()
	}
	if afterWrite < 0 {
		v16cInfra("calibration found no crash point at which the temporary file exists")
	}
	nreached := 0
	for _, b := range reached {
		if b {
			nreached++
		}
	}

	hists := []int{1, 2}
	if r.Thorough() {
		hists = []int{1, 2, 3}
	}
	abLen := 4
	if r.Thorough() {
		abLen = 5
	}
	r.SetBound(fmt.Sprintf("parts a, b (package dastard): all status-update sequences of length 0..%d through the real RunClientUpdater + SENDALL over ZMQ; real saveState -> fresh viper -> start-up decoding "+
		"of enumerated values of every persisted structure, two saves and three start-ups per execution (details in coverage.rule). ", abLen) + fmt.Sprintf("part c: directory pre-state {%s} x boot {%s} x history of %v saves x kill at each of the %d crash points of the last save (%d reached; %s) or no kill, "+
		"x torn temporary file {%s} at the point after WriteConfigAs; recovery by the real setupViper, then one further complete save and restart",
		strings.Join(v16cPreNames, ", "), strings.Join(v16cBootNames, ", "), hists, len(points), nreached, vhook.PointDoc(points[afterWrite]), strings.Join(v16cTornNames, ", ")))

	for pre := range v16cPreNames {
		for boot := range v16cBootNames {
			for _, hist := range hists {
				pre, boot, hist := pre, boot, hist
				r.DFS(fmt.Sprintf("c/pre=%s/boot=%s/saves=%d", v16cPreNames[pre], v16cBootNames[boot], hist), -1, func(x *vexp.X) vexp.Result {
					return v16cExec(x, points, afterWrite, pre, boot, hist)
				})
			}
		}
	}
}

func v16cExec(x *vexp.X, points []uint32, afterWrite, pre, boot, hist int) vexp.Result {
	e := v16cNewEnv(boot)
	defer e.close()
	fail := func(class, format string, a ...interface{}) vexp.Result {
		return vexp.Result{Violation: fmt.Sprintf(format, a...) + "\n  files now: " + e.ls(), Class: class, Nontrivial: true}
	}

	// ---- earlier runs of dastard create the pre-state (complete saves through the real code)
	const vOld, v0 = 7, 0
	persist := func(n int) {
		if err := e.start(); err != nil {
			v16cInfra("pre-state start: %v", err)
		}
		if v16cSave(v16cVersion(n), 0) {
			v16cInfra("pre-state save killed")
		}
	}
	prev := -1 // version on disk before the save under test; -1 = nothing was ever saved
	switch pre {
	case 1:
		persist(v0)
		os.Remove(e.bak)
		prev = v0
	case 2:
		persist(vOld)
		persist(v0)
		if _, err := os.Stat(e.bak); err != nil {
			v16cInfra("pre-state main+bak has no bak")
		}
		prev = v0
	case 3:
		persist(v0)
		os.Remove(e.bak)
		b, err := os.ReadFile(e.main)
		if err != nil || len(b) < 10 {
			v16cInfra("pre-state: cannot read main: %v", err)
		}
		os.WriteFile(e.tmp, b[:len(b)/2], 0644) // left behind by a kill during an earlier write
		prev = v0
	}
	x.Logf("pre-state %s: %s", v16cPreNames[pre], e.ls())

	// ---- the run under test
	if err := e.start(); err != nil {
		return fail("c16c-startup-error-on-prestate", "start-up on pre-state %s failed: %v", v16cPreNames[pre], err)
	}
	k := x.Choose(len(points) + 1)
	torn := 0
	if k == afterWrite {
		torn = x.Choose(len(v16cTornNames))
	}
	last := map[string]interface{}{} // the updater's lastMessages map lives as long as the process
	killed := false
	for i := 1; i <= hist; i++ {
		v16cMerge(last, v16cVersion(i))
		id := uint32(0)
		if i == hist && k < len(points) {
			id = points[k]
		}
		kd := v16cSave(last, id)
		x.Steps++
		if i == hist {
			killed = kd
		} else {
			prev = i
		}
		x.Logf("save v%d crash=%s killed=%v -> %s", i, v16cPointName(id), kd, e.ls())
	}
	if torn > 0 && killed {
		b, err := os.ReadFile(e.tmp)
		if err != nil {
			v16cInfra("torn: no tmp file after crash at the after-write point: %v", err)
		}
		n := []int{0, 0, 1, len(b) / 2, len(b) - 1}[torn]
		if err := os.Truncate(e.tmp, int64(n)); err != nil {
			v16cInfra("truncate: %v", err)
		}
		x.Logf("temporary file torn to %d of %d bytes", n, len(b))
	}
	where := "no kill"
	if killed {
		where = "kill at " + v16cPointName(points[k])
		if torn > 0 {
			where += " with the temporary file torn to " + v16cTornNames[torn]
		}
	} else if k < len(points) {
		where = "no kill (point not reached)"
	}
	filesAfter := e.lsClass()
	desc := fmt.Sprintf("pre=%s boot=%s saves=%d, %s", v16cPreNames[pre], v16cBootNames[boot], hist, where)

	// ---- the process is gone; the next start-up is the real one
	viper.Reset()
	os.Setenv("HOME", e.home)
	err := setupViper()
	x.Steps++
	x.Logf("after %s: files at kill [%s]; setupViper err=%v; config file used %q", where, filesAfter, err, viper.ConfigFileUsed())
	if err != nil {
		return fail("c16c-startup-fails-after-kill", "%s: the next start-up fails: %v", desc, err)
	}
	used := viper.ConfigFileUsed()
	if used != e.main {
		return fail("c16c-startup-reads-other-file", "%s: start-up read %q, not %q", desc, used, e.main)
	}
	marker, bad := v16cDecode()
	x.Logf("recovered marker=%q problems=%q", marker, bad)
	want := []string{fmt.Sprintf("v%d", hist)}
	if killed {
		if prev >= 0 {
			want = append(want, fmt.Sprintf("v%d", prev))
		} else {
			want = append(want, "") // nothing had ever been saved: an empty configuration is the complete old version
		}
	}
	okMarker := false
	for _, w := range want {
		if marker == w {
			okMarker = true
		}
	}
	out := fmt.Sprintf("killed=%v files=[%s] recovered=%s", killed, filesAfter, marker)
	if marker == "" && !okMarker {
		cls := "c16c-config-missing-after-kill"
		if strings.Contains(filesAfter, "main") {
			cls = "c16c-config-empty-after-kill"
		}
		return fail(cls, "%s: the configuration file the next start-up reads is missing/empty (start-up silently created an empty one): "+
			"recovered no marker, expected complete %v. files at the kill: [%s]. %s", desc, want, filesAfter, bad)
	}
	if !okMarker {
		return fail("c16c-wrong-version", "%s: recovered version %q, expected one of %v", desc, marker, want)
	}
	if bad != "" {
		return fail("c16c-incomplete-version", "%s: recovered version %q is not complete: %s", desc, marker, bad)
	}

	// ---- the recovered process keeps working: one more complete save and restart
	const vNext = 9
	last2 := v16cVersion(vNext)
	if v16cSave(last2, 0) {
		v16cInfra("follow-up save killed")
	}
	x.Steps++
	viper.Reset()
	if err := setupViper(); err != nil {
		return fail("c16c-followup-startup-fails", "%s: start-up after a further complete save fails: %v", desc, err)
	}
	m2, bad2 := v16cDecode()
	x.Logf("after follow-up save: files %s marker=%q problems=%q", e.ls(), m2, bad2)
	if m2 != fmt.Sprintf("v%d", vNext) || bad2 != "" {
		return fail("c16c-followup-save-lost", "%s: after recovery a complete save of v%d is read back as %q (%s)", desc, vNext, m2, bad2)
	}
	return vexp.Result{Nontrivial: killed, Outcome: out, Desc: desc}
}

func v16cPointName(id uint32) string {
	if id == 0 {
		return "none"
	}
	return vhook.PointDoc(id)
}
