//go:build verif

package dastard

// C01 — every emitted record is an exact, correctly labelled excerpt of its channel stream,
// for every partition of the stream into blocks. Engine A, stateless DFS over block partitions.

import (
	"fmt"
	"testing"

	"github.com/usnistgov/dastard/internal/vexp"
)

func TestVerifC01(t *testing.T) {
	r := vexp.NewRunner("C01")
	r.CrashTrace = true // processSegment runs in goroutines spawned by ProcessSegments
	defer r.Finish()
	maxCuts := 2
	if r.Thorough() {
		maxCuts = 3
	}
	r.SetBound(fmt.Sprintf("all block partitions with <=%d cuts + all uniform block sizes, stream length 4*nsamp+14, (npre,nsamp) in {(3,5),(4,14)}, signed/unsigned, 13 trigger configurations (edge, level, auto, combined, edge-multi x3) + group secondaries, 5 control histories, single/double pulses, fast pulses followed by a slow level-only pulse; a third channel with the same settings and pulses at other times (blocks in which only one of the two triggering channels has primaries); ConfigurePulseLengths after block 1 from (4,34) to (3,5), (3,5) to (4,30), (8,30) to (3,9) on streams of 2*nsamp+14", maxCuts))
	vTrigCases(r, true, func(id string, sc *vTrigScenario) {
		built := false
		r.DFS(id, -1, func(x *vexp.X) vexp.Result {
			if !built {
				sc.build()
				sc.prepareViper()
				built = true
			}
			cuts := maxCuts
			if sc.L > 40 && len(sc.pulses)+len(sc.slow) > 1 && cuts > 2 {
				cuts = 2
			}
			bounds := vChoosePartition(x, sc.L, cuts, true)
			run := sc.execute(x, bounds)
			v, cls, straddles := run.checkExcerpts()
			return vexp.Result{Violation: v, Class: cls, Nontrivial: straddles > 0, Outcome: run.outcome()}
		})
	})
}
