//go:build verif

package dastard

// C02 — triggers are sound and complete across block edges, from the first block after start
// (incl. restored settings) and after every reconfiguration. Engine A, DFS over block partitions,
// oracle = independent scan of the ground-truth stream with the trigger criteria.

import (
	"fmt"
	"testing"

	"github.com/usnistgov/dastard/internal/vexp"
)

func TestVerifC02(t *testing.T) {
	r := vexp.NewRunner("C02")
	r.CrashTrace = true
	defer r.Finish()
	maxCuts := 2
	if r.Thorough() {
		maxCuts = 3
	}
	r.SetBound(fmt.Sprintf("all block partitions with <=%d cuts + all uniform block sizes, stream length 4*nsamp+14, (npre,nsamp) in {(3,5),(4,14)}, signed/unsigned, 10 edge/level/auto configurations, 5 control histories (restored, configured before, configured after block 1, ConfigurePulseLengths same/different), single/double pulses; for the rising-level configurations also one or two fast pulses followed by a slow level-only pulse at every offset; a third channel with the same settings and pulses at other times; ConfigurePulseLengths after block 1 from (4,34) to (3,5), (3,5) to (4,30), (8,30) to (3,9) on streams of 2*nsamp+14, completeness required across the change (the undecided tail of the old length included)", maxCuts))
	vTrigCases(r, false, func(id string, sc *vTrigScenario) {
		built := false
		r.DFS(id, -1, func(x *vexp.X) vexp.Result {
			if !built {
				sc.build()
				sc.prepareViper()
				built = true
			}
			cuts := maxCuts
			if sc.L > 40 && len(sc.pulses)+len(sc.slow) > 1 && cuts > 2 {
				cuts = 2
			}
			bounds := vChoosePartition(x, sc.L, cuts, true)
			run := sc.execute(x, bounds)
			v, cls, near := run.checkCriteria()
			return vexp.Result{Violation: v, Class: cls, Nontrivial: near > 0, Outcome: run.outcome()}
		})
	})
}
