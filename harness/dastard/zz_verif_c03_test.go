//go:build verif

package dastard

// C03 — Abaco ingest: exact demultiplexing, gap filling, continuous frame numbering.
// Engine A (deviation-bounded DFS) on the real reader loop: AbacoSource with a scripted
// PacketProducer; real Sample(), PrepareChannels(), PrepareRun(), readerMainLoop(), getNextBlock()
// and distributeData(); the harness plays the core loop. The output is a function of the script
// (which packets arrive in which read tick), not of timing.
// Ring family: the producer is a real AbacoRing over a real shared-memory ring buffer; the harness
// plays the card, writing each tick's burst (every packet padded to the 8192-byte slot) into the ring
// before the reader loop's ReadAllPackets call reaches the real AbacoRing.ReadAllPackets.
// Offsets family: the groups leave start-up sampling at unequal offsets (start-up sampling saw a
// different number of packets per group, and every group counts from its own sequence-number base), so
// the first common sequence number lies inside the script and packets that predate it have to be
// discarded, also when a lagging group's tick holds nothing but such packets.

import (
	"bytes"
	"fmt"
	"os"
	"path/filepath"
	"sort"
	"strings"
	"sync"
	"testing"
	"time"

	"github.com/usnistgov/dastard/internal/vexp"
	"github.com/usnistgov/dastard/internal/vhook"
	"github.com/usnistgov/dastard/packets"
	"github.com/usnistgov/dastard/ringbuffer"
)

type v03Group struct {
	first, nchan int
}

type v03Layout struct {
	name   string
	groups []v03Group
	frames int  // frames per packet
	wide   bool // int32 payload
	ring   bool // the packets travel through a shared-memory ring buffer and the real AbacoRing
	// Start-up sampling, per group (nil: every group saw v03NSampled packets counted from v03Base).
	// The reader aligns the groups on "sequence number minus the first sequence number seen by start-up
	// sampling" (global sequence number): packet bases[g]+k of group g is simultaneous with packet
	// bases[h]+k of group h, and carries the same time stamp.
	bases []int // sequence number of the first packet of the group that start-up sampling saw
	nsamp []int // number of packets of the group that start-up sampling saw
}

// base and nsampled of the gi-th group
func (l *v03Layout) base(gi int) int {
	if l.bases == nil || gi < 0 {
		return v03Base
	}
	return l.bases[gi]
}
func (l *v03Layout) nsampled(gi int) int {
	if l.nsamp == nil {
		return v03NSampled
	}
	return l.nsamp[gi]
}
func (l *v03Layout) index(g v03Group) int {
	for i, h := range l.groups {
		if h == g {
			return i
		}
	}
	return -1
}

const v03Base = 1000 // sequence number of the first sampled packet (layouts without bases of their own)
const v03NSampled = 3

func v03Value(ch, sn, frame int) int { return (ch*131 + (sn-v03Base)*17 + frame*3 + 7) & 0x3fff }

// v03Packet builds one packet through the real encoder and decoder (as if it had arrived by UDP).
func v03Packet(l *v03Layout, g v03Group, sn int) *packets.Packet {
	q, _ := v03PacketRaw(l, g, sn)
	return q
}

// v03PacketRaw also returns the encoded bytes.
func v03PacketRaw(l *v03Layout, g v03Group, sn int) (*packets.Packet, []byte) {
	p := packets.NewPacket(10, 20, uint32(sn-1), g.first) // NewData increments the sequence number
	dims := []int16{int16(g.nchan)}
	n := g.nchan * l.frames
	var err error
	if l.wide {
		d := make([]int32, n)
		for f := 0; f < l.frames; f++ {
			for c := 0; c < g.nchan; c++ {
				d[f*g.nchan+c] = int32(v03Value(g.first+c, sn, f)) * 0x10000
			}
		}
		err = p.NewData(d, dims)
	} else {
		d := make([]int16, n)
		for f := 0; f < l.frames; f++ {
			for c := 0; c < g.nchan; c++ {
				d[f*g.nchan+c] = int16(v03Value(g.first+c, sn, f))
			}
		}
		err = p.NewData(d, dims)
	}
	if err != nil {
		panic(err)
	}
	// 1e6 frames per second: every group measures the same sample rate
	p.SetTimestamp(&packets.PacketTimestamp{T: uint64(1000000 + (sn-l.base(l.index(g)))*l.frames*1000), Rate: 1e9})
	raw := p.Bytes()
	q, err := packets.ReadPacket(bytes.NewReader(raw))
	if err != nil {
		panic("harness packet does not decode: " + err.Error())
	}
	if int(q.SequenceNumber()) != sn {
		panic(fmt.Sprintf("harness packet has sequence number %d, wanted %d", q.SequenceNumber(), sn))
	}
	if len(raw) != q.Length() {
		panic(fmt.Sprintf("harness packet is %d bytes long but reports Length()=%d", len(raw), q.Length()))
	}
	return q, raw
}

const v03Slot = 8192 // ring slot size = the largest legal packet

// totals of this worker, for the evidence
var v03RingExecs, v03RingFull, v03RingShort, v03RingWraps int64
var v03OffsetExecs, v03OffsetPredating, v03OffsetStaleTick int64

// v03Ring is a shared-memory ring buffer with the harness on the writing side (the card) and the
// real AbacoRing on the reading side.
type v03Ring struct {
	rb     *ringbuffer.RingBuffer
	dev    *AbacoRing
	log    []string
	bad    string // first difference between what was written and what AbacoRing.ReadAllPackets returned
	nfull  int    // packets written that fill a slot exactly
	nshort int    // packets written that are padded to the slot
}

// v03RingNumber is unique per worker process: negative ring numbers are for testing.
func v03RingNumber() int {
	shard := 0
	fmt.Sscanf(os.Getenv("VERIF_SHARD"), "%d/", &shard)
	return -(7000000000 + (os.Getpid()%10000000)*100 + shard%100)
}

// v03RingSweep removes ring files that a crashed worker of an earlier run left behind.
func v03RingSweep() {
	old, _ := filepath.Glob("/dev/shm/xdma-7*_c2h_0_*")
	for _, f := range old {
		if st, err := os.Stat(f); err == nil && time.Since(st.ModTime()) > 15*time.Minute {
			os.Remove(f)
		}
	}
}

func v03NewRing(slots int) *v03Ring {
	num := v03RingNumber()
	rb, err := ringbuffer.NewRingBuffer(fmt.Sprintf("xdma%d_c2h_0_buffer", num), fmt.Sprintf("xdma%d_c2h_0_description", num))
	if err == nil {
		rb.Unlink() // leftovers of a crashed execution of this very process
		err = rb.Create(slots * v03Slot)
	}
	if err != nil {
		panic("harness cannot create the shared-memory ring: " + err.Error())
	}
	dev, err := NewAbacoRing(num)
	if err != nil {
		panic("NewAbacoRing failed: " + err.Error())
	}
	return &v03Ring{rb: rb, dev: dev}
}

func (g *v03Ring) remove() {
	g.dev.stop()
	g.rb.Close()
	g.rb.Unlink()
}

// exchange writes the burst into the ring, each packet padded to the slot size as the card does, lets
// the real AbacoRing read, and compares what comes back with what went in.
func (g *v03Ring) exchange(what string, want []*packets.Packet, raw [][]byte) ([]*packets.Packet, error) {
	for _, b := range raw {
		slot := make([]byte, (len(b)+v03Slot-1)/v03Slot*v03Slot)
		copy(slot, b)
		for i := len(b); i < len(slot); i++ {
			slot[i] = 0xa5 // padding is not data
		}
		if len(b)%v03Slot == 0 {
			g.nfull++
		} else {
			g.nshort++
		}
		if n, err := g.rb.Write(slot); err != nil || n != len(slot) {
			panic(fmt.Sprintf("harness ring is too small: wrote %d of %d bytes, error %v", n, len(slot), err))
		}
	}
	got, err := g.dev.ReadAllPackets()
	id := func(ps []*packets.Packet) string {
		var s []string
		for _, p := range ps {
			s = append(s, fmt.Sprintf("%d@%d(%dB)", p.SequenceNumber(), gIndex(p).Firstchan, p.Length()))
		}
		return "[" + strings.Join(s, " ") + "]"
	}
	g.log = append(g.log, fmt.Sprintf("ring %s: wrote %s, AbacoRing.ReadAllPackets returned %s err=%v", what, id(want), id(got), err))
	if g.bad == "" && (err != nil || id(got) != id(want)) {
		g.bad = fmt.Sprintf("%s: packets written to the ring (sequence number@first channel(length)) %s, AbacoRing.ReadAllPackets returned %s, error %v", what, id(want), id(got), err)
	}
	return got, err
}

// v03Producer hands out the sampled packets and then one scripted batch per ReadAllPackets call.
// With a ring, the scripted packets are written into the shared memory at the same moments and the
// real AbacoRing (start, discardStale, ReadAllPackets, stop) does the reading; AbacoRing.samplePackets
// is a wall-clock polling loop around ReadAllPackets and is replaced by a single ReadAllPackets.
type v03Producer struct {
	mu         sync.Mutex
	sampled    []*packets.Packet
	batches    [][]*packets.Packet
	sampledRaw [][]byte
	batchesRaw [][][]byte
	ring       *v03Ring
	calls      int
	done       chan struct{} // closed when the script is exhausted and two further empty ticks were read
	once       sync.Once
}

func (p *v03Producer) finish() { p.once.Do(func() { close(p.done) }) }

func (p *v03Producer) start() error {
	if p.ring != nil {
		return p.ring.dev.start()
	}
	return nil
}
func (p *v03Producer) discardStale() error {
	if p.ring != nil {
		return p.ring.dev.discardStale()
	}
	return nil
}
func (p *v03Producer) stop() error {
	if p.ring != nil {
		return p.ring.dev.stop()
	}
	return nil
}
func (p *v03Producer) samplePackets(d time.Duration) ([]*packets.Packet, error) {
	if p.ring != nil {
		return p.ring.exchange("sampling", p.sampled, p.sampledRaw)
	}
	return p.sampled, nil
}
func (p *v03Producer) ReadAllPackets() ([]*packets.Packet, error) {
	p.mu.Lock()
	defer p.mu.Unlock()
	k := p.calls
	p.calls++
	if k < len(p.batches) {
		if p.ring != nil {
			return p.ring.exchange(fmt.Sprintf("read tick %d", k), p.batches[k], p.batchesRaw[k])
		}
		return p.batches[k], nil
	}
	if k == len(p.batches)+2 {
		p.finish()
	}
	if p.ring != nil {
		return p.ring.exchange(fmt.Sprintf("read tick %d", k), nil, nil)
	}
	return nil, nil
}

const v03NScript = 6 // scripted sequence numbers per group after sampling
const v03NTicks = 5

// one execution: choose loss pattern and batching (deviation-bounded), run the real reader loop
func v03Run(x *vexp.X, l *v03Layout, seed int64, staggered bool) (res vexp.Result) {
	ng := len(l.groups)
	// script[g][k] = tick in which packet base(g)+nsampled(g)+k of group g (the k-th one after those
	// that start-up sampling saw) arrives, or -1 if lost.
	// Default environment: staggered=false: everything arrives in the first tick; staggered=true: two
	// packets per tick, odd groups one packet behind (one group lagging another is the normal state).
	// Deviations: a packet is lost, or the tick advances by a further 1..n before it arrives.
	script := make([][]int, ng)
	ndev := 0
	for g := 0; g < ng; g++ {
		script[g] = make([]int, v03NScript)
		extra := 0
		for k := 0; k < v03NScript; k++ {
			base := 0
			if staggered {
				base = (k + g%2) / 2
			}
			tick := base + extra
			if tick > v03NTicks-1 {
				tick = v03NTicks - 1
			}
			c := x.ChooseDev(2 + (v03NTicks - 1 - tick))
			switch {
			case c == 0:
				script[g][k] = tick
			case c == 1:
				script[g][k] = -1
				ndev++
			default:
				extra += c - 1
				script[g][k] = tick + c - 1
				ndev++
			}
		}
	}
	x.Logf("layout %s seed %d script (tick per packet, -1 = lost): %v", l.name, seed, script)
	if l.nsamp != nil {
		x.Logf("start-up sampling saw, per group, %v packets counted from sequence numbers %v; script packet k of group g has global sequence number nsamp[g]+k", l.nsamp, l.bases)
	}

	vhook.SetMapSeed(seed)
	defer vhook.SetMapSeed(-1)
	as, _ := NewAbacoSource()
	prod := &v03Producer{done: make(chan struct{})}
	for gi, g := range l.groups {
		for sn := l.base(gi); sn < l.base(gi)+l.nsampled(gi); sn++ {
			q, raw := v03PacketRaw(l, g, sn)
			prod.sampled = append(prod.sampled, q)
			prod.sampledRaw = append(prod.sampledRaw, raw)
		}
	}
	var readerDone chan struct{} // set once the reader loop runs
	if l.ring {
		// N slots hold N-1 full packets; the largest burst is the whole script in one tick. The whole
		// execution writes more than N slots, so the ring wraps.
		prod.ring = v03NewRing(len(l.groups)*v03NScript + 2)
		defer func() {
			if readerDone != nil { // the reader must not touch the shared memory after it is unmapped
				prod.finish()
				<-readerDone
			}
			prod.ring.remove()
			v03RingExecs++
			v03RingFull += int64(prod.ring.nfull)
			v03RingShort += int64(prod.ring.nshort)
			if prod.ring.nfull+prod.ring.nshort > len(l.groups)*v03NScript+2 {
				v03RingWraps++
			}
			for _, s := range prod.ring.log {
				x.Logf("%s", s)
			}
			x.Logf("ring: %d packets of exactly one slot and %d shorter ones were written", prod.ring.nfull, prod.ring.nshort)
			if prod.ring.bad != "" { // the root cause of whatever else went wrong downstream
				res = vexp.Result{Violation: fmt.Sprintf("layout %s: %s; script %v", l.name, prod.ring.bad, script), Class: "ring-packets-lost-or-duplicated"}
			}
		}()
	}
	prod.batches = make([][]*packets.Packet, v03NTicks)
	prod.batchesRaw = make([][][]byte, v03NTicks)
	// Global sequence number = sequence number - the group's base: what the groups are aligned on.
	lastArrived := make([]int, ng) // last global sequence number of the group that arrives at all
	firstCommon := 0               // first global sequence number that follows start-up sampling in every group
	for g, grp := range l.groups {
		lastArrived[g] = l.nsampled(g) - 1
		if l.nsampled(g) > firstCommon {
			firstCommon = l.nsampled(g)
		}
		for k, t := range script[g] {
			if t >= 0 {
				sn := l.base(g) + l.nsampled(g) + k
				q, raw := v03PacketRaw(l, grp, sn)
				prod.batches[t] = append(prod.batches[t], q)
				prod.batchesRaw[t] = append(prod.batchesRaw[t], raw)
				lastArrived[g] = l.nsampled(g) + k
			}
		}
	}
	// Packets that arrive but predate the first common sequence number (they must be discarded), and:
	// is there a tick up to which a group delivered nothing but such packets (at least one in that very
	// tick) while another group already delivered a packet that belongs to the output?
	predating, staleTick := 0, false
	for g := range l.groups {
		for k, t := range script[g] {
			if t < 0 || l.nsampled(g)+k >= firstCommon {
				continue
			}
			predating++
			onlyStale, otherHasData := true, false
			for k2, t2 := range script[g] {
				if t2 >= 0 && t2 <= t && l.nsampled(g)+k2 >= firstCommon {
					onlyStale = false
				}
			}
			for h := range l.groups {
				for k2, t2 := range script[h] {
					if h != g && t2 >= 0 && t2 <= t && l.nsampled(h)+k2 >= firstCommon {
						otherHasData = true
					}
				}
			}
			staleTick = staleTick || (onlyStale && otherHasData)
		}
	}
	for len(prod.batches) > 1 && len(prod.batches[len(prod.batches)-1]) == 0 {
		prod.batches = prod.batches[:len(prod.batches)-1] // no point in reading empty ticks at the end of the script
	}
	as.producers = []PacketProducer{prod}
	as.unwrapOpts = AbacoUnwrapOptions{} // RescaleRaw=false: samples pass through unchanged
	if err := as.Sample(); err != nil {
		return vexp.Result{Violation: "Sample() failed: " + err.Error(), Class: "sample-error"}
	}
	if err := as.PrepareChannels(); err != nil {
		return vexp.Result{Violation: "PrepareChannels() failed: " + err.Error(), Class: "prepare-error"}
	}
	if err := as.PrepareRun(3, 6); err != nil {
		return vexp.Result{Violation: "PrepareRun() failed: " + err.Error(), Class: "prepare-error"}
	}
	defer func() {
		as.numberWrittenTicker.Stop()
		as.writingState.externalTriggerTicker.Stop()
		as.writingState.dataDropTicker.Stop()
	}()
	// what StartRun does, with a short read period (50 ms in production) and a deep buffer so that the
	// "no data" panic in getNextBlock stays far away (capacity x period)
	for _, pp := range as.producers {
		pp.discardStale()
	}
	as.buffersChan = make(chan AbacoBuffersType, 20000)
	as.readPeriod = 100 * time.Microsecond
	readerDone = make(chan struct{})
	go func() {
		defer close(readerDone)
		as.readerMainLoop()
	}()
	go func() {
		<-prod.done
		closeIfOpen(as.abortSelf)
	}()

	// the harness plays the core loop
	nchanTotal := as.nchan
	out := make([][]RawType, nchanTotal)
	nextFrame := FrameIndex(0)
	dropped := 0
	nblocks := 0
	for {
		blk, ok := <-as.getNextBlock()
		if !ok {
			break
		}
		if blk.err != nil {
			return vexp.Result{Violation: "reader delivered an error block: " + blk.err.Error(), Class: "error-block"}
		}
		x.Steps++
		nblocks++
		if len(blk.segments) != nchanTotal {
			return vexp.Result{Violation: fmt.Sprintf("block has %d segments, source has %d channels", len(blk.segments), nchanTotal), Class: "block-shape"}
		}
		n := len(blk.segments[0].rawData)
		for ch, seg := range blk.segments {
			if len(seg.rawData) != n {
				return vexp.Result{Violation: fmt.Sprintf("block %d: channel %d has %d samples, channel 0 has %d", nblocks, ch, len(seg.rawData), n), Class: "block-unequal-lengths"}
			}
			if seg.firstFrameIndex != nextFrame {
				return vexp.Result{Violation: fmt.Sprintf("block %d: channel %d first frame %d, expected %d (frame numbers must be contiguous)", nblocks, ch, seg.firstFrameIndex, nextFrame), Class: "frame-numbers-not-contiguous"}
			}
			out[ch] = append(out[ch], seg.rawData...)
		}
		dropped += blk.segments[0].droppedFrames
		x.Logf("block %d: %d frames from frame %d, droppedFrames=%d", nblocks, n, nextFrame, blk.segments[0].droppedFrames)
		nextFrame += FrameIndex(n)
	}

	// expectation: aligned by global sequence number; group g can contribute the packets from the first one
	// after its start-up sampling (global nsampled(g)) to its last arrived one; the output starts at the
	// first global sequence number every group can contribute (with equal start-up offsets: right after
	// sampling) and stops at the group that has the least
	npk := v03NScript
	for g := range l.groups {
		if k := lastArrived[g] - (firstCommon - 1); k < npk {
			npk = k
		}
	}
	if npk < 0 {
		npk = 0
	}
	wantFrames := npk * l.frames
	fillers := 0
	chIdx := 0
	var keys []v03Group
	keys = append(keys, l.groups...)
	sort.Slice(keys, func(i, j int) bool { return keys[i].first < keys[j].first })
	for _, grp := range keys {
		gi := 0
		for i, g := range l.groups {
			if g == grp {
				gi = i
			}
		}
		for c := 0; c < grp.nchan; c++ {
			got := out[chIdx]
			if len(got) != wantFrames {
				return vexp.Result{Violation: fmt.Sprintf("channel %d (group first=%d): %d samples delivered, expected %d = %d packets x %d frames (global sequence numbers %d..%d = this group's %d..%d; groups' last arrived global sequence numbers %v, packets seen by start-up sampling %v); script %v",
					grp.first+c, grp.first, len(got), wantFrames, npk, l.frames, firstCommon, firstCommon+npk-1, l.base(gi)+firstCommon, l.base(gi)+firstCommon+npk-1, lastArrived, l.nsamp, script), Class: "sample-count-wrong"}
			}
			for k := 0; k < npk; k++ {
				sn := l.base(gi) + firstCommon + k
				if script[gi][firstCommon+k-l.nsampled(gi)] < 0 {
					if c == 0 {
						fillers += l.frames
					}
					continue // filler: count and position are checked by the length, the value is free
				}
				for f := 0; f < l.frames; f++ {
					want := RawType(v03Value(grp.first+c, sn, f))
					if got[k*l.frames+f] != want {
						return vexp.Result{Violation: fmt.Sprintf("channel %d: sample %d (packet %d = global %d, frame %d) is %d, the packet carried %d; packets seen by start-up sampling %v; script %v",
							grp.first+c, k*l.frames+f, sn, firstCommon+k, f, got[k*l.frames+f], want, l.nsamp, script), Class: "sample-content-wrong"}
					}
				}
			}
			chIdx++
		}
	}
	// reported dropped frames == frames filled in (summed over groups). A packet can be filled in (and
	// counted) in a tick before the data around it is delivered, so at the end of a finite run the total may
	// also include the fillers still queued: every gap below a group's last arrived sequence number.
	allGaps := 0
	for g := range l.groups {
		for k := 0; k < v03NScript; k++ {
			if script[g][k] < 0 && l.nsampled(g)+k < lastArrived[g] {
				allGaps += l.frames
			}
		}
	}
	if dropped < fillers || dropped > allGaps {
		return vexp.Result{Violation: fmt.Sprintf("blocks report %d dropped frames in total; %d filler frames are in the delivered data and %d gaps were filled in all (summed over groups); script %v", dropped, fillers, allGaps, script), Class: "dropped-frame-count-wrong"}
	}
	if l.nsamp != nil { // offsets family
		v03OffsetExecs++
		if predating > 0 {
			v03OffsetPredating++
		}
		if staleTick {
			v03OffsetStaleTick++
		}
		return vexp.Result{Nontrivial: predating > 0 && wantFrames > 0,
			Outcome: fmt.Sprintf("%d frames %d blocks %d fillers %d arrived packets before the first common sequence number, lagging group with only such packets: %v", wantFrames, nblocks, fillers, predating, staleTick)}
	}
	return vexp.Result{Nontrivial: fillers > 0 && ndev > 1, Outcome: fmt.Sprintf("%d frames %d blocks %d fillers", wantFrames, nblocks, fillers)}
}

func TestVerifC03(t *testing.T) {
	r := vexp.NewRunner("C03")
	r.CrashTrace = true // the reader loop runs in its own goroutine
	defer r.Finish()
	maxDev := 2
	offDev := []int{2, 2, 1} // offsets family: deviation bound per layout
	if r.Thorough() {
		maxDev = 3
		offDev = []int{2, 2, 2}
	}
	r.SetBound(fmt.Sprintf("group layouts (1-3 groups, 1-2 channels per group, 1|3 frames per packet, int16|int32 payloads), 6 sequence numbers per group after sampling, every loss pattern and every batching into 5 read ticks with at most %d deviations (a lost packet or a later tick) from each of two default arrival patterns ('everything in the first tick' and 'two packets per tick, odd groups one packet behind'), map-iteration seeds 0..2; ring family: the same scripts with the packets written by the harness into a real shared-memory ring buffer (slots of 8192 bytes, "+
		"every packet padded to the slot, the ring wraps during the execution) and read by the real AbacoRing (start, discardStale, ReadAllPackets, stop) as the source's producer, for the layouts "+
		"12 channels x 339 frames int16 (packets of exactly 8192 bytes), 6 channels x 339 frames int32 (8192 bytes), 2 channels x 3 frames (68-byte packets), and groups of 12 and 1 channels x 339 frames "+
		"(8192- and 734-byte packets interleaved in one ring); bursts of 0..6 packets per group and tick, map-iteration seed 0 (thorough: 0..2); every ReadAllPackets result also compared with the burst written; "+
		"offsets family: groups that leave start-up sampling at unequal offsets: every vector, not all equal, of 2|3|4 packets seen by start-up sampling per group, each group counting from a sequence-number base of its own "+
		"(the groups are aligned on sequence number minus the first one seen by sampling), for a 2-group layout (3 frames, int16) with at most %d deviations, a 2-group layout listed against channel order (1 frame, int32) with at most %d and a 3-group layout with at most %d, "+
		"the same two default arrival patterns (with unequal offsets the second one makes a lagging group's first tick hold only packets that predate the other group's first packet), map-iteration seed 0 (thorough: 0..2 for the 2-group layouts)", maxDev, offDev[0], offDev[1], offDev[2]))
	r.Note("ring family: AbacoRing.samplePackets (a wall-clock polling loop around ReadAllPackets that wants 100 packets) is replaced by one ReadAllPackets call after the harness wrote the sampled packets")
	var layouts []v03Layout
	for _, frames := range []int{1, 3} {
		for _, wide := range []bool{false, true} {
			for _, gs := range [][]v03Group{
				{{0, 1}}, {{0, 2}}, {{0, 1}, {1, 1}}, {{0, 2}, {2, 1}}, {{4, 1}, {0, 2}}, {{0, 1}, {1, 2}, {3, 1}},
			} {
				if wide && frames == 3 && len(gs) > 2 && !r.Thorough() {
					continue
				}
				layouts = append(layouts, v03Layout{name: fmt.Sprintf("groups=%v/frames=%d/int32=%v", gs, frames, wide), groups: gs, frames: frames, wide: wide})
			}
		}
	}
	// ring family: full = a group whose packets are exactly one ring slot long
	v03RingSweep()
	for _, rl := range []struct {
		gs     []v03Group
		frames int
		wide   bool
		full   bool
	}{
		{[]v03Group{{0, 12}}, 339, false, true},          // 56 + 12 x 339 x 2 = 8192 bytes: exactly one slot
		{[]v03Group{{0, 2}}, 3, false, false},            // short packets, padded to the slot
		{[]v03Group{{0, 12}, {12, 1}}, 339, false, true}, // slot-filling and padded packets interleaved in one ring
		{[]v03Group{{0, 6}}, 339, true, true},            // 56 + 6 x 339 x 4 = 8192 bytes
	} {
		l := v03Layout{name: fmt.Sprintf("ring/groups=%v/frames=%d/int32=%v", rl.gs, rl.frames, rl.wide), groups: rl.gs, frames: rl.frames, wide: rl.wide, ring: true}
		var lens []int
		hasFull := false
		for _, g := range rl.gs {
			q := v03Packet(&l, g, v03Base)
			lens = append(lens, q.Length())
			hasFull = hasFull || q.Length() == v03Slot
		}
		if hasFull != rl.full {
			panic(fmt.Sprintf("harness: ring layout %s has packet lengths %v, slot-filling packet expected: %v", l.name, lens, rl.full))
		}
		l.name += fmt.Sprintf("/bytes=%v", lens)
		layouts = append(layouts, l)
	}
	// offsets family (runs first: it is small)
	var offLayouts []v03Layout
	var offLayoutDev []int
	for oi, ol := range []struct {
		gs     []v03Group
		bases  []int
		frames int
		wide   bool
	}{
		{[]v03Group{{0, 1}, {1, 2}}, []int{1000, 70001}, 3, false},
		{[]v03Group{{4, 1}, {0, 2}}, []int{52007, 1300}, 1, true},
		{[]v03Group{{0, 1}, {1, 2}, {3, 1}}, []int{4000, 1000, 90011}, 1, false},
	} {
		ng := len(ol.gs)
		ns := make([]int, ng)
		for i := range ns {
			ns[i] = 2
		}
		for {
			equal := true
			for _, n := range ns {
				equal = equal && n == ns[0]
			}
			if !equal {
				offLayouts = append(offLayouts, v03Layout{name: fmt.Sprintf("offsets/groups=%v/frames=%d/int32=%v/bases=%v/sampled=%v", ol.gs, ol.frames, ol.wide, ol.bases, ns),
					groups: ol.gs, frames: ol.frames, wide: ol.wide, bases: ol.bases, nsamp: append([]int(nil), ns...)})
				offLayoutDev = append(offLayoutDev, offDev[oi])
			}
			i := ng - 1
			for ; i >= 0 && ns[i] == 4; i-- {
				ns[i] = 2
			}
			if i < 0 {
				break
			}
			ns[i]++
		}
	}
	for i := range offLayouts {
		l := &offLayouts[i]
		dev := offLayoutDev[i]
		nseeds := 1
		if r.Thorough() && len(l.groups) == 2 {
			nseeds = 3
		}
		for seed := 0; seed < nseeds; seed++ {
			seed := int64(seed)
			for _, st := range []bool{false, true} {
				st := st
				// whole cases are dealt out to the workers: the cases are many and small
				r.DFS(fmt.Sprintf("%s/seed%d/staggered=%v", l.name, seed, st), dev, func(x *vexp.X) vexp.Result { return v03Run(x, l, seed, st) })
			}
		}
	}
	r.Count("offsets_executions", v03OffsetExecs)
	r.Count("offsets_executions_in_which_arrived_packets_predate_the_first_common_sequence_number", v03OffsetPredating)
	r.Count("offsets_executions_in_which_a_lagging_group_had_delivered_only_predating_packets_when_another_group_had_data", v03OffsetStaleTick)

	for i := range layouts {
		l := &layouts[i]
		nseeds := 1
		if len(l.groups) > 1 && !(l.ring && !r.Thorough()) { // quick: the ring family runs with map-iteration seed 0 only
			nseeds = 3
		}
		for seed := 0; seed < nseeds; seed++ {
			seed := int64(seed)
			for _, st := range []bool{false, true} {
				st := st
				r.DFSSharded(fmt.Sprintf("%s/seed%d/staggered=%v", l.name, seed, st), maxDev, 2, func(x *vexp.X) vexp.Result { return v03Run(x, l, seed, st) })
			}
		}
	}
	r.Count("ring_executions", v03RingExecs)
	r.Count("ring_executions_in_which_the_ring_wrapped", v03RingWraps)
	r.Count("ring_packets_of_exactly_one_slot_written", v03RingFull)
	r.Count("ring_packets_shorter_than_a_slot_written", v03RingShort)
}
