//go:build verif

package dastard

// C04 — Lancero ingest: frame alignment, channel order, err/fb pairing, mix, external triggers,
// re-alignment after lost bytes. Engine A on the real reader (launchLanceroReader), getNextBlock and
// distributeData with a scripted card (lancero.Lanceroer); the harness plays the core loop.
// The output is a function of the script (bytes available at each driver read), not of timing.
// Restart family: two runs of the same source object, each started through the real Configure and Sample
// (sampleCard paces itself on the card's time stamps, which the script supplies) and ended by the normal stop path.

import (
	"fmt"
	"math"
	"os"
	"path/filepath"
	"sync"
	"testing"
	"time"

	"github.com/usnistgov/dastard/internal/vexp"
)

// the 50 ms read period of launchLanceroReader is made settable by the build (text patch); same loop
var lanceroReadPeriod = 100 * time.Microsecond

const v04Frames = 20

// The reader never stops its ticker (and go.mod's go 1.21 keeps the old timer semantics: an unstopped ticker
// is never collected), so thousands of executions in one process would leave thousands of 0.1 ms tickers
// firing. The build routes the reader's time.NewTicker through this seam and the harness stops the ticker
// when the execution is over.
var v04Tickers []*time.Ticker

func v04NewTicker(d time.Duration) *time.Ticker {
	t := time.NewTicker(d)
	v04Tickers = append(v04Tickers, t)
	return t
}

func v04StopTickers() {
	for _, t := range v04Tickers {
		t.Stop()
	}
	v04Tickers = v04Tickers[:0]
}

type v04Geom struct{ ncols, nrows int }

// ground truth
func v04Err(f, r, c int) int16    { return int16((f*31+r*7+c*3)%200 - 100) }
func v04FbTag(f, r, c int) uint16 { return uint16(0x1000 + (f*16+r*4+c)<<2) }

type v04Script struct {
	g        v04Geom
	startOff int      // the card's stream starts this many words into a frame
	ext      [][]bool // ext[f][r]: external-trigger flag
	gapA     int      // bytes [gapA,gapB) of the stream are lost (0,0 = no gap)
	gapB     int
	avail    []int // cumulative bytes available at each driver read after start-up (original stream offsets)
	mixAt    int   // the mix is changed before the block with this index is requested (-1 = never)
	mix      float64
	devnum   int // number of the (single) active card; card 0 then need not exist at all
	// restart family only (zero values = the behaviour of the other families)
	mixChans []int // feedback channels that get the mix fraction (nil = all of them)
	// mixPlan, if set, replaces mixAt/mix/mixChans: any number of mix requests, each naming its own channels with
	// a fraction of its own per channel
	mixPlan   []v04MixReq
	frameRate float64    // frames per second of the card's time stamps (0 = 100 kHz)
	sample    *v04Script // what the card delivers while the real Sample()/sampleCard looks at it (nil = Sample is bypassed)
}

// v04MixReq is one ConfigureMixFraction request: before the block with index `at` is requested, the feedback
// channels idx[k] get the fractions fr[k] (in this order); channels not named keep what they had.
type v04MixReq struct {
	at  int
	idx []int
	fr  []float64
}

// mixReqs returns the script's mix requests in the order in which they are made (mixAt/mix/mixChans is the
// special case of one request with the same fraction for every channel it names).
func (s *v04Script) mixReqs() []v04MixReq {
	if s.mixPlan != nil {
		return s.mixPlan
	}
	if s.mixAt < 0 {
		return nil
	}
	q := v04MixReq{at: s.mixAt}
	for i := 1; i < 2*s.g.ncols*s.g.nrows; i += 2 {
		if s.mixed(i) {
			q.idx = append(q.idx, i)
			q.fr = append(q.fr, s.mix)
		}
	}
	return []v04MixReq{q}
}

// v04MixSet is a served request: from output sample `from` on the named channels have the new fractions.
type v04MixSet struct {
	from int
	req  v04MixReq
}

// v04Fraction is the fraction in force for channel ch at output sample i: that of the last request served
// before sample i that names the channel, 0 if there is none.
func v04Fraction(served []v04MixSet, ch, i int) float64 {
	f := 0.0
	for _, m := range served {
		if m.from > i {
			break
		}
		for k, c := range m.req.idx {
			if c == ch {
				f = m.req.fr[k]
			}
		}
	}
	return f
}

func (s *v04Script) mixed(ch int) bool {
	if s.mixChans == nil {
		return true
	}
	for _, c := range s.mixChans {
		if c == ch {
			return true
		}
	}
	return false
}

func (s *v04Script) rate() float64 {
	if s.frameRate > 0 {
		return s.frameRate
	}
	return 1e5
}

// v04Card implements lancero.Lanceroer over a byte stream.
type v04Card struct {
	mu       sync.Mutex
	stream   []byte // after the gap has been cut out
	orig     []int  // orig[i] = offset in the uncut stream of stream byte i (for time stamps)
	avail    []int  // per call: bytes of `stream` available
	call     int
	released int
	rate     float64 // bytes per second
	done     chan struct{}
	closed   bool
	hold     bool // while set, no new data is handed out
	lastA    int
	allowed  int // script steps the harness has released so far (lock-step mode)
	// the sampling session: while `sampling` is set, reads and releases go to `samp` (what the hardware streams
	// between sampleCard's StartCollector and StopCollector); the run's own stream starts afresh afterwards
	samp     *v04Card
	sampling bool
	scalls   int
}

// String keeps spew.Sdump(card) in sampleCard short (it would otherwise print every byte of the stream).
func (c *v04Card) String() string { return "v04Card" }

func (c *v04Card) setSampling(on bool) {
	c.mu.Lock()
	c.sampling = on
	c.scalls = 0
	c.mu.Unlock()
}

// load makes the SAME card object deliver another script (the hardware of a later run).
func (c *v04Card) load(n *v04Card) {
	c.mu.Lock()
	c.stream, c.orig, c.avail, c.rate, c.done, c.allowed, c.samp = n.stream, n.orig, n.avail, n.rate, n.done, n.allowed, n.samp
	c.call, c.released, c.lastA, c.scalls = 0, 0, 0, 0
	c.closed, c.hold, c.sampling = false, false, false
	c.mu.Unlock()
}

// sampler returns the card of the sampling session if one is going on. sampleCard reads until the card's time
// stamps have advanced by 200 ms; a script that never gets there must end in an error, not in an endless loop.
func (c *v04Card) sampler() (*v04Card, error) {
	c.mu.Lock()
	defer c.mu.Unlock()
	if !c.sampling || c.samp == nil {
		return nil, nil
	}
	c.scalls++
	if c.scalls > 200 {
		return nil, fmt.Errorf("scripted card: the sampling session was read or released %d times and is still going on", c.scalls)
	}
	return c.samp, nil
}

func (c *v04Card) allow(n int) {
	c.mu.Lock()
	c.allowed += n
	c.mu.Unlock()
}

func (c *v04Card) ChangeRingBuffer(int, int) error                { return nil }
func (c *v04Card) Close() error                                   { return nil }
func (c *v04Card) StartAdapter(int, int) error                    { return nil }
func (c *v04Card) StopAdapter() error                             { return nil }
func (c *v04Card) CollectorConfigure(int, int, uint32, int) error { return nil }
func (c *v04Card) StartCollector(bool) error                      { return nil }
func (c *v04Card) StopCollector() error                           { return nil }
func (c *v04Card) InspectAdapter() uint32                         { return 0 }
func (c *v04Card) Wait() (time.Time, time.Duration, error)        { return time.Now(), 0, nil }
func (c *v04Card) ReleaseBytes(n int) error {
	if sc, err := c.sampler(); err != nil || sc != nil {
		if err != nil {
			return err
		}
		return sc.ReleaseBytes(n)
	}
	c.mu.Lock()
	c.released += n
	c.mu.Unlock()
	return nil
}
func (c *v04Card) AvailableBuffer() ([]byte, time.Time, error) {
	if sc, err := c.sampler(); err != nil || sc != nil {
		if err != nil {
			return nil, time.Time{}, err
		}
		return sc.AvailableBuffer()
	}
	c.mu.Lock()
	defer c.mu.Unlock()
	a := c.lastA
	if !c.hold && c.call < c.allowed { // while held, nothing new arrives
		k := c.call
		c.call++
		if k >= len(c.avail) {
			if k >= len(c.avail)+2 && !c.closed {
				c.closed = true
				close(c.done)
			}
			k = len(c.avail) - 1
		}
		a = c.avail[k]
	}
	if a < c.released {
		a = c.released
	}
	c.lastA = a
	// time of the newest byte, as if the stream had never been cut
	pos := 0
	if a > 0 {
		pos = c.orig[a-1] + 1
	}
	t := vT0.Add(time.Duration(float64(pos) / c.rate * 1e9))
	return c.stream[c.released:a], t, nil
}

func (c *v04Card) setHold(h bool) {
	c.mu.Lock()
	c.hold = h
	c.mu.Unlock()
}

type v04Block struct {
	first   FrameIndex
	n       int
	dropped int
}

func (s *v04Script) build() (*v04Card, int) {
	g := s.g
	words := g.ncols * g.nrows
	var full []byte
	for f := 0; f < len(s.ext); f++ { // the script holds as many frames as it has rows of external-trigger flags
		for r := 0; r < g.nrows; r++ {
			for c := 0; c < g.ncols; c++ {
				e := uint16(v04Err(f, r, c))
				fb := v04FbTag(f, r, c)
				if r == 0 {
					fb |= 1
				}
				if s.ext[f][r] {
					fb |= 2
				}
				full = append(full, byte(e), byte(e>>8), byte(fb), byte(fb>>8))
			}
		}
	}
	full = full[4*s.startOff:]
	card := &v04Card{done: make(chan struct{}), allowed: 1 << 30}
	if len(s.mixReqs()) > 0 {
		card.allowed = 1 // lock-step: the start-up read only; the harness releases one read per block
	}
	for i := range full {
		if s.gapB > s.gapA && i >= s.gapA && i < s.gapB {
			continue
		}
		card.stream = append(card.stream, full[i])
		card.orig = append(card.orig, i)
	}
	card.rate = float64(4*words) * s.rate() // 100 kHz frame rate unless the script says otherwise
	if s.sample != nil {
		card.samp, _ = s.sample.build()
	}
	toCut := func(o int) int { // offset in the cut stream of original offset o
		n := 0
		for _, p := range card.orig {
			if p < o {
				n++
			}
		}
		return n
	}
	for _, a := range s.avail {
		card.avail = append(card.avail, toCut(a))
	}
	return card, len(full)
}

// v04RunScript: one run of a fresh source; the geometry is set directly (sampleCard is bypassed), the per-start
// tables are built by the real updateChanOrderMap as Sample would.
func v04RunScript(x *vexp.X, s *v04Script) vexp.Result {
	card, _ := s.build()
	ls := &LanceroSource{}
	ls.name = "Lancero"
	ls.nsamp = 1
	dev := &LanceroDevice{devnum: s.devnum, card: card}
	ls.devices = map[int]*LanceroDevice{s.devnum: dev}
	ls.ncards = 1
	return v04RunOn(x, ls, dev, card, s)
}

// v04Lsync is the line period (in 8 ns clock ticks) that goes with the script's frame rate.
func v04Lsync(s *v04Script) int {
	return int(125e6/(s.rate()*float64(s.g.nrows)) + 0.5)
}

// v04RunOn starts the source `ls` (fresh, or left behind by an earlier run) on the card's script, plays the core
// loop until the run has ended the way a stopped run ends (abortSelf closed, the reader closes its channel, the
// block goroutine calls stop() and closes nextBlock) and applies the oracle to everything the run delivered.
// With s.sample set the start goes the way dastard's Start goes: the real Configure (number of rows, line
// period and NSAMP from the cringeGlobals file), then the real Sample() whose sampleCard finds the number of
// columns in the card's sampling session; otherwise the geometry is written into the device directly.
func v04RunOn(x *vexp.X, ls *LanceroSource, dev *LanceroDevice, card *v04Card, s *v04Script) vexp.Result {
	g := s.g
	words := g.ncols * g.nrows
	frameSize := 4 * words
	x.Logf("geometry %dx%d startOff=%d gap=[%d,%d) avail=%v (cut: %v) mix requests (before block, channels, fractions)=%v sampled=%v", g.ncols, g.nrows, s.startOff, s.gapA, s.gapB, s.avail, card.avail, s.mixReqs(), s.sample != nil)

	if s.sample != nil {
		saved := cringeGlobalsPath
		defer func() { cringeGlobalsPath = saved }()
		cringeGlobalsPath = filepath.Join(os.TempDir(), fmt.Sprintf("v04_cringeGlobals_%d.json", os.Getpid()))
		globals := fmt.Sprintf(`{"SETT":1,"seqln":%d,"lsync":%d,"testpattern":0,"propagationdelay":1,"NSAMP":1,"carddelay":1,"XPT":0}`, g.nrows, v04Lsync(s))
		if err := os.WriteFile(cringeGlobalsPath, []byte(globals), 0644); err != nil {
			panic(err)
		}
		defer os.Remove(cringeGlobalsPath)
		if err := ls.Configure(&LanceroSourceConfig{FiberMask: 0xffff, CardDelay: []int{1}, ActiveCards: []int{s.devnum}, FirstRow: 1}); err != nil {
			return vexp.Result{Violation: "Configure: " + err.Error(), Class: "configure-error"}
		}
		card.setSampling(true)
		err := ls.Sample()
		card.setSampling(false)
		if err != nil {
			return vexp.Result{Violation: "Sample: " + err.Error(), Class: "sample-error"}
		}
		if dev.ncols != g.ncols || dev.nrows != g.nrows || ls.nchan != 2*words {
			return vexp.Result{Violation: fmt.Sprintf("Sample found %d columns x %d rows, %d channels; the card streams %d x %d", dev.ncols, dev.nrows, ls.nchan, g.ncols, g.nrows), Class: "sample-geometry"}
		}
	} else {
		dev.ncols, dev.nrows, dev.frameSize, dev.clockMHz, dev.lsync = g.ncols, g.nrows, frameSize, 125, 1250/g.nrows
		ls.active = []*LanceroDevice{dev}
		ls.firstRowChanNum = 1
		ls.nchan = 2 * words
		ls.sampleRate = 1e5
		ls.samplePeriod = 10 * time.Microsecond
		ls.updateChanOrderMap()
		ls.mixRequests = make(chan *MixFractionObject, 10)
		ls.currentMix = make(chan []float64, 10)
	}
	if err := ls.PrepareChannels(); err != nil {
		return vexp.Result{Violation: "PrepareChannels: " + err.Error(), Class: "prepare-error"}
	}
	if err := ls.PrepareRun(3, 6); err != nil {
		return vexp.Result{Violation: "PrepareRun: " + err.Error(), Class: "prepare-error"}
	}
	defer func() {
		ls.numberWrittenTicker.Stop()
		ls.writingState.externalTriggerTicker.Stop()
		ls.writingState.dataDropTicker.Stop()
	}()
	if err := ls.StartRun(); err != nil {
		return vexp.Result{Violation: "StartRun: " + err.Error(), Class: "startrun-error"}
	}
	go func(done, abort chan struct{}) { // this run's channels: a later run of the same objects has its own
		<-done
		closeIfOpen(abort)
	}(card.done, ls.abortSelf)
	defer func() {
		// never leave a reader goroutine behind (it panics after 10 s without a successful read)
		card.setHold(false)
		closeIfOpen(ls.abortSelf)
		for range ls.buffersChan {
		}
		v04StopTickers()
	}()

	out := make([][]RawType, ls.nchan)
	var extGot []int64
	var blocks []v04Block
	reqs := s.mixReqs()
	var served []v04MixSet // the requests made so far, each with the output sample index from which it applies
	nsamples := 0
	for bi := 0; ; bi++ {
		ch := ls.getNextBlock()
		for _, q := range reqs {
			if q.at != bi {
				continue
			}
			// no new data is released while the request is outstanding, so it is served before the next block
			if _, err := ls.ConfigureMixFraction(&MixFractionObject{ChannelIndices: append([]int{}, q.idx...), MixFractions: append([]float64{}, q.fr...)}); err != nil {
				return vexp.Result{Violation: "ConfigureMixFraction: " + err.Error(), Class: "mix-error"}
			}
			served = append(served, v04MixSet{nsamples, q})
		}
		if len(reqs) > 0 {
			// lock-step (one driver read per block) while a request is still to come, free-running afterwards
			if bi < len(s.avail)-1 && len(served) < len(reqs) {
				card.allow(1)
			} else {
				card.allow(1 << 20)
			}
		}
		blk, ok := <-ch
		if !ok {
			break
		}
		if blk.err != nil {
			return vexp.Result{Violation: "error block: " + blk.err.Error(), Class: "error-block"}
		}
		if v := v04Take(x, ls, blk, bi, out, &extGot, &nsamples); v != "" {
			return vexp.Result{Violation: v, Class: "block-shape"}
		}
		blocks = append(blocks, v04Block{blk.segments[0].firstFrameIndex, len(blk.segments[0].rawData), blk.segments[0].droppedFrames})
	}

	// ---- oracle
	// which frames should appear? start-up aligns to a frame boundary; with a gap the stream is re-aligned.
	// frame f of the truth starts at original byte offset 4*(f*words - startOff)
	frameStart := func(f int) int { return 4 * (f*words - s.startOff) }
	lastAvail := s.avail[len(s.avail)-1]
	intact := func(f int) bool { // frame fully present in the cut stream and fully available
		a, b := frameStart(f), frameStart(f)+frameSize
		if a < 0 || b > lastAvail {
			return false
		}
		if s.gapB > s.gapA && a < s.gapB && b > s.gapA {
			return false
		}
		return true
	}
	// identify the delivered frames from channel 0 (error of row 0, column 0): values are unique per frame
	// only through the feedback tags, so use the feedback of (0,0), which is delayed by one sample
	n := len(out[0])
	for ch := range out {
		if len(out[ch]) != n {
			return vexp.Result{Violation: fmt.Sprintf("channel %d delivered %d samples, channel 0 delivered %d", ch, len(out[ch]), n), Class: "channels-unequal"}
		}
	}
	// decode the frame number of every output sample from the error channels (err values repeat with period
	// 200/31, so use the combination of all error channels) -- simpler: find the frame sequence by matching
	delivered := make([]int, n)
	prev := -1
	for i := 0; i < n; i++ {
		found := -1
		for f := prev + 1; f < len(s.ext); f++ {
			ok := true
			for r := 0; r < g.nrows && ok; r++ {
				for c := 0; c < g.ncols; c++ {
					if out[2*(c*g.nrows+r)][i] != RawType(uint16(v04Err(f, r, c))) {
						ok = false
						break
					}
				}
			}
			if ok {
				found = f
				break
			}
		}
		if found < 0 {
			return vexp.Result{Violation: fmt.Sprintf("output sample %d: the error channels %v do not form any later frame of the card's stream (channel order / pairing / alignment is wrong, or a frame is repeated); frames so far %v",
				i, v04Column(out, i, 0), delivered[:i]), Class: "error-channels-not-a-frame"}
		}
		delivered[i] = found
		prev = found
	}
	// without a gap every intact frame after the first delivered one must be delivered, except a tail that
	// the reader may still hold (it needs 3 frames to act); with a gap, frames cut by the gap are skipped
	if n > 0 {
		for i := 1; i < n; i++ {
			for f := delivered[i-1] + 1; f < delivered[i]; f++ {
				if intact(f) && !(s.gapB > s.gapA) {
					return vexp.Result{Violation: fmt.Sprintf("frame %d of the card's stream was skipped although no bytes were lost (delivered frames %v)", f, delivered), Class: "frame-skipped"}
				}
			}
		}
		{
			lastIntact := -1
			for f := 0; f < len(s.ext); f++ {
				if intact(f) {
					lastIntact = f
				}
			}
			// (with a gap: the stream must recover; at least two reads of three or more frames follow every gap)
			if delivered[n-1] < lastIntact-3 {
				return vexp.Result{Violation: fmt.Sprintf("frames up to %d were completely available but only frames up to %d were delivered (delivered %v)", lastIntact, delivered[n-1], delivered), Class: "frames-not-delivered"}
			}
			if s.gapB <= s.gapA && delivered[0] > 3 {
				return vexp.Result{Violation: fmt.Sprintf("first delivered frame is %d; start-up may discard at most the partial frame and two whole frames", delivered[0]), Class: "frames-not-delivered"}
			}
		}
	}
	// feedback: delayed by one sample, flag bits cleared, mixed with the error of the same sample
	nmixed, nsat0, nsatMax := 0, 0, 0 // samples with a non-zero fraction in force; of these, saturated at 0 / at 65535
	for r := 0; r < g.nrows; r++ {
		for c := 0; c < g.ncols; c++ {
			ch := 2*(c*g.nrows+r) + 1
			for i := 0; i < n; i++ {
				fbPrev := 0.0 // nothing before the first sample
				if i > 0 {
					// the previous DELIVERED sample's feedback (the reader keeps no other memory)
					fbPrev = float64(v04FbTag(delivered[i-1], r, c) &^ 3)
				}
				scale := v04Fraction(served, ch, i) / 1.0 // the fraction requested for THIS channel; nsamp = 1
				want := fbPrev + scale*float64(v04Err(delivered[i], r, c))
				var w RawType
				switch {
				case want >= math.MaxUint16:
					w = math.MaxUint16
					nsatMax++
				case want < 0:
					w = 0
					nsat0++
				default:
					w = RawType(math.Floor(want + 0.5))
				}
				if scale != 0 {
					nmixed++
				}
				if out[ch][i] != w {
					return vexp.Result{Violation: fmt.Sprintf("feedback channel %d (row %d, column %d) sample %d (frame %d) is %d, expected %d = previous feedback %v with flag bits cleared + %v (the mix fraction in force for this channel) x error %d, saturated at 0 and 65535; mix requests (before block, channels, fractions) %v",
						ch, r, c, i, delivered[i], out[ch][i], w, fbPrev, scale, v04Err(delivered[i], r, c), reqs), Class: "feedback-wrong"}
				}
			}
		}
	}
	// external triggers: one count per rising edge of the flag over the delivered (frame,row) sequence
	var extWant []int64
	last := false
	for i := 0; i < n; i++ {
		for r := 0; r < g.nrows; r++ {
			st := s.ext[delivered[i]][r]
			if st && !last {
				extWant = append(extWant, int64(blocksFrame(blocks, i))*int64(g.nrows)+int64(r))
			}
			last = st
		}
	}
	if s.gapB <= s.gapA {
		if fmt.Sprint(extGot) != fmt.Sprint(extWant) {
			return vexp.Result{Violation: fmt.Sprintf("external-trigger counts %v, expected %v (= frame*rows+row of each rising edge of the flag; %d columns x %d rows; delivered frames %v)", extGot, extWant, g.ncols, g.nrows, delivered), Class: "external-triggers-wrong"}
		}
	} else {
		// after a loss the frame number of the block in which it was noticed is an estimate: require one count
		// per rising edge, in the right row, in increasing order
		ok := len(extGot) == len(extWant)
		for i := 0; ok && i < len(extGot); i++ {
			if extGot[i]%int64(g.nrows) != extWant[i]%int64(g.nrows) || (i > 0 && extGot[i] <= extGot[i-1]) {
				ok = false
			}
		}
		if !ok {
			return vexp.Result{Violation: fmt.Sprintf("external-trigger counts %v after a loss, expected one per rising edge in rows %v (counts as numbered by the blocks would be %v)", extGot, g.nrows, extWant), Class: "external-triggers-wrong"}
		}
	}
	// frame numbers of blocks never go backwards; a loss is reported
	sawDrop := false
	for i, b := range blocks {
		if b.dropped > 0 {
			sawDrop = true
		}
		if i > 0 {
			p := blocks[i-1]
			if b.first < p.first+FrameIndex(p.n) {
				return vexp.Result{Violation: fmt.Sprintf("block %d starts at frame %d, but block %d started at %d and holds %d frames: frame numbers go backwards (blocks %v)", i, b.first, i-1, p.first, p.n, blocks), Class: "frame-numbers-go-backwards"}
			}
		}
	}
	skipped := false
	for i := 1; i < n; i++ {
		if delivered[i] != delivered[i-1]+1 {
			skipped = true
		}
	}
	if skipped && !sawDrop {
		return vexp.Result{Violation: fmt.Sprintf("frames were lost (delivered %v) but no block reported dropped frames", delivered), Class: "loss-not-reported"}
	}
	outcome := fmt.Sprintf("%v|%v|%v", delivered, extGot, blocks)
	if len(reqs) > 0 {
		outcome += fmt.Sprintf("|mixed samples %d, saturated at 0: %d, at 65535: %d", nmixed, nsat0, nsatMax)
	}
	return vexp.Result{Nontrivial: n > 0 && len(blocks) > 1, Outcome: outcome}
}

// blocksFrame returns the frame number dastard assigned to output sample i.
func blocksFrame(blocks []v04Block, i int) int {
	for _, b := range blocks {
		if i < b.n {
			return int(b.first) + i
		}
		i -= b.n
	}
	return -1
}

func v04Column(out [][]RawType, i, _ int) []RawType {
	var v []RawType
	for ch := 0; ch < len(out); ch += 2 {
		v = append(v, out[ch][i])
	}
	return v
}

func v04Take(x *vexp.X, ls *LanceroSource, blk *dataBlock, bi int, out [][]RawType, ext *[]int64, nsamples *int) string {
	x.Steps++
	if len(blk.segments) != ls.nchan {
		return fmt.Sprintf("block %d has %d segments for %d channels", bi, len(blk.segments), ls.nchan)
	}
	n := len(blk.segments[0].rawData)
	for ch, seg := range blk.segments {
		if len(seg.rawData) != n {
			return fmt.Sprintf("block %d: channel %d has %d samples, channel 0 has %d", bi, ch, len(seg.rawData), n)
		}
		if seg.signed != (ch%2 == 0) {
			return fmt.Sprintf("block %d: channel %d signed=%v (error channels are signed, feedback unsigned)", bi, ch, seg.signed)
		}
		out[ch] = append(out[ch], seg.rawData...)
	}
	*ext = append(*ext, blk.externalTriggerRowcounts...)
	*nsamples += n
	x.Logf("block %d: %d frames, first frame %d, dropped %d, ext %v", bi, n, blk.segments[0].firstFrameIndex, blk.segments[0].droppedFrames, blk.externalTriggerRowcounts)
	return ""
}

// Mix assignments. Feedback channel number k (k = 0 .. columns*rows-1, column-major like the channels) is channel 2k+1.
// v04MixDistinct: a fraction of its own on every feedback channel. Variant 0: 0.25*(k+1), channels named in
// ascending order; variant 1: 350*(k+1) with alternating sign (saturates at 0 and at 65535), channels named in
// descending order.
func v04MixDistinct(g v04Geom, at, variant int) v04MixReq {
	q := v04MixReq{at: at}
	n := g.ncols * g.nrows
	for k := 0; k < n; k++ {
		if variant == 0 {
			q.idx, q.fr = append(q.idx, 2*k+1), append(q.fr, 0.25*float64(k+1))
		} else {
			kk := n - 1 - k
			f := 350 * float64(kk+1)
			if kk%2 == 1 {
				f = -f
			}
			q.idx, q.fr = append(q.idx, 2*kk+1), append(q.fr, f)
		}
	}
	return q
}

// v04MixSingle: a fraction on feedback channel number k only (k is taken modulo the number of feedback channels).
func v04MixSingle(g v04Geom, at, k int, f float64) v04MixReq {
	n := g.ncols * g.nrows
	k = ((k % n) + n) % n
	return v04MixReq{at: at, idx: []int{2*k + 1}, fr: []float64{f}}
}

type v04Chunking struct {
	avail    []int // cumulative bytes (original stream offsets) available at each driver read
	boundary int   // the read boundary around which the gap is placed (a frame boundary of the stream)
}

// v04GapChunkings: the read before the boundary always ends on it or after it, at least two reads of >= 3 frames
// follow the window in which the gap lies.
func v04GapChunkings(fs, startOff, end int) []v04Chunking {
	o := 4 * startOff
	f := func(frames int, extra int) int { return frames*fs - o + extra }
	tail := []int{f(20, 0), f(24, 0), f(28, 0), end} // the stream goes on long enough for any recovery to show
	cs := []v04Chunking{
		{[]int{f(4, 0), f(8, 0), f(12, 0), f(16, 0)}, f(8, 0)},           // frame-aligned reads
		{[]int{f(4, 0), f(7, 4), f(11, 0), f(15, 0)}, f(11, 0)},          // second boundary
		{[]int{f(4, 0), f(8, 0), f(9, 0), f(13, 0), f(17, 0)}, f(8, 0)},  // a too-short read right after the boundary
		{[]int{f(4, 0), f(8, 0), f(10, 4), f(11, 0), f(15, 0)}, f(8, 0)}, // a too-short read after the read that holds the gap
		{[]int{f(4, 0), f(8, fs/2), f(12, 4), f(16, 0)}, f(8, 0)},        // reads that end inside a frame
		{[]int{f(4, 0), f(8, 0), f(16, 0)}, f(8, 0)},                     // one long read holds the gap
	}
	for i := range cs {
		cs[i].avail = append(cs[i].avail, tail...)
	}
	return cs
}

// restart family: the card's time stamps run at 20 frames per second, so that the 200 ms of data that sampleCard
// wants to see (it measures them on the card's time stamps, not on the wall clock) are 4 frames, not 20000.
const v04SlowRate = 20

// v04SampleScript is what the card streams while sampleCard looks at it: 8 frames starting one word into a
// frame. Variant 0: the first read (whose data sampleCard ignores and does not release) holds two frame starts,
// three more reads that end inside a frame; variant 1: two reads that together hold a single frame start (the
// frame-bit search has to be repeated), then one long read.
func v04SampleScript(g v04Geom, variant int) *v04Script {
	const frames = 8
	fs := 4 * g.ncols * g.nrows
	s := &v04Script{g: g, startOff: 1, mixAt: -1, frameRate: v04SlowRate}
	s.ext = make([][]bool, frames)
	for f := range s.ext {
		s.ext[f] = make([]bool, g.nrows)
	}
	f := func(frames, extra int) int { return frames*fs - 4 + extra }
	if variant == 0 {
		s.avail = []int{f(2, 4), f(3, 8), f(5, 8), f(7, 0)}
	} else {
		s.avail = []int{f(1, 0), f(1, 8), f(6, 0)}
	}
	return s
}

// v04Restart: two runs of the SAME LanceroSource, LanceroDevice and card objects, each started the way dastard's
// Start does it (real Configure, Sample/sampleCard/updateChanOrderMap, PrepareChannels, PrepareRun, StartRun) and
// ended the way a stopped run ends. Both runs are held to the same oracle as a run of a fresh source: whatever
// the first run left behind in the source must not show in the second.
func v04Restart(x *vexp.X, s1, s2 *v04Script) vexp.Result {
	card, _ := s1.build()
	ls := &LanceroSource{}
	ls.name = "Lancero"
	ls.nsamp = 1
	ls.channelsPerPixel = 2
	dev := &LanceroDevice{devnum: s1.devnum, card: card}
	ls.devices = map[int]*LanceroDevice{s1.devnum: dev}
	ls.ncards = 1
	r1 := v04RunOn(x, ls, dev, card, s1)
	if r1.Violation != "" {
		r1.Violation = "first run of the source: " + r1.Violation
		return r1
	}
	x.Logf("---- the run has ended; the same source is started again")
	c2, _ := s2.build()
	card.load(c2)
	r2 := v04RunOn(x, ls, dev, card, s2)
	if r2.Violation != "" {
		r2.Violation = fmt.Sprintf("second run of the same source object (first run: %dx%d, mix requests (before block, channels, fractions) %v; it ended normally): ", s1.g.ncols, s1.g.nrows, s1.mixReqs()) + r2.Violation
		r2.Class = "second-run/" + r2.Class
		return r2
	}
	return vexp.Result{Nontrivial: r1.Nontrivial && r2.Nontrivial, Outcome: r1.Outcome + "||" + r2.Outcome}
}

func TestVerifC04(t *testing.T) {
	r := vexp.NewRunner("C04")
	r.CrashTrace = true
	defer r.Finish()
	r.SetBound(fmt.Sprintf("geometries (columns x rows) in {1,2,3}x{2,3}, %d frames (gap family: 32) of position-tagged words, stream starting 0-2 words into a frame; the active card numbered 0 or 1; chunkings: every way to make 1-3 driver reads end at offsets from a grid of byte positions (frame-aligned, word-aligned and mid-word, shorter and longer than 3 frames), each without a mix and with a mix fraction of its own on every feedback channel (0.25(k+1) for feedback channel number k, or 350(k+1) with alternating sign, which saturates at 0 and at 65535) requested before the first block (thorough: for one extra read also -1.5 on a single feedback channel, every channel); external-trigger flag rising at every single (frame,row) and at pairs; mix family: a request before block 0, 1 or 2 that sets the same fraction from {0.5,-1.5,400} on all feedback channels, or a fraction of its own on every feedback channel (the two sets above), or 0.5 (thorough: 0.5, -1.5, 400) on one feedback channel only, for every feedback channel; or two requests one block apart (a fraction of its own on every channel, then -2.5 on one channel and 0 on its neighbour, for every channel); one gap of lost words of 8 lengths (1 word .. 3 frames + a row, never a whole number of frames) starting at every word offset of a three-frame window around a read boundary, for 6 chunkings (frame-aligned, not aligned, a too-short read after the loss, one long read); restart family: every geometry x start offset x {no mix, 0.5 on all feedback channels from block 0, 400 on channel 1 from block 1, 0.25(k+1) on every feedback channel k from block 0, -1.5 on one feedback channel from block 1 (quick: the channel moves with the start offset; thorough: every channel)} in a first run, then on the same source object every geometry (same or different) x start offset x {no mix, -1.5 on all from block 1, 0.5 on the last feedback channel from block 0, 350(k+1) with alternating sign on every feedback channel k from block 1, 400 on one feedback channel from block 0 (quick: moves with the start offset; thorough: every channel)} in a second run, both started through the real Configure/Sample/sampleCard/updateChanOrderMap and ended by the normal stop path, one external-trigger pulse in each run", v04Frames))
	var geoms []v04Geom
	for c := 1; c <= 3; c++ {
		for rr := 2; rr <= 3; rr++ { // one row: every word carries the frame bit, frames cannot be told apart
			if c*rr > 1 {
				geoms = append(geoms, v04Geom{c, rr})
			}
		}
	}
	noExt := func(g v04Geom) [][]bool {
		e := make([][]bool, v04Frames)
		for f := range e {
			e[f] = make([]bool, g.nrows)
		}
		return e
	}
	for _, g := range geoms {
		g := g
		words := g.ncols * g.nrows
		fs := 4 * words
		total := v04Frames * fs
		// offsets at which a driver read may end
		grid := func(startOff int) []int {
			var o []int
			fr, ds := []int{3, 5, 8}, []int{0, 4, 2, fs / 2}
			if r.Thorough() {
				fr, ds = []int{3, 4, 5, 7, 9, 11}, []int{0, 4, -4, 2, fs / 2}
			}
			for _, f := range fr {
				base := f*fs - 4*startOff
				for _, d := range ds {
					if p := base + d; p > 0 && p < total-4*startOff {
						o = append(o, p)
					}
				}
			}
			return o
		}
		for startOff := 0; startOff < 3 && startOff < words; startOff++ {
			startOff := startOff
			offs := grid(startOff)
			end := total - 4*startOff
			// family 1: chunkings x single external-trigger edge
			r.DFSSharded(fmt.Sprintf("chunk/%dx%d/start%d", g.ncols, g.nrows, startOff), -1, 2, func(x *vexp.X) vexp.Result {
				s := &v04Script{g: g, startOff: startOff, ext: noExt(g), mixAt: -1}
				// the start-up read must see at least two frame starts
				s.avail = []int{4*fs - 4*startOff}
				nreads := 1 + x.Choose(3)
				prev := s.avail[0]
				for k := 0; k < nreads; k++ {
					var cand []int
					for _, o := range offs {
						if o > prev {
							cand = append(cand, o)
						}
					}
					if len(cand) == 0 {
						break
					}
					prev = cand[x.Choose(len(cand))]
					s.avail = append(s.avail, prev)
				}
				s.avail = append(s.avail, end)
				// one flag pulse of one row in the middle of the stream (the ext family moves it everywhere)
				s.ext[6][g.nrows-1] = true
				s.devnum = x.Choose(2) // the active card is card 0, or card 1 on a system without a card 0
				// the same chunkings with a mix fraction of its own on every feedback channel, requested before the first
				// block: the start-up read is then a frame shorter (it leaves two frames, no block exists yet when the
				// request is made) and the frame it lacks comes with a read of its own
				nmix := 3
				if r.Thorough() && nreads == 1 {
					nmix = 3 + words // also a fraction on one feedback channel only, for every channel (single extra read)
				}
				if m := x.Choose(nmix); m > 0 {
					s.avail = append([]int{3*fs - 4*startOff}, s.avail...)
					switch {
					case m <= 2:
						s.mixPlan = []v04MixReq{v04MixDistinct(g, 0, m-1)}
					default:
						s.mixPlan = []v04MixReq{v04MixSingle(g, 0, m-3, -1.5)}
					}
				}
				return v04RunScript(x, s)
			})
			// family 2: external-trigger patterns (pairs, long pulses) with a fixed chunking
			r.DFSSharded(fmt.Sprintf("ext/%dx%d/start%d", g.ncols, g.nrows, startOff), -1, 2, func(x *vexp.X) vexp.Result {
				s := &v04Script{g: g, startOff: startOff, ext: noExt(g), mixAt: -1}
				s.avail = []int{4*fs - 4*startOff, 7*fs - 4*startOff + 4, end}
				a := x.Choose(v04Frames * g.nrows)
				length := []int{1, g.nrows, 2*g.nrows + 1}[x.Choose(3)]
				nb := v04Frames * g.nrows
				step := 5
				if r.Thorough() {
					step = 1
				}
				b := (x.Choose((nb+step-1)/step) * step) % nb
				for i := a; i < a+length && i < v04Frames*g.nrows; i++ {
					s.ext[i/g.nrows][i%g.nrows] = true
				}
				s.ext[b/g.nrows][b%g.nrows] = true
				return v04RunScript(x, s)
			})
			// family 3: mix
			r.DFS(fmt.Sprintf("mix/%dx%d/start%d", g.ncols, g.nrows, startOff), -1, func(x *vexp.X) vexp.Result {
				s := &v04Script{g: g, startOff: startOff, ext: noExt(g)}
				// the start-up read leaves fewer than 3 frames, so that no block exists before the first release
				s.avail = []int{3*fs - 4*startOff, 7*fs - 4*startOff + 2, 10*fs - 4*startOff, end}
				// what is requested: the same fraction on all feedback channels (3 values), a fraction of its own on
				// every feedback channel (2 sets), a fraction on one feedback channel only (every channel), or two
				// requests: a fraction of its own on every channel, then, a block later, another fraction on one
				// channel and 0 on its neighbour (every channel)
				singles := []float64{0.5}
				if r.Thorough() {
					singles = []float64{0.5, -1.5, 400}
				}
				switch kind := x.Choose(4); kind {
				case 0:
					s.mix = []float64{0.5, -1.5, 400}[x.Choose(3)]
					s.mixAt = x.Choose(3)
				case 1:
					v := x.Choose(2)
					s.mixPlan = []v04MixReq{v04MixDistinct(g, x.Choose(3), v)}
				case 2:
					k := x.Choose(words)
					f := singles[x.Choose(len(singles))]
					s.mixPlan = []v04MixReq{v04MixSingle(g, x.Choose(3), k, f)}
				case 3:
					k := x.Choose(words)
					at := x.Choose(2)
					second := v04MixReq{at: at + 1, idx: []int{2*k + 1, 2*((k+1)%words) + 1}, fr: []float64{-2.5, 0}}
					s.mixPlan = []v04MixReq{v04MixDistinct(g, at, 0), second}
				}
				return v04RunScript(x, s)
			})
			// family 5: a second run on the same source object, with the same or another geometry; a mix fraction may
			// be set in either run (on all feedback channels, or on a single one). Both starts go through the real
			// Configure and Sample (sampleCard on a scripted sampling session).
			r.DFS(fmt.Sprintf("restart/%dx%d/start%d", g.ncols, g.nrows, startOff), -1, func(x *vexp.X) vexp.Result {
				mk := func(g v04Geom, startOff, variant int) *v04Script {
					fs := 4 * g.ncols * g.nrows
					s := &v04Script{g: g, startOff: startOff, ext: noExt(g), mixAt: -1, frameRate: v04SlowRate, sample: v04SampleScript(g, variant)}
					s.avail = []int{3*fs - 4*startOff, 7*fs - 4*startOff + 2, 10*fs - 4*startOff, v04Frames*fs - 4*startOff}
					s.ext[6][g.nrows-1] = true
					s.devnum = startOff & 1
					return s
				}
				// single-channel requests: quick takes one feedback channel per (geometry, start offset) - which one moves
				// with the start offset -, thorough every feedback channel
				nsingle := func(g v04Geom) int {
					if r.Thorough() {
						return g.ncols * g.nrows
					}
					return 1
				}
				s1 := mk(g, startOff, 0)
				switch m := x.Choose(4 + nsingle(g)); {
				case m == 0:
				case m == 1:
					s1.mix, s1.mixAt = 0.5, 0
				case m == 2:
					s1.mix, s1.mixAt, s1.mixChans = 400, 1, []int{1}
				case m == 3:
					s1.mixPlan = []v04MixReq{v04MixDistinct(g, 0, 0)}
				default:
					s1.mixPlan = []v04MixReq{v04MixSingle(g, 1, 1+startOff+(m-4), -1.5)}
				}
				g2 := geoms[x.Choose(len(geoms))]
				n2 := g2.ncols * g2.nrows
				if n2 > 3 {
					n2 = 3
				}
				so2 := x.Choose(n2)
				s2 := mk(g2, so2, 1)
				s2.devnum = s1.devnum
				switch m := x.Choose(4 + nsingle(g2)); {
				case m == 0:
				case m == 1:
					s2.mix, s2.mixAt = -1.5, 1
				case m == 2:
					s2.mix, s2.mixAt, s2.mixChans = 0.5, 0, []int{2*g2.ncols*g2.nrows - 1}
				case m == 3:
					s2.mixPlan = []v04MixReq{v04MixDistinct(g2, 1, 1)}
				default:
					s2.mixPlan = []v04MixReq{v04MixSingle(g2, 0, g2.ncols*g2.nrows-2-so2-(m-4), 400)}
				}
				return v04Restart(x, s1, s2)
			})
			// family 4: a gap of lost words, at every word offset of a three-frame window around a read boundary
			// (last frame of the read before it, first and second frame of the read after it: a loss noticed at the
			// start of a read, and one in the middle of a read), for several chunkings incl. a too-short read right
			// after the loss and reads that are not frame-aligned.
			const gapFrames = 32
			gapEnd := gapFrames*fs - 4*startOff
			for ci, chunk := range v04GapChunkings(fs, startOff, gapEnd) {
				ci, chunk := ci, chunk
				r.DFSSharded(fmt.Sprintf("gap/%dx%d/start%d/chunk%d", g.ncols, g.nrows, startOff, ci), -1, 2, func(x *vexp.X) vexp.Result {
					s := &v04Script{g: g, startOff: startOff, mixAt: -1}
					s.ext = make([][]bool, gapFrames)
					for f := range s.ext {
						s.ext[f] = make([]bool, g.nrows)
					}
					s.avail = append([]int{}, chunk.avail...)
					lens := []int{1, 2, g.ncols, words - 1, words + 1, 2*words - 1, 2*words + 1, 3*words + g.ncols}
					gl := lens[x.Choose(len(lens))]
					pos := x.Choose(3 * words) // word offset of the gap start relative to (boundary - one frame)
					if gl < 1 || gl%words == 0 {
						return vexp.Result{Outcome: "gap-not-observable"}
					}
					s.gapA = chunk.boundary - fs + 4*pos
					s.gapB = s.gapA + 4*gl
					if s.gapA <= s.avail[0] || s.gapB+6*fs > gapEnd {
						return vexp.Result{Outcome: "gap-out-of-range"}
					}
					s.ext[25][0] = true
					return v04RunScript(x, s)
				})
			}
		}
	}
}
