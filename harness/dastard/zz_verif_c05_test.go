//go:build verif

package dastard

// C05 — output files (LJH 2.2, LJH 3, OFF) are well-formed and hold exactly the records.
// Engine A: DFS over histories {record ch0, record ch1, flush, pause, unpause, STOP+START} pushed through
// the real WriteControl / AnalyzeData / PublishData with a source of non-trivial identity; after the
// final STOP every file of every run is decoded with the independent decoders (zz_verif_files_test.go)
// and compared field by field with the source's true parameters and the accepted records.
// A second family drives ljh.Writer / ljh.Writer3 / off.Writer directly with extreme parameters.

import (
	"encoding/binary"
	"fmt"
	"math"
	"os"
	"path/filepath"
	"sort"
	"strconv"
	"strings"
	"testing"
	"time"

	"github.com/usnistgov/dastard/internal/vexp"
	"github.com/usnistgov/dastard/ljh"
	"github.com/usnistgov/dastard/off"
	"gonum.org/v1/gonum/mat"
)

// ---------------------------------------------------------------------------------------------
// geometry / identity variants of the 2-channel source

type v05Geom struct {
	name      string
	npre      int
	nsamp     int
	rows      int
	cols      int
	rc        [2][2]int // (row, col) per channel
	sfDiv     int
	sfOff     [2]int
	rate      float64
	names     [2]string
	numbers   [2]int
	decimate  [2]int // 0 = decimation off, otherwise Decimate=true with this level
	projRows  int    // 1 or 2 (channel 0 only)
	srcName   string
	modelDesc string
}

func v05Geoms() []v05Geom {
	return []v05Geom{
		{name: "g0", npre: 3, nsamp: 6, rows: 2, cols: 3, rc: [2][2]int{{0, 1}, {1, 2}}, sfDiv: 1, sfOff: [2]int{0, 0}, rate: 1000,
			names: [2]string{"chan7", "chan12"}, numbers: [2]int{7, 12}, projRows: 2, srcName: "verif", modelDesc: "verif model"},
		{name: "g1", npre: 3, nsamp: 4, rows: 32, cols: 8, rc: [2][2]int{{31, 7}, {0, 0}}, sfDiv: 4, sfOff: [2]int{1, 3}, rate: 245098.0392156863,
			names: [2]string{"err3", "chan3"}, numbers: [2]int{3, 3}, projRows: 1, srcName: "Lancero", modelDesc: ""},
		{name: "g2", npre: 7, nsamp: 8, rows: 1, cols: 2, rc: [2][2]int{{0, 0}, {0, 1}}, sfDiv: 64, sfOff: [2]int{0, 63}, rate: 781250,
			names: [2]string{"chan0", "chan1"}, numbers: [2]int{0, 1}, projRows: 1, srcName: "Abaco", modelDesc: "one basis, \"quoted\" description"},
		{name: "g3", npre: 4, nsamp: 9, rows: 65535, cols: 65535, rc: [2][2]int{{65534, 65534}, {0, 65534}}, sfDiv: 65535, sfOff: [2]int{-1, 65534}, rate: 0.001,
			names: [2]string{"chan 5 é", "x"}, numbers: [2]int{100000, 99999}, decimate: [2]int{3, 1}, projRows: 2, srcName: "source with spaces", modelDesc: "décimé"},
		{name: "g4", npre: 3, nsamp: 40, rows: 4, cols: 1, rc: [2][2]int{{2, 0}, {3, 0}}, sfDiv: 4, sfOff: [2]int{2, 3}, rate: 62500,
			names: [2]string{"chan2", "chan3"}, numbers: [2]int{2, 3}, decimate: [2]int{0, 7}, projRows: 2, srcName: "Roach", modelDesc: "long records"},
		{name: "g5", npre: 5, nsamp: 6, rows: 2, cols: 2, rc: [2][2]int{{1, 1}, {0, 1}}, sfDiv: 2, sfOff: [2]int{1, 0}, rate: 3,
			names: [2]string{"chan3", "chan1"}, numbers: [2]int{3, 1}, projRows: 1, srcName: "SimPulse", modelDesc: "x: y"},
	}
}

// v05NewSource is vNewSource with the identity tables overridden before PrepareRun (which copies
// names and numbers into the processors).
func v05NewSource(g v05Geom) *vSource {
	ds := &AnySource{nchan: 2, name: g.srcName, sampleRate: g.rate, samplePeriod: time.Duration(float64(time.Second) / g.rate)}
	if err := ds.PrepareChannels(); err != nil {
		panic(err)
	}
	ds.rowColCodes = make([]RowColCode, 2)
	for i := 0; i < 2; i++ {
		ds.chanNames[i] = g.names[i]
		ds.chanNumbers[i] = g.numbers[i]
		ds.subframeOffsets[i] = g.sfOff[i]
		ds.rowColCodes[i] = rcCode(g.rc[i][0], g.rc[i][1], g.rows, g.cols)
	}
	ds.subframeDivisions = g.sfDiv
	if err := ds.PrepareRun(g.npre, g.nsamp); err != nil {
		panic(err)
	}
	s := &vSource{ds: ds}
	for i, dsp := range ds.processors {
		c := make(chan []*DataRecord, 256)
		dsp.PubRecordsChan = c
		dsp.PubSummariesChan = nil
		s.recs = append(s.recs, c)
		if g.decimate[i] > 0 {
			dsp.Decimate = true
			dsp.DecimateLevel = g.decimate[i]
		}
	}
	return s
}

// ---------------------------------------------------------------------------------------------
// model

type v05Exp struct {
	tag     int
	data    []uint16
	frame   int64
	nanos   int64
	npre    int
	ptMean  float32
	ptDelta float32
	resid   float32
	coefs   []float32
}

type v05Run struct {
	pattern string
	mask    int
	exp     [2][]v05Exp // records accepted while active and unpaused, per channel
}

type v05Model struct {
	g        v05Geom
	src      *vSource
	ds       *AnySource
	base     string
	projData []float64
	basData  []float64
	runs     []*v05Run
	active   bool
	paused   bool
	tag      int
	rot      int
	count    [2]int
	flushes  int
	pauses   int
	landed   int
}

var v05MaskOrder = []int{7, 1, 2, 4, 3, 5, 6}

func v05NextMask(m int) int {
	for i, v := range v05MaskOrder {
		if v == m {
			return v05MaskOrder[(i+1)%len(v05MaskOrder)]
		}
	}
	return 7
}

func v05MaskName(m int) string {
	var p []string
	if m&1 != 0 {
		p = append(p, "LJH22")
	}
	if m&2 != 0 {
		p = append(p, "LJH3")
	}
	if m&4 != 0 {
		p = append(p, "OFF")
	}
	return strings.Join(p, "+")
}

func v05NewModel(g v05Geom, base string, rot int) *v05Model {
	m := &v05Model{g: g, base: base, rot: rot, tag: 1}
	m.src = v05NewSource(g)
	m.ds = m.src.ds
	m.ds.writingState.BasePath = base
	n, k := g.nsamp, g.projRows
	proj := mat.NewDense(k, n, nil)
	basis := mat.NewDense(n, k, nil)
	for i := 0; i < k; i++ {
		for j := 0; j < n; j++ {
			proj.Set(i, j, math.Sqrt(float64(2+i*n+j))/float64(n)*float64(1-2*(j&1)))
			basis.Set(j, i, 1/math.Sqrt(float64(3+5*i+7*j)))
		}
	}
	if err := m.ds.ConfigureProjectorsBases(0, proj, basis, g.modelDesc); err != nil {
		panic(err)
	}
	m.projData = append([]float64{}, proj.RawMatrix().Data...)
	m.basData = append([]float64{}, basis.RawMatrix().Data...)
	return m
}

func (m *v05Model) close() {
	m.ds.WriteControl(&WriteControlConfig{Request: "STOP"})
	m.src.close()
	os.RemoveAll(m.base)
}

var (
	v05T1971 = time.Date(1971, 1, 1, 0, 0, 0, 999, time.UTC)
	v05T2200 = time.Date(2200, 1, 1, 0, 0, 0, 1, time.UTC)
)

const v05NVariants = 4 // full-length variants; channel 1 has a fifth, shorter one

// makeRecord builds the tagged record of the given variant. Every record is unique through its time stamp.
func (m *v05Model) makeRecord(ch, variant, tag int) *DataRecord {
	n, npre := m.g.nsamp, m.g.npre
	us := time.Duration(tag) * time.Microsecond
	rec := &DataRecord{channelIndex: ch, presamples: npre, sampPeriod: float32(1 / m.g.rate), voltsPerArb: 1}
	switch variant {
	case 0:
		rec.data = make([]RawType, n)
		rec.trigFrame = 0
		rec.trigTime = v05T1971.Add(us)
	case 1:
		rec.data = make([]RawType, n)
		for j := range rec.data {
			rec.data[j] = 0xffff
		}
		rec.data[n/2] = 0x8000
		rec.trigFrame = 1 << 40
		rec.trigTime = vT0.Add(us + 999)
		rec.signed = true
	case 2:
		rec.data = make([]RawType, n)
		for j := range rec.data {
			if j&1 == 0 {
				rec.data[j] = 0x7fff
			} else {
				rec.data[j] = 0x8000
			}
		}
		rec.trigFrame = -1
		rec.trigTime = v05T2200.Add(us)
	case 3:
		rec.data = make([]RawType, n)
		for j := range rec.data {
			rec.data[j] = RawType(tag*8 + j + ch*1000)
		}
		rec.trigFrame = 1<<53 + 1
		rec.trigTime = vT0.Add(us)
		rec.signed = true
	case 4: // shorter record with its own pre-trigger length (edge-multi style); channel 1 only
		rec.data = make([]RawType, n-1)
		for j := range rec.data {
			rec.data[j] = RawType(0xffff - j)
		}
		rec.presamples = npre - 1
		rec.trigFrame = FrameIndex(12345 + tag)
		rec.trigTime = vT0.Add(us + 500)
	}
	return rec
}

// publish pushes n records through the real AnalyzeData + PublishData in ONE call (a channel that
// triggers several times within one data block hands PublishData a batch) and notes what the files must hold.
func (m *v05Model) publish(x *vexp.X, ch int, accepted bool) (string, string) {
	return m.publishN(x, ch, 1, accepted)
}

func (m *v05Model) publishN(x *vexp.X, ch int, n int, accepted bool) (string, string) {
	nv := v05NVariants
	if ch == 1 {
		nv++
	}
	dsp := m.ds.processors[ch]
	var recs []*DataRecord
	var tags []int
	for k := 0; k < n; k++ {
		variant := (m.rot + m.count[ch]) % nv
		if n > 1 && variant >= v05NVariants {
			variant = 0 // the short-record variant of channel 1 is only used alone
		}
		m.count[ch]++
		tag := m.tag
		m.tag++
		recs = append(recs, m.makeRecord(ch, variant, tag))
		tags = append(tags, tag)
	}
	dsp.AnalyzeData(recs)
	var exps []v05Exp
	for k, rec := range recs {
		e := v05Exp{tag: tags[k], frame: int64(rec.trigFrame), nanos: rec.trigTime.UnixNano(), npre: rec.presamples,
			ptMean: float32(rec.pretrigMean), ptDelta: float32(rec.pretrigDelta), resid: float32(rec.residualStdDev)}
		for _, v := range rec.data {
			e.data = append(e.data, uint16(v))
		}
		for _, c := range rec.modelCoefs {
			e.coefs = append(e.coefs, float32(c))
		}
		exps = append(exps, e)
	}
	if err := dsp.DataPublisher.PublishData(recs); err != nil {
		return fmt.Sprintf("PublishData(channel %d, tags %v) failed: %v", ch, tags, err), "publish-error"
	}
	m.src.drain(ch)
	x.Logf("   %d record(s) tags %v ch%d in one PublishData call, accepted=%v", n, tags, ch, accepted)
	if accepted {
		r := m.runs[len(m.runs)-1]
		r.exp[ch] = append(r.exp[ch], exps...)
	}
	return "", ""
}

func (m *v05Model) start(x *vexp.X, mask int) (string, string) {
	err := m.ds.WriteControl(&WriteControlConfig{Request: "START", Path: m.base, WriteLJH22: mask&1 != 0, WriteLJH3: mask&2 != 0, WriteOFF: mask&4 != 0})
	x.Logf("START{%s} -> %v", v05MaskName(mask), err)
	if err != nil {
		return "START failed: " + err.Error(), "start-error"
	}
	m.active, m.paused = true, false
	m.runs = append(m.runs, &v05Run{pattern: m.ds.ComputeWritingState().FilenamePattern, mask: mask})
	return "", ""
}

func (m *v05Model) stop(x *vexp.X) (string, string) {
	err := m.ds.WriteControl(&WriteControlConfig{Request: "STOP"})
	x.Logf("STOP -> %v", err)
	if err != nil {
		return "STOP failed: " + err.Error(), "stop-error"
	}
	m.active, m.paused = false, false
	return "", ""
}

const (
	v05OpRec0 = iota
	v05OpRec1
	v05OpFlush
	v05OpPause
	v05OpUnpause
	v05OpRestart
	v05OpBatch0
	v05NOps
)

var v05OpNames = []string{"rec0", "rec1", "flush", "PAUSE", "UNPAUSE", "STOP+START", "batch0x3"}

func (m *v05Model) apply(x *vexp.X, op int) (string, string) {
	x.Steps++
	switch op {
	case v05OpRec0, v05OpRec1:
		return m.publish(x, op, m.active && !m.paused)
	case v05OpBatch0:
		return m.publishN(x, 0, 3, m.active && !m.paused)
	case v05OpFlush:
		x.Logf("flush")
		for _, dsp := range m.ds.processors {
			dsp.DataPublisher.Flush()
		}
		m.flushes++
	case v05OpPause:
		err := m.ds.WriteControl(&WriteControlConfig{Request: "PAUSE"})
		x.Logf("PAUSE -> %v", err)
		if err != nil {
			return "PAUSE failed: " + err.Error(), "pause-error"
		}
		m.paused = true
		m.pauses++
	case v05OpUnpause:
		err := m.ds.WriteControl(&WriteControlConfig{Request: "UNPAUSE"})
		x.Logf("UNPAUSE -> %v", err)
		if err != nil {
			return "UNPAUSE failed: " + err.Error(), "pause-error"
		}
		m.paused = false
	case v05OpRestart:
		mask := m.runs[len(m.runs)-1].mask
		if v, c := m.stop(x); v != "" {
			return v, c
		}
		// records arriving while writing is inactive must go nowhere
		for ch := 0; ch < 2; ch++ {
			if v, c := m.publish(x, ch, false); v != "" {
				return v, c
			}
		}
		return m.start(x, v05NextMask(mask))
	}
	return "", ""
}

// ---------------------------------------------------------------------------------------------
// oracle

func v05F32Same(a, b float32) bool {
	return math.Float32bits(a) == math.Float32bits(b) || (a != a && b != b)
}

func v05U16Same(a, b []uint16) bool {
	if len(a) != len(b) {
		return false
	}
	for i := range a {
		if a[i] != b[i] {
			return false
		}
	}
	return true
}

// v05LJHHeaderExact re-reads the ASCII header with exact-case keys ("Capitalization must be matched").
func v05LJHHeaderExact(path string, headerLen int) (map[string]string, []string) {
	b, _ := os.ReadFile(path)
	if headerLen > len(b) {
		headerLen = len(b)
	}
	h := map[string]string{}
	var keys []string
	for _, l := range strings.Split(string(b[:headerLen]), "\n") {
		if strings.HasPrefix(l, "#") {
			continue
		}
		if j := strings.Index(l, ": "); j > 0 {
			h[l[:j]] = l[j+2:]
			keys = append(keys, l[:j])
		}
	}
	return h, keys
}

// v05KeyClass turns a header key into a stable class suffix: the words before any parenthesis, lower case.
func v05KeyClass(key string) string {
	var w []string
	for _, f := range strings.Fields(key) {
		if strings.HasPrefix(f, "(") {
			break
		}
		w = append(w, strings.ToLower(f))
	}
	return strings.Join(w, "-")
}

type v05LJHTruth struct {
	pre, samples, fps                         int
	timebase                                  float64
	chNum, chIdx                              int
	chName                                    string
	rows, cols, row, col, sfDiv, sfOff, nchan int
	tsOffset                                  time.Time
}

// v05CheckLJH22Header compares every header field the document defines with the truth.
func v05CheckLJH22Header(path string, f *vLJHFile, t v05LJHTruth) (string, string) {
	h, keys := v05LJHHeaderExact(path, f.headerLen)
	bad := func(key, got, want string) (string, string) {
		return fmt.Sprintf("%s: LJH 2.2 header %q is %q, the true value is %s", filepath.Base(path), key, got, want), "ljh22-header-" + v05KeyClass(key)
	}
	wantInt := func(key string, want int) (string, string) {
		got, ok := h[key]
		if !ok {
			return fmt.Sprintf("%s: LJH 2.2 header lacks the key %q (keys present: %q)", filepath.Base(path), key, keys), "ljh22-header-key-missing"
		}
		if v, err := strconv.Atoi(got); err != nil || v != want {
			return bad(key, got, strconv.Itoa(want))
		}
		return "", ""
	}
	type kv struct {
		k string
		v int
	}
	for _, c := range []kv{{"Presamples", t.pre}, {"Total Samples", t.samples}, {"Number of samples per point", t.fps},
		{"Channel", t.chNum}, {"ChannelIndex (in dastard)", t.chIdx}, {"Number of rows", t.rows}, {"Number of columns", t.cols},
		{"Subframe divisions", t.sfDiv}, {"Subframe offset", t.sfOff}, {"Number of channels", t.nchan},
		{fmt.Sprintf("Row number (from 0-%d inclusive)", t.rows-1), t.row}, {fmt.Sprintf("Column number (from 0-%d inclusive)", t.cols-1), t.col}} {
		if v, cl := wantInt(c.k, c.v); v != "" {
			return v, cl
		}
	}
	if got, ok := h["Channel name"]; !ok || got != t.chName {
		return bad("Channel name", got, strconv.Quote(t.chName))
	}
	tb, err := strconv.ParseFloat(h["Timebase"], 64)
	if err != nil || !(math.Abs(tb-t.timebase) <= 1e-6*math.Abs(t.timebase)) {
		return bad("Timebase", h["Timebase"], fmt.Sprintf("%.9e", t.timebase))
	}
	to, err := strconv.ParseFloat(h["Timestamp offset (s)"], 64)
	wantTo := float64(t.tsOffset.UnixNano()) / 1e9
	if err != nil || !(math.Abs(to-wantTo) <= 2e-6) {
		return bad("Timestamp offset (s)", h["Timestamp offset (s)"], fmt.Sprintf("%.6f", wantTo))
	}
	return "", ""
}

func v05CheckLJH22Body(path string, f *vLJHFile, exp []v05Exp, sfDiv, sfOff int) (string, string) {
	name := filepath.Base(path)
	if len(f.records) != len(exp) {
		return fmt.Sprintf("%s holds %d records, %d were accepted (tags %v)", name, len(f.records), len(exp), v05Tags(exp)), "ljh22-record-count"
	}
	size := f.headerLen
	for i, e := range exp {
		r := f.records[i]
		size += 16 + 2*len(e.data)
		if want := e.frame*int64(sfDiv) + int64(sfOff); r.subframe != want {
			return fmt.Sprintf("%s record %d (tag %d): subframe count %d, expected frame %d * %d + %d = %d", name, i, e.tag, r.subframe, e.frame, sfDiv, sfOff, want), "ljh22-record-subframe"
		}
		if want := v05FloorDiv(e.nanos, 1000); r.timestamp != want {
			return fmt.Sprintf("%s record %d (tag %d): time stamp %d us, expected %d us", name, i, e.tag, r.timestamp, want), "ljh22-record-timestamp"
		}
		if !v05U16Same(r.data, e.data) {
			return fmt.Sprintf("%s record %d (tag %d): samples %v, expected %v", name, i, e.tag, r.data, e.data), "ljh22-record-samples"
		}
	}
	if f.size != size {
		return fmt.Sprintf("%s is %d bytes long, header (%d) plus records make %d", name, f.size, f.headerLen, size), "ljh22-file-length"
	}
	return "", ""
}

func v05FloorDiv(a, b int64) int64 {
	q := a / b
	if a%b != 0 && (a < 0) != (b < 0) {
		q--
	}
	return q
}

func v05Tags(exp []v05Exp) []int {
	var t []int
	for _, e := range exp {
		t = append(t, e.tag)
	}
	return t
}

func v05JSONPath(m map[string]interface{}, keys ...string) (interface{}, bool) {
	var cur interface{} = m
	for _, k := range keys {
		mm, ok := cur.(map[string]interface{})
		if !ok {
			return nil, false
		}
		cur, ok = mm[k]
		if !ok {
			return nil, false
		}
	}
	return cur, true
}

type v05JSONWant struct {
	path []string
	want interface{} // float64 or string
}

func v05CheckJSON(name, kind string, h map[string]interface{}, wants []v05JSONWant) (string, string) {
	for _, w := range wants {
		got, ok := v05JSONPath(h, w.path...)
		key := strings.Join(w.path, ".")
		if !ok {
			return fmt.Sprintf("%s: %s header lacks %s", name, kind, key), kind + "-header-key-missing"
		}
		same := false
		switch want := w.want.(type) {
		case float64:
			g, isf := got.(float64)
			same = isf && g == want
		case string:
			g, iss := got.(string)
			same = iss && g == want
		}
		if !same {
			return fmt.Sprintf("%s: %s header %s is %v, the true value is %v", name, kind, key, got, w.want), kind + "-header-" + strings.ToLower(key)
		}
	}
	return "", ""
}

func v05CheckLJH3Body(path string, f *vLJH3File, exp []v05Exp) (string, string) {
	name := filepath.Base(path)
	if len(f.records) != len(exp) {
		return fmt.Sprintf("%s holds %d records, %d were accepted (tags %v)", name, len(f.records), len(exp), v05Tags(exp)), "ljh3-record-count"
	}
	size := f.headerLen
	for i, e := range exp {
		r := f.records[i]
		size += 24 + 2*len(e.data)
		if !v05U16Same(r.data, e.data) {
			return fmt.Sprintf("%s record %d (tag %d): samples %v, expected %v", name, i, e.tag, r.data, e.data), "ljh3-record-samples"
		}
		if int(r.firstRising) != e.npre+1 {
			return fmt.Sprintf("%s record %d (tag %d): first-rising-sample index %d, expected presamples+1 = %d", name, i, e.tag, r.firstRising, e.npre+1), "ljh3-record-first-rising"
		}
		if r.frame != e.frame {
			return fmt.Sprintf("%s record %d (tag %d): frame count %d, expected %d", name, i, e.tag, r.frame, e.frame), "ljh3-record-frame"
		}
		if want := v05FloorDiv(e.nanos, 1000); r.timestamp != want {
			return fmt.Sprintf("%s record %d (tag %d): time stamp %d us, expected %d us", name, i, e.tag, r.timestamp, want), "ljh3-record-timestamp"
		}
	}
	if f.size != size {
		return fmt.Sprintf("%s is %d bytes long, header (%d) plus records make %d", name, f.size, f.headerLen, size), "ljh3-file-length"
	}
	return "", ""
}

func v05F64BitsSame(a, b []float64) bool {
	if len(a) != len(b) {
		return false
	}
	for i := range a {
		if math.Float64bits(a[i]) != math.Float64bits(b[i]) {
			return false
		}
	}
	return true
}

func v05CheckOFFBody(path string, f *vOFFFile, exp []v05Exp, proj, basis []float64, wantSamples func(e v05Exp) (int32, int32)) (string, string) {
	name := filepath.Base(path)
	if !v05F64BitsSame(f.projectors, proj) {
		return fmt.Sprintf("%s: projector matrix in the file %v differs from the loaded one %v", name, f.projectors, proj), "off-projectors"
	}
	if !v05F64BitsSame(f.basis, basis) {
		return fmt.Sprintf("%s: basis matrix in the file %v differs from the loaded one %v", name, f.basis, basis), "off-basis"
	}
	if len(f.records) != len(exp) {
		return fmt.Sprintf("%s holds %d records, %d were accepted (tags %v)", name, len(f.records), len(exp), v05Tags(exp)), "off-record-count"
	}
	size := f.headerLen
	for i, e := range exp {
		r := f.records[i]
		size += 36 + 4*len(e.coefs)
		ns, np := wantSamples(e)
		if r.nsamp != ns || r.npre != np {
			return fmt.Sprintf("%s record %d (tag %d): (samples, presamples) = (%d, %d), expected (%d, %d)", name, i, e.tag, r.nsamp, r.npre, ns, np), "off-record-lengths"
		}
		if r.frame != e.frame {
			return fmt.Sprintf("%s record %d (tag %d): frame count %d, expected %d", name, i, e.tag, r.frame, e.frame), "off-record-frame"
		}
		if r.timestamp != e.nanos {
			return fmt.Sprintf("%s record %d (tag %d): time stamp %d ns, expected %d ns", name, i, e.tag, r.timestamp, e.nanos), "off-record-timestamp"
		}
		if !v05F32Same(r.ptMean, e.ptMean) || !v05F32Same(r.ptDelta, e.ptDelta) || !v05F32Same(r.resid, e.resid) {
			return fmt.Sprintf("%s record %d (tag %d): (pretrigger mean, delta, residual) = (%v, %v, %v), expected (%v, %v, %v)", name, i, e.tag,
				r.ptMean, r.ptDelta, r.resid, e.ptMean, e.ptDelta, e.resid), "off-record-summary"
		}
		if len(r.coefs) != len(e.coefs) {
			return fmt.Sprintf("%s record %d (tag %d): %d coefficients, expected %d", name, i, e.tag, len(r.coefs), len(e.coefs)), "off-record-coefs"
		}
		for k := range e.coefs {
			if !v05F32Same(r.coefs[k], e.coefs[k]) {
				return fmt.Sprintf("%s record %d (tag %d): coefficients %v, expected %v", name, i, e.tag, r.coefs, e.coefs), "off-record-coefs"
			}
		}
	}
	if f.size != size {
		return fmt.Sprintf("%s is %d bytes long, header+matrices (%d) plus records make %d", name, f.size, f.headerLen, size), "off-file-length"
	}
	return "", ""
}

func v05Malformed(kind string, err error) (string, string) {
	cl := kind + "-malformed"
	if strings.Contains(err.Error(), "partial record") {
		cl = kind + "-partial-record"
	}
	return err.Error(), cl
}

// checkFiles decodes every file of every run and compares it with the model.
func (m *v05Model) checkFiles(x *vexp.X) (string, string) {
	g := m.g
	seenPattern := map[string]bool{}
	for ri, run := range m.runs {
		if seenPattern[run.pattern] {
			return fmt.Sprintf("run %d re-uses the file pattern %s", ri, run.pattern), "start-reuses-directory"
		}
		seenPattern[run.pattern] = true
		expected := map[string]bool{fmt.Sprintf(run.pattern, "experiment_state", "txt"): true}
		for ch := 0; ch < 2; ch++ {
			dsp := m.ds.processors[ch]
			fps := 1
			if g.decimate[ch] > 0 {
				fps = g.decimate[ch]
			}
			for _, typ := range []string{"ljh", "ljh3", "off"} {
				fn := fmt.Sprintf(run.pattern, dsp.Name, typ)
				enabled := map[string]bool{"ljh": run.mask&1 != 0, "ljh3": run.mask&2 != 0, "off": run.mask&4 != 0 && ch == 0}[typ]
				var exp []v05Exp
				if enabled {
					for _, e := range run.exp[ch] {
						if typ == "ljh" && len(e.data) != g.nsamp {
							continue // LJH 2.2 holds fixed-length records only: ljh.Writer.WriteRecord rejects the record
						}
						exp = append(exp, e)
					}
				}
				_, err := os.Stat(fn)
				exists := err == nil
				x.Logf("run %d (%s) ch%d %s: exists=%v, expecting tags %v", ri, v05MaskName(run.mask), ch, typ, exists, v05Tags(exp))
				if !enabled {
					if exists {
						return fmt.Sprintf("run %d started with {%s} has a file %s", ri, v05MaskName(run.mask), filepath.Base(fn)), "file-of-disabled-type"
					}
					continue
				}
				if !exists {
					if len(exp) > 0 {
						return fmt.Sprintf("run %d: %d records (tags %v) were accepted for channel %d but %s does not exist", ri, len(exp), v05Tags(exp), ch, filepath.Base(fn)), typ + "-file-missing"
					}
					continue
				}
				expected[fn] = true
				m.landed += len(exp)
				switch typ {
				case "ljh":
					f, err := vParseLJH22(fn)
					if err != nil {
						return v05Malformed("ljh22", err)
					}
					truth := v05LJHTruth{pre: g.npre, samples: g.nsamp, fps: fps, timebase: 1 / g.rate, chNum: g.numbers[ch], chIdx: ch, chName: g.names[ch],
						rows: g.rows, cols: g.cols, row: g.rc[ch][0], col: g.rc[ch][1], sfDiv: g.sfDiv, sfOff: g.sfOff[ch], nchan: 2, tsOffset: DastardStartTime}
					if v, c := v05CheckLJH22Header(fn, f, truth); v != "" {
						return v, c
					}
					if v, c := v05CheckLJH22Body(fn, f, exp, g.sfDiv, g.sfOff[ch]); v != "" {
						return v, c
					}
				case "ljh3":
					f, err := vParseLJH3(fn)
					if err != nil {
						return v05Malformed("ljh3", err)
					}
					wants := []v05JSONWant{{[]string{"frameperiod"}, 1 / g.rate},
						{[]string{"TDM", "NumberOfRows"}, float64(g.rows)}, {[]string{"TDM", "NumberOfColumns"}, float64(g.cols)},
						{[]string{"TDM", "Row"}, float64(g.rc[ch][0])}, {[]string{"TDM", "Column"}, float64(g.rc[ch][1])},
						{[]string{"TDM", "SubframeDivisions"}, float64(g.sfDiv)}, {[]string{"TDM", "SubframeOffset"}, float64(g.sfOff[ch])}}
					if v, c := v05CheckJSON(filepath.Base(fn), "ljh3", f.header, wants); v != "" {
						return v, c
					}
					if v, c := v05CheckLJH3Body(fn, f, exp); v != "" {
						return v, c
					}
				case "off":
					f, err := vParseOFF(fn)
					if err != nil {
						return v05Malformed("off", err)
					}
					wants := []v05JSONWant{{[]string{"FileFormatVersion"}, "0.3.0"},
						{[]string{"ChannelIndex"}, float64(ch)}, {[]string{"ChannelName"}, g.names[ch]}, {[]string{"ChannelNumberMatchingName"}, float64(g.numbers[ch])},
						{[]string{"MaxPresamples"}, float64(g.npre)}, {[]string{"MaxSamples"}, float64(g.nsamp)}, {[]string{"FramePeriodSeconds"}, 1 / g.rate},
						{[]string{"NumberOfBases"}, float64(g.projRows)},
						{[]string{"ModelInfo", "Projectors", "Rows"}, float64(g.projRows)}, {[]string{"ModelInfo", "Projectors", "Cols"}, float64(g.nsamp)},
						{[]string{"ModelInfo", "Basis", "Rows"}, float64(g.nsamp)}, {[]string{"ModelInfo", "Basis", "Cols"}, float64(g.projRows)},
						{[]string{"ModelInfo", "Description"}, g.modelDesc}, {[]string{"CreationInfo", "SourceName"}, g.srcName},
						{[]string{"ReadoutInfo", "NumberOfRows"}, float64(g.rows)}, {[]string{"ReadoutInfo", "NumberOfColumns"}, float64(g.cols)},
						{[]string{"ReadoutInfo", "NumberOfChans"}, float64(2)}, {[]string{"ReadoutInfo", "SubframeDivisions"}, float64(g.sfDiv)},
						{[]string{"ReadoutInfo", "RowNum"}, float64(g.rc[ch][0])}, {[]string{"ReadoutInfo", "ColumnNum"}, float64(g.rc[ch][1])},
						{[]string{"ReadoutInfo", "SubframeOffset"}, float64(g.sfOff[ch])}}
					if v, c := v05CheckJSON(filepath.Base(fn), "off", f.header, wants); v != "" {
						return v, c
					}
					ws := func(e v05Exp) (int32, int32) { return int32(len(e.data)), int32(e.npre) }
					if v, c := v05CheckOFFBody(fn, f, exp, m.projData, m.basData, ws); v != "" {
						return v, c
					}
				}
			}
		}
		// nothing else may live in the run directory
		ents, _ := os.ReadDir(filepath.Dir(run.pattern))
		for _, e := range ents {
			p := filepath.Join(filepath.Dir(run.pattern), e.Name())
			if !expected[p] {
				return fmt.Sprintf("run %d: unexpected file %s in the run directory", ri, e.Name()), "unexpected-file"
			}
		}
	}
	return "", ""
}

func v05Sizes(base string) map[string]int64 {
	sizes := map[string]int64{}
	filepath.Walk(base, func(p string, info os.FileInfo, err error) error {
		if err == nil && !info.IsDir() {
			sizes[p] = info.Size()
		}
		return nil
	})
	return sizes
}

var v05Seq int

// v05ScratchDir is where the per-execution directories live: $TMPDIR, or a private directory on the
// memory file system named by VERIF_C05_SCRATCH (thousands of mkdir/create/unlink per second are
// several times faster there than on the journalled disk below TMPDIR).
var v05ScratchDir string

func v05Scratch() string {
	if v05ScratchDir != "" {
		return v05ScratchDir
	}
	v05ScratchDir = os.Getenv("TMPDIR")
	if s := os.Getenv("VERIF_C05_SCRATCH"); s != "" {
		// remove what killed workers of earlier runs left behind
		if ents, err := os.ReadDir(s); err == nil {
			for _, e := range ents {
				if info, err := e.Info(); err == nil && strings.HasPrefix(e.Name(), "verif-c05-") && time.Since(info.ModTime()) > time.Hour {
					os.RemoveAll(filepath.Join(s, e.Name()))
				}
			}
		}
		if d, err := os.MkdirTemp(s, "verif-c05-"); err == nil {
			v05ScratchDir = d
		}
	}
	return v05ScratchDir
}

func v05RunHistory(x *vexp.X, g v05Geom, mask0, rot int, hist []int) vexp.Result {
	v05Seq++
	base := filepath.Join(v05Scratch(), fmt.Sprintf("c05_%d", v05Seq))
	os.MkdirAll(base, 0755)
	m := v05NewModel(g, base, rot)
	defer m.close()
	names := []string{fmt.Sprintf("[%s rot=%d] START{%s}", g.name, rot, v05MaskName(mask0))}
	fail := func(v, c string) vexp.Result {
		return vexp.Result{Violation: fmt.Sprintf("history %v: %s", names, v), Class: c}
	}
	if v, c := m.start(x, mask0); v != "" {
		return fail(v, c)
	}
	for _, op := range hist {
		names = append(names, v05OpNames[op])
		if v, c := m.apply(x, op); v != "" {
			return fail(v, c)
		}
	}
	names = append(names, "STOP")
	if v, c := m.stop(x); v != "" {
		return fail(v, c)
	}
	for ch, dsp := range m.ds.processors {
		if dsp.HasLJH22() || dsp.HasLJH3() || dsp.HasOFF() {
			return fail(fmt.Sprintf("after STOP channel %d still holds a writer", ch), "stop-leaves-writer")
		}
	}
	before := v05Sizes(base)
	for ch := 0; ch < 2; ch++ {
		if v, c := m.publish(x, ch, false); v != "" {
			return fail(v, c)
		}
	}
	after := v05Sizes(base)
	for p, s := range after {
		if b, ok := before[p]; !ok || b != s {
			return fail(fmt.Sprintf("%s was created or grew (%d -> %d bytes) after STOP", filepath.Base(p), b, s), "file-grows-after-stop")
		}
	}
	if v, c := m.checkFiles(x); v != "" {
		return fail(v, c)
	}
	nontrivial := m.landed > 0 && (m.flushes > 0 || m.pauses > 0 || len(m.runs) > 1)
	return vexp.Result{Nontrivial: nontrivial, Outcome: fmt.Sprintf("%s runs=%d landed=%d flush=%v pause=%v", g.name, len(m.runs), m.landed, m.flushes > 0, m.pauses > 0)}
}

// ---------------------------------------------------------------------------------------------
// (B) writer level: the three writers driven directly through their exported API

type v05WParams struct {
	name                        string
	pre, samples, fps           int
	sfDiv, sfOff                int
	rows, cols, nchan, row, col int
	chIdx, chNum                int
	timebase                    float64
	chanName, srcName           string
	tsOff                       time.Time
	nbases                      int
}

func v05WriterParams() []v05WParams {
	t0 := time.Date(2022, 11, 18, 22, 47, 34, 49000000, time.UTC)
	return []v05WParams{
		{name: "plain", pre: 256, samples: 1024, fps: 1, sfDiv: 32, sfOff: 12, rows: 32, cols: 1, nchan: 32, row: 12, col: 0, chIdx: 12, chNum: 12, timebase: 5e-8, chanName: "chan12", srcName: "Lancero", tsOff: t0, nbases: 3},
		{name: "zeros", pre: 0, samples: 1, fps: 0, sfDiv: 0, sfOff: 0, rows: 0, cols: 0, nchan: 0, row: 0, col: 0, chIdx: 0, chNum: 0, timebase: 1e-300, chanName: "", srcName: "", tsOff: time.Unix(0, 0), nbases: 1},
		{name: "pre=samples", pre: 5, samples: 5, fps: 1, sfDiv: 1, sfOff: 0, rows: 1, cols: 1, nchan: 1, row: 0, col: 0, chIdx: 0, chNum: 1, timebase: 1e300, chanName: "chan1", srcName: "Abaco", tsOff: t0, nbases: 5},
		{name: "large", pre: 39999, samples: 40000, fps: 1 << 30, sfDiv: 1 << 20, sfOff: -(1 << 20), rows: 1 << 31, cols: 1 << 31, nchan: 1 << 40, row: 1<<31 - 1, col: 1<<31 - 1, chIdx: 1 << 31, chNum: 1 << 40, timebase: 1.0 / 3, chanName: "a rather long name with spaces, commas: colons and ünicöde 中", srcName: "src: x", tsOff: time.Date(2261, 1, 1, 0, 0, 0, 1, time.UTC), nbases: 2},
		{name: "negative", pre: 3, samples: 7, fps: 1, sfDiv: 64, sfOff: -5, rows: 3, cols: 2, nchan: 6, row: -1, col: -2, chIdx: -3, chNum: -4, timebase: 1.28e-6, chanName: "#chan", srcName: "Roach", tsOff: time.Date(1971, 1, 1, 0, 0, 0, 0, time.UTC), nbases: 1},
		{name: "hash-names", pre: 4, samples: 6, fps: 2, sfDiv: 2, sfOff: 1, rows: 2, cols: 2, nchan: 4, row: 1, col: 1, chIdx: 3, chNum: 4, timebase: 9.9999995e-7, chanName: "chan4 #x", srcName: "x", tsOff: t0, nbases: 2},
	}
}

type v05WRec struct {
	frame, nanos int64
	data         []uint16
}

func v05WRecords(p v05WParams, n int, variable bool) []v05WRec {
	frames := []int64{0, 1 << 40, -1, math.MaxInt64}
	times := []int64{v05T1971.UnixNano(), vT0.UnixNano() + 999, v05T2200.UnixNano()}
	var out []v05WRec
	for i := 0; i < n; i++ {
		l := p.samples
		if variable {
			l = []int{p.samples, 0, 1}[i%3]
		}
		d := make([]uint16, l)
		for j := range d {
			d[j] = []uint16{0, 0x7fff, 0x8000, 0xffff}[(i+j)%4]
		}
		out = append(out, v05WRec{frame: frames[(i+len(p.name))%len(frames)], nanos: times[i%len(times)] + int64(i)*1000, data: d})
	}
	return out
}

func v05WriterLevel(x *vexp.X, kind string, p v05WParams) vexp.Result {
	v05Seq++
	dir := filepath.Join(v05Scratch(), fmt.Sprintf("c05w_%d", v05Seq))
	os.MkdirAll(dir, 0755)
	defer os.RemoveAll(dir)
	nrec := x.Choose(4)
	flushAt := x.Choose(nrec + 2) // 0 = never, k = after k-1 records (1 = right after the header)
	x.Steps = nrec + 1
	fail := func(v, c string) vexp.Result {
		return vexp.Result{Violation: fmt.Sprintf("%s writer, parameters %q, %d records, flush position %d: %s", kind, p.name, nrec, flushAt, v), Class: c}
	}
	fn := filepath.Join(dir, "w."+kind)
	recs := v05WRecords(p, nrec, kind == "ljh3")
	var exp []v05Exp
	for i, r := range recs {
		exp = append(exp, v05Exp{tag: i, data: r.data, frame: r.frame, nanos: r.nanos, npre: p.pre})
	}
	switch kind {
	case "ljh":
		w := &ljh.Writer{ChannelIndex: p.chIdx, Presamples: p.pre, Samples: p.samples, FramesPerSample: p.fps, SubframeDivisions: p.sfDiv, Timebase: p.timebase,
			TimestampOffset: p.tsOff, NumberOfRows: p.rows, NumberOfColumns: p.cols, NumberOfChans: p.nchan, FileName: fn, DastardVersion: "0.0.0", GitHash: "abcdef0",
			SourceName: p.srcName, ChanName: p.chanName, ChannelNumberMatchingName: p.chNum, ColumnNum: p.col, RowNum: p.row, SubframeOffset: p.sfOff, PixelName: "px"}
		if err := w.CreateFile(); err != nil {
			return fail("CreateFile: "+err.Error(), "writer-error")
		}
		if err := w.WriteHeader(time.Unix(0, recs0Nanos(recs))); err != nil {
			return fail("WriteHeader: "+err.Error(), "writer-error")
		}
		for i, r := range recs {
			if flushAt == i+1 {
				w.Flush()
			}
			if err := w.WriteRecord(r.frame, r.nanos/1000, append([]uint16{}, r.data...)); err != nil {
				return fail("WriteRecord: "+err.Error(), "writer-error")
			}
		}
		if flushAt == nrec+1 {
			w.Flush()
		}
		w.Close()
		if w.RecordsWritten != nrec {
			return fail(fmt.Sprintf("RecordsWritten = %d", w.RecordsWritten), "writer-count")
		}
		f, err := vParseLJH22(fn)
		if err != nil {
			v, c := v05Malformed("ljh22", err)
			return fail(v, c)
		}
		truth := v05LJHTruth{pre: p.pre, samples: p.samples, fps: p.fps, timebase: p.timebase, chNum: p.chNum, chIdx: p.chIdx, chName: p.chanName,
			rows: p.rows, cols: p.cols, row: p.row, col: p.col, sfDiv: p.sfDiv, sfOff: p.sfOff, nchan: p.nchan, tsOffset: p.tsOff}
		if v, c := v05CheckLJH22Header(fn, f, truth); v != "" {
			return fail(v, c)
		}
		if v, c := v05CheckLJH22Body(fn, f, exp, p.sfDiv, p.sfOff); v != "" {
			return fail(v, c)
		}
	case "ljh3":
		w := &ljh.Writer3{ChannelIndex: p.chIdx, ChannelName: p.chanName, Timebase: p.timebase, NumberOfRows: p.rows, NumberOfColumns: p.cols,
			SubframeDivisions: p.sfDiv, Row: p.row, Column: p.col, SubframeOffset: p.sfOff, FileName: fn}
		if err := w.CreateFile(); err != nil {
			return fail("CreateFile: "+err.Error(), "writer-error")
		}
		if err := w.WriteHeader(); err != nil {
			return fail("WriteHeader: "+err.Error(), "writer-error")
		}
		for i, r := range recs {
			if flushAt == i+1 {
				w.Flush()
			}
			if err := w.WriteRecord(int32(p.pre+1), r.frame, r.nanos/1000, append([]uint16{}, r.data...)); err != nil {
				return fail("WriteRecord: "+err.Error(), "writer-error")
			}
		}
		if flushAt == nrec+1 {
			w.Flush()
		}
		w.Close()
		f, err := vParseLJH3(fn)
		if err != nil {
			v, c := v05Malformed("ljh3", err)
			return fail(v, c)
		}
		wants := []v05JSONWant{{[]string{"frameperiod"}, p.timebase},
			{[]string{"TDM", "NumberOfRows"}, float64(p.rows)}, {[]string{"TDM", "NumberOfColumns"}, float64(p.cols)},
			{[]string{"TDM", "Row"}, float64(p.row)}, {[]string{"TDM", "Column"}, float64(p.col)},
			{[]string{"TDM", "SubframeDivisions"}, float64(p.sfDiv)}, {[]string{"TDM", "SubframeOffset"}, float64(p.sfOff)}}
		if v, c := v05CheckJSON("w.ljh3", "ljh3", f.header, wants); v != "" {
			return fail(v, c)
		}
		if v, c := v05CheckLJH3Body(fn, f, exp); v != "" {
			return fail(v, c)
		}
	case "off":
		k, n := p.nbases, p.samples
		if n > 50 {
			n = 50 // the matrices are k x n and n x k: keep them small; MaxSamples in the header is independent
		}
		proj := mat.NewDense(k, n, nil)
		basis := mat.NewDense(n, k, nil)
		special := []float64{math.Inf(1), math.Copysign(0, -1), math.MaxFloat64, math.SmallestNonzeroFloat64, math.NaN(), -1.5}
		for i := 0; i < k; i++ {
			for j := 0; j < n; j++ {
				proj.Set(i, j, special[(i*n+j)%len(special)])
				basis.Set(j, i, float64(i*n+j)+0.1)
			}
		}
		w := off.NewWriter(fn, p.chIdx, p.chanName, p.chNum, p.pre, p.samples, p.timebase, proj, basis, "desc "+p.name, "0.0.0", "abcdef0", p.srcName,
			off.TimeDivisionMultiplexingInfo{NumberOfRows: p.rows, NumberOfColumns: p.cols, NumberOfChans: p.nchan, SubframeDivisions: p.sfDiv, ColumnNum: p.col, RowNum: p.row, SubframeOffset: p.sfOff},
			off.PixelInfo{XPosition: -1, YPosition: 2, Name: "px"})
		if err := w.CreateFile(); err != nil {
			return fail("CreateFile: "+err.Error(), "writer-error")
		}
		if err := w.WriteHeader(); err != nil {
			return fail("WriteHeader: "+err.Error(), "writer-error")
		}
		f32 := []float32{0, float32(math.Inf(-1)), math.MaxFloat32, -math.SmallestNonzeroFloat32, float32(math.NaN()), 1.5}
		for i := range exp {
			exp[i].ptMean, exp[i].ptDelta, exp[i].resid = f32[i%6], f32[(i+1)%6], f32[(i+2)%6]
			for b := 0; b < k; b++ {
				exp[i].coefs = append(exp[i].coefs, f32[(i+b+3)%6])
			}
			exp[i].npre = p.pre - i
		}
		for i, e := range exp {
			if flushAt == i+1 {
				w.Flush()
			}
			if err := w.WriteRecord(int32(p.samples-i), int32(e.npre), e.frame, e.nanos, e.ptMean, e.ptDelta, e.resid, append([]float32{}, e.coefs...)); err != nil {
				return fail("WriteRecord: "+err.Error(), "writer-error")
			}
		}
		if flushAt == nrec+1 {
			w.Flush()
		}
		w.Close()
		if w.RecordsWritten() != nrec {
			return fail(fmt.Sprintf("RecordsWritten = %d", w.RecordsWritten()), "writer-count")
		}
		f, err := vParseOFF(fn)
		if err != nil {
			v, c := v05Malformed("off", err)
			return fail(v, c)
		}
		wants := []v05JSONWant{{[]string{"FileFormatVersion"}, "0.3.0"},
			{[]string{"ChannelIndex"}, float64(p.chIdx)}, {[]string{"ChannelName"}, p.chanName}, {[]string{"ChannelNumberMatchingName"}, float64(p.chNum)},
			{[]string{"MaxPresamples"}, float64(p.pre)}, {[]string{"MaxSamples"}, float64(p.samples)}, {[]string{"FramePeriodSeconds"}, p.timebase},
			{[]string{"NumberOfBases"}, float64(k)},
			{[]string{"ModelInfo", "Projectors", "Rows"}, float64(k)}, {[]string{"ModelInfo", "Projectors", "Cols"}, float64(n)},
			{[]string{"ModelInfo", "Basis", "Rows"}, float64(n)}, {[]string{"ModelInfo", "Basis", "Cols"}, float64(k)},
			{[]string{"ModelInfo", "Description"}, "desc " + p.name}, {[]string{"CreationInfo", "SourceName"}, p.srcName},
			{[]string{"ReadoutInfo", "NumberOfRows"}, float64(p.rows)}, {[]string{"ReadoutInfo", "NumberOfColumns"}, float64(p.cols)},
			{[]string{"ReadoutInfo", "NumberOfChans"}, float64(p.nchan)}, {[]string{"ReadoutInfo", "SubframeDivisions"}, float64(p.sfDiv)},
			{[]string{"ReadoutInfo", "RowNum"}, float64(p.row)}, {[]string{"ReadoutInfo", "ColumnNum"}, float64(p.col)},
			{[]string{"ReadoutInfo", "SubframeOffset"}, float64(p.sfOff)}}
		if v, c := v05CheckJSON("w.off", "off", f.header, wants); v != "" {
			return fail(v, c)
		}
		idx := map[int]int{}
		for i, e := range exp {
			idx[e.tag] = i
		}
		ws := func(e v05Exp) (int32, int32) { return int32(p.samples - idx[e.tag]), int32(e.npre) }
		if v, c := v05CheckOFFBody(fn, f, exp, proj.RawMatrix().Data, basis.RawMatrix().Data, ws); v != "" {
			return fail(v, c)
		}
	}
	// the raw little-endian claim, spot-checked without the decoder: last record's last 2 bytes / 4 bytes
	if nrec > 0 && kind != "off" && len(recs[nrec-1].data) > 0 {
		b, _ := os.ReadFile(fn)
		last := recs[nrec-1].data
		if got := binary.LittleEndian.Uint16(b[len(b)-2:]); got != last[len(last)-1] {
			return fail(fmt.Sprintf("last two bytes of the file decode to %#x, the last sample written is %#x", got, last[len(last)-1]), "file-tail")
		}
	}
	return vexp.Result{Nontrivial: nrec > 0 && flushAt > 0, Outcome: fmt.Sprintf("writer %s %s n=%d", kind, p.name, nrec)}
}

func recs0Nanos(r []v05WRec) int64 {
	if len(r) == 0 {
		return 0
	}
	return r[0].nanos
}

// ---------------------------------------------------------------------------------------------

func TestVerifC05(t *testing.T) {
	r := vexp.NewRunner("C05")
	defer r.Finish()
	defer func() {
		if d := v05Scratch(); d != os.Getenv("TMPDIR") {
			os.RemoveAll(d)
		}
	}()
	geoms := v05Geoms()
	sweepDepth, histDepth := 4, 5
	if r.Thorough() {
		sweepDepth, histDepth = 5, 7
	}
	var gn []string
	for _, g := range geoms {
		gn = append(gn, fmt.Sprintf("%s(npre=%d nsamp=%d %dx%d div=%d off=%v rate=%g dec=%v bases=%d)", g.name, g.npre, g.nsamp, g.rows, g.cols, g.sfDiv, g.sfOff, g.rate, g.decimate, g.projRows))
	}
	sort.Strings(gn)
	r.SetBound(fmt.Sprintf("2-channel source (channel 0 with projectors, channel 1 without); ops {record ch0, record ch1, flush, PAUSE, UNPAUSE, STOP+START(next file-type set)} "+
		"between an initial START and a final STOP; record variants (0 / 0xffff+0x8000 / 0x7fff,0x8000 alternating / ramp; frames 0, 2^40, -1, 2^53+1; times 1971, 2021, 2200; signed flag; "+
		"channel 1 also a shorter record) assigned by rotation with every rotation offset; "+
		"sweep: %d identities [%s] x 7 file-type sets x 4 rotations x all histories of length %d; "+
		"history: identities g0,g1 x 4 rotations x initial set LJH22+LJH3+OFF x all histories of length %d; "+
		"writer level: ljh.Writer / Writer3 / off.Writer x %d extreme parameter sets x 0..3 records x every flush position",
		len(geoms), strings.Join(gn, "; "), sweepDepth, histDepth, len(v05WriterParams())))

	// family 1: identity sweep
	for gi := range geoms {
		for mask := 1; mask < 8; mask++ {
			for rot := 0; rot < 4; rot++ {
				g, mask, rot := geoms[gi], mask, rot
				r.DFS(fmt.Sprintf("sweep/%s/%s/rot%d", g.name, v05MaskName(mask), rot), -1, func(x *vexp.X) vexp.Result {
					var hist []int
					for len(hist) < sweepDepth {
						hist = append(hist, x.Choose(v05NOps))
					}
					return v05RunHistory(x, g, mask, rot, hist)
				})
			}
		}
	}
	// family 2: deep histories, sharded by the first two ops
	for gi := 0; gi < 2; gi++ {
		for rot := 0; rot < 4; rot++ {
			for a := 0; a < v05NOps; a++ {
				for b := 0; b < v05NOps; b++ {
					g, rot, a, b := geoms[gi], rot, a, b
					r.DFS(fmt.Sprintf("hist/%s/rot%d/%s/%s", g.name, rot, v05OpNames[a], v05OpNames[b]), -1, func(x *vexp.X) vexp.Result {
						hist := []int{a, b}
						for len(hist) < histDepth {
							hist = append(hist, x.Choose(v05NOps))
						}
						return v05RunHistory(x, g, 7, rot, hist)
					})
				}
			}
		}
	}
	// family 3: writer level
	for _, kind := range []string{"ljh", "ljh3", "off"} {
		for _, p := range v05WriterParams() {
			kind, p := kind, p
			r.DFS(fmt.Sprintf("writer/%s/%s", kind, p.name), -1, func(x *vexp.X) vexp.Result {
				return v05WriterLevel(x, kind, p)
			})
		}
	}
}
