//go:build verif

package dastard

// C06 — the reported writing state always matches what the channels really do.
// Engine A: BFS to a fixpoint over canonical writing states; every (state, request) transition is
// executed on the real WriteControl / PublishData with real files, plus an un-merged DFS cross-check.
//
// Record publication is part of the alphabet ("request sequences ... interleaved with record publication"):
// what happens between two requests is a tagged record on both channels, on channel 0 only, on channel 1
// only, or nothing at all (requests back to back). In the BFS a record on one channel is an operation of its
// own (any number of records, on any channel, between any two requests, down to none); the DFS families either
// publish on both channels after every request (the long ones) or choose one of the four patterns after
// every request (the probe families). So a channel may meet PAUSE / UNPAUSE / STOP / a second START before
// it has stored its first record of the run, while the other channel already has.
//
// Environment deviation (fault family): once per history, before one of the requests, the experiment-state
// file that is open at that moment starts to fail (its descriptor is closed under the server: every later
// write to it and its close return an error), so a later STOP / START / UNPAUSE-with-label reports an error
// part-way through. From the fault on NOTHING is demanded of a request's outcome (not that the state is
// unchanged, not that files are closed) except the core clause: a record published under a reported state
// that says active and not paused is in the files of the reported run, once per enabled type of an eligible
// channel, and a record published under any other reported state is nowhere.

import (
	"fmt"
	"os"
	"path/filepath"
	"sort"
	"strings"
	"testing"
	"time"

	"github.com/usnistgov/dastard/internal/vexp"
	"gonum.org/v1/gonum/mat"
)

type vWCReq struct {
	name         string
	req          string
	l22, l3, off bool
	user         string // not a write-control request but something the user does to the data directory: "rm-lowest", "rm-highest"
	probe        int    // not a request but record publication: one tagged record on every channel of this bit mask
}

const vWCBoth = 3 // both channels

// vWCProbeOps: record publication as operations of the alphabet, one channel at a time.
func vWCProbeOps() []vWCReq {
	return []vWCReq{
		{name: "RECORD-ch0", probe: 1},
		{name: "RECORD-ch1", probe: 2},
	}
}

// vWCProbeNames: what is published between two requests in the probe families (index = channel mask).
var vWCProbeNames = []string{"no-record", "record-ch0", "record-ch1", "record-both"}

// vWCUserOps: what a user legitimately does to the output tree between requests: removing (or moving away)
// the run directory of a finished run -- the lowest- or the highest-numbered one that no writer has open
// (no-op if there is none). The numbering then has a gap (or is shorter than the number of runs so far).
func vWCUserOps() []vWCReq {
	return []vWCReq{
		{name: "RMDIR-lowest-finished", user: "rm-lowest"},
		{name: "RMDIR-highest-finished", user: "rm-highest"},
	}
}

func vWCRequests() []vWCReq {
	var out []vWCReq
	for m := 1; m < 8; m++ {
		l22, l3, off := m&1 != 0, m&2 != 0, m&4 != 0
		n := "START{"
		if l22 {
			n += "LJH22 "
		}
		if l3 {
			n += "LJH3 "
		}
		if off {
			n += "OFF "
		}
		out = append(out, vWCReq{strings.TrimSpace(n) + "}", "Start", l22, l3, off, "", 0})
	}
	out = append(out, vWCReq{"START{}", "START", false, false, false, "", 0})
	out = append(out, vWCReq{"STOP", "Stop", false, false, false, "", 0})
	out = append(out, vWCReq{"PAUSE", "pause", false, false, false, "", 0})
	out = append(out, vWCReq{"UNPAUSE", "UNPAUSE", false, false, false, "", 0})
	out = append(out, vWCReq{"UNPAUSE lbl", "UNPAUSE lbl", false, false, false, "", 0})
	out = append(out, vWCReq{"UNPAUSElbl", "UNPAUSElbl", false, false, false, "", 0})
	out = append(out, vWCReq{"FOO", "FOO", false, false, false, "", 0})
	return out
}

type vWCRef struct{ active, paused, l22, l3, off bool }

type vWCStep struct {
	tag      int64
	chans    int          // channels (bit mask) the record with this tag was published on
	reported WritingState // state reported after the preceding request
	pattern  string       // file pattern in force (from the reported state)
	run      int          // index in vWCModel.runs of the run that pattern belongs to, -1 if none
}

// vWCRunDir: one successful START.
type vWCRunDir struct {
	pattern, dir string
	removed      bool // the user removed the directory after the run had finished: its files are no longer expected
}

type vWCModel struct {
	src      *vSource
	ds       *AnySource
	base     string
	npre     int
	nsamp    int
	ref      vWCRef
	steps    []vWCStep
	nextTag  int64
	runs     []vWCRunDir
	starts   int
	removals int
	records  int // tagged records published so far (per channel)
	faulted  bool // the experiment-state file has been made to fail (fault family): only the landing oracle applies from here on
	faultHit int  // requests that returned an error after the fault
}

// projMask: bit ch set = channel ch has projectors (and so is eligible for OFF files)
func vWCNew(base string, projMask int) *vWCModel {
	m := &vWCModel{base: base, npre: 3, nsamp: 6, nextTag: 100}
	m.src = vNewSource(2, m.npre, m.nsamp)
	m.ds = m.src.ds
	m.ds.subframeDivisions = 1
	m.ds.writingState.BasePath = base
	for ch := 0; ch < 2; ch++ {
		if projMask&(1<<ch) == 0 {
			continue
		}
		proj := mat.NewDense(2, m.nsamp, nil)
		basis := mat.NewDense(m.nsamp, 2, nil)
		for j := 0; j < m.nsamp; j++ {
			proj.Set(0, j, 1)
			proj.Set(1, j, float64(j))
			basis.Set(j, 0, 1.0/float64(m.nsamp))
		}
		if err := m.ds.ConfigureProjectorsBases(ch, proj, basis, "verif model"); err != nil {
			panic(err)
		}
	}
	return m
}

func (m *vWCModel) close() {
	m.ds.WriteControl(&WriteControlConfig{Request: "STOP"})
	m.src.close()
	os.RemoveAll(m.base)
}

// vRunDirNames: the existing run directories as sorted "day/number" names.
func vRunDirNames(base string) []string {
	var out []string
	for d := range vListRunDirs(base) {
		rel, _ := filepath.Rel(base, d)
		out = append(out, rel)
	}
	sort.Strings(out)
	return out
}

func vListRunDirs(base string) map[string]bool {
	out := map[string]bool{}
	days, _ := os.ReadDir(base)
	for _, d := range days {
		runs, _ := os.ReadDir(filepath.Join(base, d.Name()))
		for _, r := range runs {
			out[filepath.Join(base, d.Name(), r.Name())] = true
		}
	}
	return out
}

// publishTagged pushes one uniquely tagged record on every channel of the mask chans through the real
// AnalyzeData/PublishData (chans == 0: nothing is published, the requests follow each other back to back).
func (m *vWCModel) publishTagged(x *vexp.X, chans int) (string, string) {
	if chans == 0 {
		return "", ""
	}
	rep := m.ds.ComputeWritingState()
	tag := m.nextTag
	m.nextTag++
	for ch, dsp := range m.ds.processors {
		if chans&(1<<ch) == 0 {
			continue
		}
		m.records++
		data := make([]RawType, m.nsamp)
		for j := range data {
			data[j] = RawType(int(tag)*8 + j + ch*1000)
		}
		rec := &DataRecord{data: data, trigFrame: FrameIndex(tag), trigTime: vT0.Add(time.Duration(tag) * time.Millisecond),
			channelIndex: ch, presamples: m.npre, sampPeriod: 0.001, voltsPerArb: 1}
		recs := []*DataRecord{rec}
		dsp.AnalyzeData(recs)
		if err := dsp.DataPublisher.PublishData(recs); err != nil {
			return fmt.Sprintf("PublishData(channel %d, tag %d) failed: %v", ch, tag, err), "publish-error"
		}
		m.src.drain(ch)
	}
	run := -1
	for i := range m.runs {
		if rep.Active && !m.runs[i].removed && m.runs[i].pattern == rep.FilenamePattern {
			run = i
		}
	}
	m.steps = append(m.steps, vWCStep{tag: tag, chans: chans, reported: *rep, pattern: rep.FilenamePattern, run: run})
	x.Logf("   record tag %d published on %s under reported state active=%v paused=%v ljh22=%v ljh3=%v off=%v", tag, map[int]string{1: "channel 0 only", 2: "channel 1 only", 3: "both channels"}[chans], rep.Active, rep.Paused, rep.WriteLJH22, rep.WriteLJH3, rep.WriteOFF)
	return "", ""
}

func vWSKey(w *WritingState) string {
	if !w.Active {
		return fmt.Sprintf("inactive/paused=%v", w.Paused)
	}
	return fmt.Sprintf("active/paused=%v/%v%v%v", w.Paused, w.WriteLJH22, w.WriteLJH3, w.WriteOFF)
}

// userRemove removes the lowest- or highest-numbered run directory that no writer has open.
func (m *vWCModel) userRemove(x *vexp.X, rq vWCReq, probe int) (string, string) {
	before := m.ds.ComputeWritingState()
	inUse := map[string]bool{}
	held := m.ref.active || before.Active || m.ds.writingState.experimentStateFile != nil
	for _, dsp := range m.ds.processors {
		held = held || dsp.HasLJH22() || dsp.HasLJH3() || dsp.HasOFF()
	}
	if held {
		if before.FilenamePattern != "" {
			inUse[filepath.Dir(before.FilenamePattern)] = true
		}
		if len(m.runs) > 0 {
			inUse[m.runs[len(m.runs)-1].dir] = true
		}
	}
	var cand []string
	for d := range vListRunDirs(m.base) {
		if !inUse[d] {
			cand = append(cand, d)
		}
	}
	sort.Strings(cand)
	if len(cand) == 0 {
		x.Logf("%s -> no finished run directory: nothing done", rq.name)
	} else {
		victim := cand[0]
		if rq.user == "rm-highest" {
			victim = cand[len(cand)-1]
		}
		if err := os.RemoveAll(victim); err != nil {
			panic(err)
		}
		m.removals++
		for i := range m.runs {
			if m.runs[i].dir == victim {
				m.runs[i].removed = true
			}
		}
		x.Logf("%s -> removed %s ; run directories now %v", rq.name, strings.TrimPrefix(victim, m.base), vRunDirNames(m.base))
	}
	after := m.ds.ComputeWritingState()
	if vWSKey(before) != vWSKey(after) || before.FilenamePattern != after.FilenamePattern {
		return fmt.Sprintf("%s changed the reported state from %s to %s", rq.name, vWSKey(before), vWSKey(after)), "reported-state-wrong"
	}
	return m.publishTagged(x, probe)
}

// injectFault: the experiment-state file open at this moment fails from now on (no-op on the file system if
// none is open): its descriptor is closed under the server, so every later write to it and its close fail.
func (m *vWCModel) injectFault(x *vexp.X) {
	m.faulted = true
	if f := m.ds.writingState.experimentStateFile; f != nil {
		f.Close()
		x.Logf("FAULT: the experiment-state file %s fails from now on", strings.TrimPrefix(f.Name(), m.base))
	} else {
		x.Logf("FAULT: no experiment-state file is open: nothing fails")
	}
}

// requestAfterFault issues one request after the fault. Its outcome is not judged; the reported state after
// it is what the records published next are judged against (finish), and a run directory the reported
// pattern names is one whose files are decoded.
func (m *vWCModel) requestAfterFault(x *vexp.X, rq vWCReq, probe int) (string, string) {
	err := m.ds.WriteControl(&WriteControlConfig{Request: rq.req, Path: m.base, WriteLJH22: rq.l22, WriteLJH3: rq.l3, WriteOFF: rq.off})
	after := m.ds.ComputeWritingState()
	x.Logf("%s -> err=%v ; reported %s pattern %q", rq.name, err, vWSKey(after), strings.TrimPrefix(after.FilenamePattern, m.base))
	if err != nil {
		m.faultHit++
	}
	if after.FilenamePattern != "" {
		known := false
		for _, run := range m.runs {
			known = known || run.pattern == after.FilenamePattern
		}
		if !known {
			m.starts++
			m.runs = append(m.runs, vWCRunDir{pattern: after.FilenamePattern, dir: filepath.Dir(after.FilenamePattern)})
		}
	}
	return m.publishTagged(x, probe)
}

// request issues one write-control request and checks the reported state against the reference; then one
// tagged record is published on every channel of the mask probe. (An operation that is itself a record
// publication does just that.)
func (m *vWCModel) request(x *vexp.X, rq vWCReq, probe int) (string, string) {
	x.Steps++
	if rq.probe != 0 {
		return m.publishTagged(x, rq.probe)
	}
	if rq.user != "" {
		return m.userRemove(x, rq, probe)
	}
	if m.faulted {
		return m.requestAfterFault(x, rq, probe)
	}
	before := m.ds.ComputeWritingState()
	dirsBefore := vListRunDirs(m.base)
	err := m.ds.WriteControl(&WriteControlConfig{Request: rq.req, Path: m.base, WriteLJH22: rq.l22, WriteLJH3: rq.l3, WriteOFF: rq.off})
	after := m.ds.ComputeWritingState()
	x.Logf("%s -> err=%v ; reported %s", rq.name, err, vWSKey(after))
	up := strings.ToUpper(rq.req)
	if err != nil {
		if vWSKey(before) != vWSKey(after) || before.FilenamePattern != after.FilenamePattern {
			return fmt.Sprintf("rejected request %s (%v) changed the reported state from %s to %s", rq.name, err, vWSKey(before), vWSKey(after)), "rejected-request-changed-state"
		}
	} else {
		switch {
		case strings.HasPrefix(up, "START"):
			m.ref = vWCRef{true, false, rq.l22, rq.l3, rq.off}
			m.starts++
			dir := filepath.Dir(after.FilenamePattern)
			if dirsBefore[dir] {
				return fmt.Sprintf("successful %s writes into %s, which already existed", rq.name, dir), "start-reuses-directory"
			}
			if st, e := os.Stat(dir); e != nil || !st.IsDir() {
				return fmt.Sprintf("successful %s reports pattern %q but that directory does not exist", rq.name, after.FilenamePattern), "start-no-directory"
			}
			m.runs = append(m.runs, vWCRunDir{pattern: after.FilenamePattern, dir: dir})
		case strings.HasPrefix(up, "STOP"):
			m.ref.active, m.ref.paused = false, false
		case strings.HasPrefix(up, "PAUSE"):
			m.ref.paused = true
		case strings.HasPrefix(up, "UNPAUSE"):
			m.ref.paused = false
		default:
			return fmt.Sprintf("unknown request %s was accepted", rq.name), "garbage-accepted"
		}
		if after.Active != m.ref.active || (after.Active && after.Paused != m.ref.paused) ||
			(after.Active && (after.WriteLJH22 != m.ref.l22 || after.WriteLJH3 != m.ref.l3 || after.WriteOFF != m.ref.off)) {
			return fmt.Sprintf("after accepted %s the reported state is %s, expected active=%v paused=%v types=%v%v%v", rq.name, vWSKey(after), m.ref.active, m.ref.paused, m.ref.l22, m.ref.l3, m.ref.off), "reported-state-wrong"
		}
		if after.Active && after.FilenamePattern == "" {
			return fmt.Sprintf("after accepted %s writing is reported active with an empty file pattern", rq.name), "reported-state-wrong"
		}
		if strings.HasPrefix(up, "STOP") {
			for ch, dsp := range m.ds.processors {
				if dsp.HasLJH22() || dsp.HasLJH3() || dsp.HasOFF() {
					return fmt.Sprintf("after STOP channel %d still holds a writer", ch), "stop-leaves-writer"
				}
			}
		}
	}
	return m.publishTagged(x, probe)
}

func (m *vWCModel) canon() string {
	w := m.ds.ComputeWritingState()
	s := vWSKey(w)
	s += fmt.Sprintf("|esf=%v", m.ds.writingState.experimentStateFile != nil)
	for _, dsp := range m.ds.processors {
		// per channel: the pause flag, the writers, whether each has its file yet (header written), and whether
		// the channel has stored a record since writing last started or stopped (a channel that has not is in a
		// different state from one that has: its files do not exist yet)
		s += fmt.Sprintf("|p=%v,%v,%v,%v,w%v", dsp.WritingPaused, dsp.HasLJH22(), dsp.HasLJH3(), dsp.HasOFF(), dsp.numberWritten > 0)
		if dsp.HasLJH22() {
			s += fmt.Sprintf("h%v", dsp.LJH22.HeaderWritten)
		}
		if dsp.HasLJH3() {
			s += fmt.Sprintf("h%v", dsp.LJH3.HeaderWritten)
		}
		if dsp.HasOFF() {
			s += fmt.Sprintf("h%v", dsp.OFF.HeaderWritten())
		}
	}
	// the output tree: which run directories exist, and which one is being written into
	s += fmt.Sprintf("|dirs=%v", vRunDirNames(m.base))
	if w.FilenamePattern != "" {
		s += "|into=" + filepath.Base(filepath.Dir(w.FilenamePattern))
	}
	return s
}

// finish stops writing, pushes one more record (must not land anywhere) and decodes every file.
func (m *vWCModel) finish(x *vexp.X) (string, string) {
	stopFailed := false
	if err := m.ds.WriteControl(&WriteControlConfig{Request: "STOP"}); err != nil {
		if !m.faulted {
			return "final STOP failed: " + err.Error(), "stop-error"
		}
		// after the fault a failing STOP is the environment's doing: what it leaves behind is judged like the
		// outcome of any other request, by the record published next under the state reported then
		stopFailed = true
		m.faultHit++
		x.Logf("final STOP -> err=%v ; reported %s", err, vWSKey(m.ds.ComputeWritingState()))
	}
	sizes := map[string]int64{}
	filepath.Walk(m.base, func(p string, info os.FileInfo, err error) error {
		if err == nil && !info.IsDir() {
			sizes[p] = info.Size()
		}
		return nil
	})
	if v, c := m.publishTagged(x, vWCBoth); v != "" {
		return v, c
	}
	if stopFailed {
		// whatever a channel still buffers reaches its file before the files are decoded
		for _, dsp := range m.ds.processors {
			dsp.DataPublisher.Flush()
		}
		sizes = nil
	} else {
		m.steps = m.steps[:len(m.steps)-1]
	}
	var grew []string
	filepath.Walk(m.base, func(p string, info os.FileInfo, err error) error {
		if sizes != nil && err == nil && !info.IsDir() && sizes[p] != info.Size() {
			grew = append(grew, p)
		}
		return nil
	})
	if len(grew) > 0 {
		return fmt.Sprintf("files grew after STOP: %v", grew), "file-grows-after-stop"
	}
	// where did each tag land?
	type key struct {
		pattern, typ string
		ch           int
	}
	landed := map[key]map[int64]int{}
	for _, run := range m.runs {
		if run.removed {
			continue // the user took these files away
		}
		pat := run.pattern
		for ch, dsp := range m.ds.processors {
			for _, typ := range []string{"ljh", "ljh3", "off"} {
				fn := fmt.Sprintf(pat, dsp.Name, typ)
				if _, err := os.Stat(fn); err != nil {
					continue
				}
				k := key{pat, typ, ch}
				landed[k] = map[int64]int{}
				switch typ {
				case "ljh":
					f, err := vParseLJH22(fn)
					if err != nil {
						return err.Error(), "file-malformed"
					}
					for _, r := range f.records {
						landed[k][r.subframe]++
					}
				case "ljh3":
					f, err := vParseLJH3(fn)
					if err != nil {
						return err.Error(), "file-malformed"
					}
					for _, r := range f.records {
						landed[k][r.frame]++
					}
				case "off":
					f, err := vParseOFF(fn)
					if err != nil {
						return err.Error(), "file-malformed"
					}
					for _, r := range f.records {
						landed[k][r.frame]++
					}
				}
			}
		}
	}
	for _, st := range m.steps {
		for ch, dsp := range m.ds.processors {
			if st.chans&(1<<ch) == 0 {
				continue // no record with this tag was published on this channel
			}
			for _, typ := range []string{"ljh", "ljh3", "off"} {
				enabled := map[string]bool{"ljh": st.reported.WriteLJH22, "ljh3": st.reported.WriteLJH3, "off": st.reported.WriteOFF && dsp.HasProjectors()}[typ]
				want := st.reported.Active && !st.reported.Paused && enabled
				gone := st.run >= 0 && m.runs[st.run].removed
				if gone {
					want = false // stored in a run whose directory the user removed afterwards
				}
				got := 0
				for k, tags := range landed {
					if k.ch == ch && k.typ == typ {
						if n := tags[st.tag]; n > 0 {
							got += n
							if k.pattern != st.pattern {
								return fmt.Sprintf("record tag %d of channel %d was stored in %s files of run %q while the reported pattern was %q", st.tag, ch, typ, k.pattern, st.pattern), "record-in-wrong-run"
							}
						}
					}
				}
				if want && got != 1 {
					return fmt.Sprintf("record tag %d of channel %d: reported state %s says it is stored in the %s file, but it appears %d times", st.tag, ch, vWSKey(&st.reported), typ, got), "record-missing-although-state-says-writing"
				}
				if gone && got != 0 {
					return fmt.Sprintf("record tag %d of channel %d was stored in run %q, whose directory was removed after that run had finished, but it appears %d times in the %s files now there", st.tag, ch, st.pattern, got, typ), "record-of-removed-run-reappears"
				}
				if !want && got != 0 {
					return fmt.Sprintf("record tag %d of channel %d: reported state %s says it is not stored as %s, but it appears %d times", st.tag, ch, vWSKey(&st.reported), typ, got), "record-stored-although-state-says-not-writing"
				}
			}
		}
	}
	return "", ""
}

var vWCSeq int

var vWCMaskNames = []string{"proj-on-ch0", "proj-on-ch1", "proj-on-both", "proj-on-none"}
var vWCMasks = []int{1, 2, 3, 0}

// vWCRun: maxDirs > 0 = histories after which more than maxDirs run directories exist are checked but not
// extended (their canonical state is ""), which makes the BFS state space finite. probes[i] = channel mask of
// the tagged record published after hist[i] (probes == nil: both channels after every operation that is not
// itself a record publication).
func vWCRun(x *vexp.X, reqs []vWCReq, hist []int, probes []int, projMask, maxDirs int) (string, vexp.Result) {
	return vWCRunFault(x, reqs, hist, probes, projMask, maxDirs, -1)
}

// vWCRunFault: faultAt >= 0 = the experiment-state file starts to fail just before hist[faultAt].
func vWCRunFault(x *vexp.X, reqs []vWCReq, hist []int, probes []int, projMask, maxDirs, faultAt int) (string, vexp.Result) {
	vWCSeq++
	base := filepath.Join(os.Getenv("TMPDIR"), fmt.Sprintf("wc%d", vWCSeq))
	os.MkdirAll(base, 0755)
	m := vWCNew(base, projMask)
	defer m.close()
	var names []string
	for i, oi := range hist {
		if i == faultAt {
			m.injectFault(x)
			names = append(names, "FAULT(experiment-state file fails from now on)")
		}
		probe := vWCBoth
		if probes != nil {
			probe = probes[i]
			names = append(names, reqs[oi].name+"+"+vWCProbeNames[probe])
		} else {
			names = append(names, reqs[oi].name)
		}
		if v, c := m.request(x, reqs[oi], probe); v != "" {
			return "", vexp.Result{Violation: fmt.Sprintf("history %v: %s", names, v), Class: c}
		}
	}
	canon := m.canon()
	outcome := canon
	if maxDirs > 0 && len(vListRunDirs(base)) > maxDirs {
		canon = ""
	}
	nontrivial := m.starts > 0 && m.records > 0
	if v, c := m.finish(x); v != "" {
		return "", vexp.Result{Violation: fmt.Sprintf("history %v: %s", names, v), Class: c}
	}
	if faultAt >= 0 {
		// fault family: non-trivial = the fault was felt (a request returned an error after it)
		nontrivial = nontrivial && m.faultHit > 0
	}
	return canon, vexp.Result{Nontrivial: nontrivial, Outcome: outcome}
}

func vWCSortedNames(qs []vWCReq) string {
	names := []string{}
	for _, q := range qs {
		names = append(names, q.name)
	}
	sort.Strings(names)
	return strings.Join(names, ", ")
}

func TestVerifC06(t *testing.T) {
	r := vexp.NewRunner("C06")
	defer r.Finish()
	reqs := vWCRequests()
	// the BFS alphabet: requests, the user's removals, and record publication one channel at a time
	all := append(append(append([]vWCReq{}, reqs...), vWCUserOps()...), vWCProbeOps()...)
	noProbes := func(n int) []int { return make([]int, n) }
	// the reduced alphabet of the directory-numbering family: one START, STOP and the user's removals
	var dirOps []vWCReq
	for _, q := range all {
		if q.name == "START{LJH22}" || q.name == "STOP" || q.user != "" || (r.Thorough() && q.name == "START{LJH3 OFF}") {
			dirOps = append(dirOps, q)
		}
	}
	// the reduced alphabet of the deeper probe family: the legal requests, two STARTs with disjoint file types
	var coreOps []vWCReq
	for _, q := range reqs {
		if q.name == "START{LJH22}" || q.name == "START{LJH3 OFF}" || q.name == "STOP" || q.name == "PAUSE" || q.name == "UNPAUSE" {
			coreOps = append(coreOps, q)
		}
	}
	// the alphabet of the fault family: the legal requests and the UNPAUSE that writes to the experiment-state file
	var faultOps []vWCReq
	for _, q := range reqs {
		if q.name == "START{LJH22}" || q.name == "START{LJH3 OFF}" || q.name == "STOP" || q.name == "PAUSE" || q.name == "UNPAUSE" || q.name == "UNPAUSE lbl" {
			faultOps = append(faultOps, q)
		}
	}
	faultDepth := 4
	if r.Thorough() {
		faultDepth = 5
	}
	depth, maxDirs, dirDepth := 4, 2, 6
	// probe families, depth per projector assignment (index into vWCMasks; 0 = family not run for it)
	probeDepth, coreDepth := []int{2, 2, 2, 2}, []int{3, 3, 0, 0}
	if r.Thorough() {
		depth, maxDirs, dirDepth = 5, 3, 7
		probeDepth, coreDepth = []int{3, 2, 2, 2}, []int{4, 3, 0, 0}
	}
	depthList := func(ds []int) string {
		var out []string
		for mi, d := range ds {
			if d > 0 {
				out = append(out, fmt.Sprintf("%s: %d", vWCMaskNames[mi], d))
			}
		}
		return strings.Join(out, ", ")
	}
	r.SetBound(fmt.Sprintf("BFS to closure over %d requests (%s), %d user actions on the output tree (%s: the lowest-/highest-numbered run directory no writer has open is removed) "+
		"and %d record publications (%s: one tagged record on that channel; so between two requests any number of records on any of the channels, down to none), "+
		"histories not extended once more than %d run directories exist at the same time, "+
		"for each projector assignment of two channels (%s); plus un-merged DFS of all sequences of the %d requests to depth %d (quick: depth-1 for the two uniform assignments), "+
		"one tagged record on both channels after every request; "+
		"plus un-merged DFS of all sequences over {%s} to depth %d (proj-on-ch0), records as before; "+
		"plus probe families (un-merged DFS): after every request, the last one included, one of {%s} is published: all sequences of the %d requests to depth (%s) "+
		"and all sequences over {%s} to depth (%s); "+
		"plus the fault family (environment deviation, un-merged DFS, proj-on-ch0): all sequences over {%s} of length %d with ONE fault placed before the 2nd..last request "+
		"(the experiment-state file open at that moment fails from then on: descriptor closed under the server; the final STOP of the check may fail too), one tagged record on both channels after every request and after the final STOP; "+
		"from the fault on only the landing oracle applies (reported active and not paused <=> the record is in the files of the reported run)",
		len(reqs), vWCSortedNames(reqs), len(vWCUserOps()), vWCSortedNames(vWCUserOps()), len(vWCProbeOps()), vWCSortedNames(vWCProbeOps()), maxDirs, strings.Join(vWCMaskNames, ", "),
		len(reqs), depth, vWCSortedNames(dirOps), dirDepth,
		strings.Join(vWCProbeNames, ", "), len(reqs), depthList(probeDepth), vWCSortedNames(coreOps), depthList(coreDepth),
		vWCSortedNames(faultOps), faultDepth))
	for mi, mask := range vWCMasks {
		mask := mask
		r.BFS("bfs/"+vWCMaskNames[mi], vexp.BFSSpec{NumOps: len(all), Run: func(x *vexp.X, hist []int) (string, vexp.Result) {
			return vWCRun(x, all, hist, noProbes(len(hist)), mask, maxDirs)
		}})
	}
	for mi, mask := range vWCMasks {
		mask := mask
		for first := range reqs {
			first := first
			r.DFS(fmt.Sprintf("dfs/%s/first=%s", vWCMaskNames[mi], reqs[first].name), -1, func(x *vexp.X) vexp.Result {
				hist := []int{first}
				d := depth
				if !r.Thorough() && mask != 1 && mask != 2 {
					d = depth - 1 // quick: the uniform assignments one request shorter
				}
				for len(hist) < d {
					hist = append(hist, x.Choose(len(reqs)))
				}
				_, res := vWCRun(x, reqs, hist, nil, mask, 0)
				return res
			})
		}
	}
	// the directory numbering: long enough for two finished runs, a removal and another START
	for first := range dirOps {
		for second := range dirOps {
			first, second := first, second
			r.DFS(fmt.Sprintf("dfs-dirs/%s/first=%s,%s", vWCMaskNames[0], dirOps[first].name, dirOps[second].name), -1, func(x *vexp.X) vexp.Result {
				hist := []int{first, second}
				for len(hist) < dirDepth {
					hist = append(hist, x.Choose(len(dirOps)))
				}
				_, res := vWCRun(x, dirOps, hist, nil, vWCMasks[0], 0)
				return res
			})
		}
	}
	// the fault family: one I/O fault per history, before any request but the first (before the first no file is open)
	for first := range faultOps {
		for at := 1; at < faultDepth; at++ {
			first, at := first, at
			r.DFS(fmt.Sprintf("dfs-fault/%s/first=%s/fault-before-request-%d", vWCMaskNames[0], faultOps[first].name, at+1), -1, func(x *vexp.X) vexp.Result {
				hist := []int{first}
				for len(hist) < faultDepth {
					hist = append(hist, x.Choose(len(faultOps)))
				}
				_, res := vWCRunFault(x, faultOps, hist, nil, vWCMasks[0], 0, at)
				return res
			})
		}
	}
	// the probe families: what is published between two requests (and after the last one) is a choice
	probeFamily := func(family string, ops []vWCReq, mi, d int) {
		mask := vWCMasks[mi]
		for first := range ops {
			first := first
			r.DFS(fmt.Sprintf("%s/%s/first=%s", family, vWCMaskNames[mi], ops[first].name), -1, func(x *vexp.X) vexp.Result {
				hist := []int{first}
				probes := []int{x.Choose(len(vWCProbeNames))}
				for len(hist) < d {
					hist = append(hist, x.Choose(len(ops)))
					probes = append(probes, x.Choose(len(vWCProbeNames)))
				}
				_, res := vWCRun(x, ops, hist, probes, mask, 0)
				return res
			})
		}
	}
	for mi := range vWCMasks {
		if probeDepth[mi] > 0 {
			probeFamily("dfs-probe", reqs, mi, probeDepth[mi])
		}
	}
	for mi := range vWCMasks {
		if coreDepth[mi] > 0 {
			probeFamily("dfs-probe-core", coreOps, mi, coreDepth[mi])
		}
	}
}
