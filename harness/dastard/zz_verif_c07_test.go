//go:build verif

package dastard

// C07 — file writing is record-atomic and order-preserving under any disk timing.
// Engine B: the producer (header, records, flush, close through the real ljh / off writers) runs
// against the real asyncbufio.writeLoop goroutine under the controlled scheduler; a "disk stall" is
// the consumer not being scheduled. The queue depth constant is made settable (1000 is not
// reachable exhaustively; the code is identical).
//
// Publisher-level kinds ("offpub", "multipub": the writers behind a DataPublisher) additionally have pause / resume
// in their alphabet (v07Scenario.pauseAt / resumeAt, v07PauseVariants): SetPause(true) between two records - before
// the explicit Flush of that position - and possibly SetPause(false) later. A record published while paused is
// not accepted; the oracle is unchanged (every file == header ++ accepted whole records in order when an explicit
// Flush or the close returns, paused or not).
//
// Tick scenarios (v07Scenario.ticks > 0): writeLoop's periodic-flush ticker is a seam (asyncbufio.VerifNewTicker,
// default time.NewTicker) whose channel is fed by a clock thread under the scheduler, so that a bounded number of
// periodic flushes happen at arbitrary points; in these scenarios the consumer can also be stalled right before
// every call into the bufio.Writer (between draining the queue and the "disk" write) and every atomic operation
// is a scheduling point (asyncbufio.VerifStallPoints switches those opt-in points on).

import (
	"bytes"
	"fmt"
	"os"
	"path/filepath"
	"testing"
	"time"

	"github.com/usnistgov/dastard/asyncbufio"
	"github.com/usnistgov/dastard/internal/vexp"
	"github.com/usnistgov/dastard/internal/vhook"
	"github.com/usnistgov/dastard/ljh"
	"github.com/usnistgov/dastard/off"
	"gonum.org/v1/gonum/mat"
)

type v07Writer interface {
	create() error
	header() error
	record(k int) error
	flush()
	close()
	// targets: the files this writer feeds (one for a bare writer; one per active format for a DataPublisher).
	// Every target is checked when Flush and Close return.
	targets() []v07Target
}

// v07Target is one output file with the byte image expected of it.
type v07Target struct {
	name      string
	path      string
	recBytes  func(k int) []byte
	headerEnd func(b []byte) int // length of the header in the file (-1 if malformed)
	// took reports whether this file's writer accepted a record, given what record(k) returned (nil: err == nil)
	took func(err error) bool
}

// v07Pauser: a writer that sits behind a DataPublisher can be paused and resumed (DataPublisher.SetPause, what the
// PAUSE / UNPAUSE requests of WriteControl do to every channel). While writing is paused PublishData stores
// nothing (and reports no error): such a record is not accepted. Flush and Remove* stay what they are.
type v07Pauser interface {
	pause(on bool)
}

type v07Image interface {
	recBytes(k int) []byte
	headerEnd(b []byte) int
}

func v07One(path string, im v07Image) []v07Target {
	return []v07Target{{name: "file", path: path, recBytes: im.recBytes, headerEnd: im.headerEnd}}
}

// the three record layouts
func v07LJHBytes(subframe, ts int64, data []uint16) []byte {
	var b bytes.Buffer
	b.Write(v07le(uint64(subframe), 8))
	b.Write(v07le(uint64(ts), 8))
	for _, d := range data {
		b.Write(v07le(uint64(d), 2))
	}
	return b.Bytes()
}

func v07LJH3Bytes(first int32, frame, ts int64, data []uint16) []byte {
	var b bytes.Buffer
	b.Write(v07le(uint64(len(data)), 4))
	b.Write(v07le(uint64(uint32(first)), 4))
	b.Write(v07le(uint64(frame), 8))
	b.Write(v07le(uint64(ts), 8))
	for _, x := range data {
		b.Write(v07le(uint64(x), 2))
	}
	return b.Bytes()
}

func v07OFFBytes(ns, pre int32, frame, ts int64, f []float32) []byte {
	var b bytes.Buffer
	b.Write(v07le(uint64(uint32(ns)), 4))
	b.Write(v07le(uint64(uint32(pre)), 4))
	b.Write(v07le(uint64(frame), 8))
	b.Write(v07le(uint64(ts), 8))
	for _, x := range f {
		b.Write(v07le(uint64(mathFloat32bits(x)), 4))
	}
	return b.Bytes()
}

// ---- LJH 2.2
type v07LJH struct {
	w     *ljh.Writer
	nsamp int
}

func (v *v07LJH) create() error { return v.w.CreateFile() }
func (v *v07LJH) header() error { return v.w.WriteHeader(vT0) }
func (v *v07LJH) data(k int) []uint16 {
	d := make([]uint16, v.nsamp)
	for i := range d {
		d[i] = uint16(1000*k + i)
	}
	return d
}
func (v *v07LJH) record(k int) error   { return v.w.WriteRecord(int64(k), int64(1000+k), v.data(k)) }
func (v *v07LJH) flush()               { v.w.Flush() }
func (v *v07LJH) close()               { v.w.Close() }
func (v *v07LJH) targets() []v07Target { return v07One(v.w.FileName, v) }
func (v *v07LJH) recBytes(k int) []byte {
	return v07LJHBytes(int64(k), int64(1000+k), v.data(k))
}
func (v *v07LJH) headerEnd(b []byte) int { return v07LJHHeaderEnd(b) }
func v07LJHHeaderEnd(b []byte) int {
	i := bytes.Index(b, []byte("#End of Header\n"))
	if i < 0 {
		return -1
	}
	return i + len("#End of Header\n")
}

func v07le(v uint64, n int) []byte {
	out := make([]byte, n)
	for i := 0; i < n; i++ {
		out[i] = byte(v >> (8 * uint(i)))
	}
	return out
}

// ---- LJH 3
type v07LJH3 struct {
	w     *ljh.Writer3
	nsamp int
}

func (v *v07LJH3) create() error { return v.w.CreateFile() }
func (v *v07LJH3) header() error { return v.w.WriteHeader() }
func (v *v07LJH3) data(k int) []uint16 {
	d := make([]uint16, v.nsamp+k%2)
	for i := range d {
		d[i] = uint16(1000*k + i)
	}
	return d
}
func (v *v07LJH3) record(k int) error   { return v.w.WriteRecord(3, int64(k), int64(1000+k), v.data(k)) }
func (v *v07LJH3) flush()               { v.w.Flush() }
func (v *v07LJH3) close()               { v.w.Close() }
func (v *v07LJH3) targets() []v07Target { return v07One(v.w.FileName, v) }
func (v *v07LJH3) recBytes(k int) []byte {
	return v07LJH3Bytes(3, int64(k), int64(1000+k), v.data(k))
}
func (v *v07LJH3) headerEnd(b []byte) int { return v07LJH3HeaderEnd(b) }
func v07LJH3HeaderEnd(b []byte) int {
	n, err := vJSONHeaderEnd(b)
	if err != nil {
		return -1
	}
	return n
}

// ---- OFF
type v07OFF struct {
	w    *off.Writer
	nb   int
	ns   int
	path string
}

func (v *v07OFF) create() error { return v.w.CreateFile() }
func (v *v07OFF) header() error { return v.w.WriteHeader() }
func (v *v07OFF) coefs(k int) []float32 {
	c := make([]float32, v.nb)
	for i := range c {
		c[i] = float32(k) + float32(i)/4
	}
	return c
}
func (v *v07OFF) record(k int) error {
	return v.w.WriteRecord(int32(v.ns), 2, int64(k), int64(1000+k), float32(k)+0.5, 0.25, 1.5, v.coefs(k))
}
func (v *v07OFF) flush()               { v.w.Flush() }
func (v *v07OFF) close()               { v.w.Close() }
func (v *v07OFF) targets() []v07Target { return v07One(v.path, v) }
func (v *v07OFF) recBytes(k int) []byte {
	return v07OFFBytes(int32(v.ns), 2, int64(k), int64(1000+k), append([]float32{float32(k) + 0.5, 0.25, 1.5}, v.coefs(k)...))
}
func (v *v07OFF) headerEnd(b []byte) int {
	n, err := vJSONHeaderEnd(b)
	if err != nil {
		return -1
	}
	n += 8 * (v.nb*v.ns + v.ns*v.nb)
	if n > len(b) {
		return -1
	}
	return n
}

// ---- OFF through the channel's publisher (DataPublisher.SetOFF / PublishData / Flush / RemoveOFF): what the
// publisher does with a record before it reaches the writer is part of what ends up in the file.
type v07Pub struct {
	dp   DataPublisher
	nb   int
	ns   int
	path string
}

func (v *v07Pub) create() error {
	proj := mat.NewDense(v.nb, v.ns, []float64{1, 0, 0, 0, 0, 1, 0, 0})
	basis := mat.NewDense(v.ns, v.nb, []float64{1, 0, 0, 1, 0, 0, 0, 0})
	v.dp.SetOFF(0, 2, v.ns, 1, 1e-3, vT0, 1, 1, 1, 1, 0, 0, 0, v.path, "verif", "chan1", 1, proj, basis, "verif", Pixel{})
	return v.dp.OFF.CreateFile()
}
func (v *v07Pub) header() error { return v.dp.OFF.WriteHeader() }
func (v *v07Pub) rec(k int) *DataRecord {
	return &DataRecord{data: make([]RawType, v.ns), presamples: 2, trigFrame: FrameIndex(k), trigTime: time.Unix(0, int64(1000+k)),
		pretrigMean: float64(k) + 0.5, pretrigDelta: 0.25, residualStdDev: 1.5, modelCoefs: []float64{float64(k), float64(k) + 0.25}}
}
func (v *v07Pub) record(k int) error   { return v.dp.PublishData([]*DataRecord{v.rec(k)}) }
func (v *v07Pub) flush()               { v.dp.Flush() }
func (v *v07Pub) pause(on bool)        { v.dp.SetPause(on) }
func (v *v07Pub) close()               { v.dp.RemoveOFF() }
func (v *v07Pub) targets() []v07Target { return v07One(v.path, v) }
func (v *v07Pub) recBytes(k int) []byte {
	o := &v07OFF{nb: v.nb, ns: v.ns}
	return o.recBytes(k)
}
func (v *v07Pub) headerEnd(b []byte) int {
	o := &v07OFF{nb: v.nb, ns: v.ns}
	return o.headerEnd(b)
}

// ---- one publisher with all three file formats active (DataPublisher.SetLJH22 + SetLJH3 + SetOFF, as
// AnySource.writeControlStart sets a channel up when WriteLJH22, WriteLJH3 and WriteOFF are all requested): every
// record goes to three files through one PublishData call, DataPublisher.Flush must make all three current, and the
// files are created and their headers written by the first PublishData, as in production. The two LJH writers
// share ljh.WRITECHANCAPACITY (kept large: PublishData does not report an LJH record that was refused), the
// OFF writer's queue depth is the scenario's.
type v07Multi struct {
	dp   DataPublisher
	nb   int
	ns   int
	base string
}

const (
	v07MultiSubdiv = 4
	v07MultiSuboff = 1
	v07MultiPre    = 2
)

func (v *v07Multi) create() error {
	proj := mat.NewDense(v.nb, v.ns, []float64{1, 0, 0, 0, 0, 1, 0, 0})
	basis := mat.NewDense(v.ns, v.nb, []float64{1, 0, 0, 1, 0, 0, 0, 0})
	v.dp.SetLJH22(0, v07MultiPre, v.ns, 1, 1e-3, vT0, 1, 1, 1, v07MultiSubdiv, 0, 0, v07MultiSuboff, v.base+".ljh", "verif", "chan1", 1, Pixel{})
	v.dp.SetOFF(0, v07MultiPre, v.ns, 1, 1e-3, vT0, 1, 1, 1, v07MultiSubdiv, 0, 0, v07MultiSuboff, v.base+".off", "verif", "chan1", 1, proj, basis, "verif", Pixel{})
	v.dp.SetLJH3(0, 1e-3, 1, 1, v07MultiSubdiv, v07MultiSuboff, v.base+".ljh3")
	return nil
}
func (v *v07Multi) header() error     { return nil } // written by the first PublishData
func (v *v07Multi) nanos(k int) int64 { return int64(1000+k)*1000 + 7 }
func (v *v07Multi) data(k int) []uint16 {
	d := make([]uint16, v.ns)
	for i := range d {
		d[i] = uint16(1000*k + i)
	}
	return d
}
func (v *v07Multi) rec(k int) *DataRecord {
	r := &DataRecord{data: make([]RawType, v.ns), presamples: v07MultiPre, trigFrame: FrameIndex(k), trigTime: time.Unix(0, v.nanos(k)),
		pretrigMean: float64(k) + 0.5, pretrigDelta: 0.25, residualStdDev: 1.5, modelCoefs: []float64{float64(k), float64(k) + 0.25}}
	for i, d := range v.data(k) {
		r.data[i] = RawType(d)
	}
	return r
}
func (v *v07Multi) record(k int) error { return v.dp.PublishData([]*DataRecord{v.rec(k)}) }
func (v *v07Multi) flush()             { v.dp.Flush() }
func (v *v07Multi) pause(on bool)      { v.dp.SetPause(on) }
func (v *v07Multi) close() {
	v.dp.RemoveLJH22()
	v.dp.RemoveLJH3()
	v.dp.RemoveOFF()
}
func (v *v07Multi) targets() []v07Target {
	o := &v07OFF{nb: v.nb, ns: v.ns}
	// PublishData hands a record to the LJH2.2 writer, then to the LJH3 writer, then to the OFF writer, and its
	// error is the OFF writer's (or a CreateFile error, after which no file check can pass anyway).
	always := func(error) bool { return true }
	return []v07Target{
		{name: "LJH2.2 file", path: v.base + ".ljh", headerEnd: v07LJHHeaderEnd, took: always, recBytes: func(k int) []byte {
			return v07LJHBytes(int64(k)*v07MultiSubdiv+v07MultiSuboff, v.nanos(k)/1000, v.data(k))
		}},
		{name: "LJH3 file", path: v.base + ".ljh3", headerEnd: v07LJH3HeaderEnd, took: always, recBytes: func(k int) []byte {
			return v07LJH3Bytes(v07MultiPre+1, int64(k), v.nanos(k)/1000, v.data(k))
		}},
		{name: "OFF file", path: v.base + ".off", headerEnd: o.headerEnd, recBytes: func(k int) []byte {
			return v07OFFBytes(int32(v.ns), v07MultiPre, int64(k), v.nanos(k), []float32{float32(k) + 0.5, 0.25, 1.5, float32(k), float32(k) + 0.25})
		}},
	}
}

// ---- the asynchronous writer itself over a plain file (no format layer): a header and every record are one
// Write each, so a schedule is short and the tick scenarios can afford more ticks / preemptions.
type v07Raw struct {
	path  string
	depth int
	f     *os.File
	w     *asyncbufio.Writer
}

const v07RawHeader = "raw file\n#End of Header\n"

func (v *v07Raw) create() error {
	f, err := os.Create(v.path)
	if err != nil {
		return err
	}
	v.f = f
	v.w = asyncbufio.NewWriter(f, v.depth, 3*time.Second)
	return nil
}
func (v *v07Raw) header() error          { _, err := v.w.WriteString(v07RawHeader); return err }
func (v *v07Raw) record(k int) error     { _, err := v.w.Write(v.recBytes(k)); return err }
func (v *v07Raw) flush()                 { v.w.Flush() }
func (v *v07Raw) close()                 { v.w.Close(); v.f.Close() }
func (v *v07Raw) targets() []v07Target   { return v07One(v.path, v) }
func (v *v07Raw) recBytes(k int) []byte  { return []byte(fmt.Sprintf("<record %d>", k)) }
func (v *v07Raw) headerEnd(b []byte) int { return v07LJHHeaderEnd(b) }

func v07Make(kind string, path string, depth int) v07Writer {
	switch kind {
	case "raw":
		return &v07Raw{path: path, depth: depth}
	case "multipub":
		return &v07Multi{nb: 2, ns: 4, base: path}
	case "offpub":
		return &v07Pub{nb: 2, ns: 4, path: path}
	case "ljh22":
		return &v07LJH{w: &ljh.Writer{FileName: path, Samples: 4, Presamples: 2, Timebase: 1e-3, TimestampOffset: vT0, NumberOfRows: 1, NumberOfColumns: 1, NumberOfChans: 1, SubframeDivisions: 1, ChanName: "chan1"}, nsamp: 4}
	case "ljh3":
		return &v07LJH3{w: &ljh.Writer3{FileName: path, Timebase: 1e-3, NumberOfRows: 1, NumberOfColumns: 1}, nsamp: 3}
	}
	nb, ns := 2, 4
	proj := mat.NewDense(nb, ns, []float64{1, 0, 0, 0, 0, 1, 0, 0})
	basis := mat.NewDense(ns, nb, []float64{1, 0, 0, 1, 0, 0, 0, 0})
	w := off.NewWriter(path, 0, "chan1", 1, 2, ns, 1e-3, proj, basis, "verif", "v", "h", "src", off.TimeDivisionMultiplexingInfo{}, off.PixelInfo{})
	return &v07OFF{w: w, nb: nb, ns: ns, path: path}
}

type v07Scenario struct {
	kind    string
	depth   int
	nrec    int
	flushAt int // flush after this many records (-1 = no explicit flush)
	ticks   int // periodic-flush ticks a clock thread offers at arbitrary points (0: the real 3 s ticker, which never fires)
	// publisher kinds only (v07Pauser): writing is paused (SetPause(true)) after this many records, before the flush
	// of that position if there is one (0 = never), and resumed (SetPause(false)) after this many (0 = never;
	// otherwise > pauseAt). Records published in between are not accepted.
	pauseAt  int
	resumeAt int
}

func (sc v07Scenario) caseID() string {
	id := fmt.Sprintf("%s/depth%d/rec%d/flush%d", sc.kind, sc.depth, sc.nrec, sc.flushAt)
	if sc.pauseAt > 0 {
		id += fmt.Sprintf("/pause%d", sc.pauseAt)
		if sc.resumeAt > 0 {
			id += fmt.Sprintf("/resume%d", sc.resumeAt)
		}
	}
	return id
}

const v07ClockPoint = 930

// run one schedule of the scenario; returns the violation (if any).
func (sc v07Scenario) run(x *vexp.X, dir string) vexp.Result {
	ljh.WRITECHANCAPACITY = sc.depth
	off.WRITECHANCAPACITY = sc.depth
	if sc.kind == "multipub" {
		ljh.WRITECHANCAPACITY = 20
	}
	path := filepath.Join(dir, "f."+sc.kind)
	w := v07Make(sc.kind, path, sc.depth)
	tgts := w.targets()
	for _, t := range tgts {
		os.Remove(t.path)
	}
	var viol, class string
	fail := func(c, f string, a ...interface{}) {
		if viol == "" {
			viol, class = fmt.Sprintf(f, a...), c
		}
	}
	var accepted []int // records whose WriteRecord / PublishData returned nil (while writing was not paused)
	headerOK := false
	var rejected []int
	var ignored []int // records published while writing was paused: not accepted, nothing of them may reach a file
	paused := false
	took := make([][]int, len(tgts)) // per file: the records its writer accepted
	// checkTarget: the file must be header ++ whole accepted records in order, and hold all those accepted so far
	checkTarget := func(when string, t v07Target, accepted []int) {
		mustHave := len(accepted)
		if len(tgts) > 1 {
			when = t.name + " " + when
		}
		b, err := os.ReadFile(t.path)
		if err != nil {
			fail("file-unreadable", "%s: %v", when, err)
			return
		}
		if len(b) == 0 && mustHave == 0 && !headerOK {
			return
		}
		he := t.headerEnd(b)
		if he < 0 {
			if len(b) == 0 && headerOK {
				fail("accepted-data-not-in-file", "%s: the file is empty although the header and %d records were accepted before the call returned", when, mustHave)
			} else if len(b) > 0 {
				fail("partial-header", "%s: the file holds %d bytes that do not form a complete header (header accepted=%v)", when, len(b), headerOK)
			}
			return
		}
		body := b[he:]
		n := 0
		for _, k := range accepted {
			rb := t.recBytes(k)
			if len(body) == 0 {
				break
			}
			if len(body) < len(rb) || !bytes.Equal(body[:len(rb)], rb) {
				fail("partial-or-foreign-record", "%s: after %d whole records the file continues with %d bytes that are not the next accepted record #%d (accepted %v, rejected with error %v): a partially written or rejected record reached the file",
					when, n, len(body), k, accepted, rejected)
				return
			}
			body = body[len(rb):]
			n++
		}
		if len(body) != 0 {
			fail("partial-or-foreign-record", "%s: %d trailing bytes after the %d accepted records (accepted %v, rejected with error %v)", when, len(body), n, accepted, rejected)
			return
		}
		if n < mustHave {
			fail("accepted-data-not-in-file", "%s: only %d of the %d records accepted before the call returned are in the file", when, n, mustHave)
		}
	}
	checkFile := func(when string) {
		for i, t := range tgts {
			checkTarget(when, t, took[i])
		}
	}
	// the periodic-flush ticker: the real one, or (tick scenarios) a channel with the real ticker's one-element
	// buffer, fed by the clock thread: a tick may fire at any point of the execution and is taken by writeLoop
	// at any of its later selects; the clock leaves when the producer is done, so it never causes a deadlock report
	asyncbufio.VerifNewTicker = time.NewTicker
	asyncbufio.VerifStallPoints = sc.ticks > 0
	drivers := []func(){nil}
	ticksSent := 0
	var tickCh chan time.Time
	over := make(chan struct{})
	if sc.ticks > 0 {
		tickCh = make(chan time.Time, 1)
		asyncbufio.VerifNewTicker = func(time.Duration) *time.Ticker { return &time.Ticker{C: tickCh} }
		drivers = append(drivers, func() {
			for i := 0; i < sc.ticks; i++ {
				vhook.PSC(v07ClockPoint, []interface{}{tickCh, over}, []bool{true, false}, false)
				select {
				case tickCh <- time.Time{}:
					vhook.C(0)
					ticksSent++
				case <-over:
					vhook.C(1)
					return
				}
			}
		})
	}
	producer := func() {
		defer close(over)
		if err := w.create(); err != nil {
			fail("create-error", "CreateFile: %v", err)
			return
		}
		if err := w.header(); err == nil {
			headerOK = true
		}
		for k := 1; k <= sc.nrec; k++ {
			if !headerOK {
				break
			}
			err := w.record(k)
			if paused {
				// PublishData stores nothing while writing is paused: no writer was offered this record
				ignored = append(ignored, k)
			} else {
				if err == nil {
					accepted = append(accepted, k)
				} else {
					rejected = append(rejected, k)
				}
				for i, t := range tgts {
					if (t.took == nil && err == nil) || (t.took != nil && t.took(err)) {
						took[i] = append(took[i], k)
					}
				}
			}
			// PAUSE / UNPAUSE between two records. Nothing is demanded of the files when SetPause returns (it is
			// not a flush call of the property); an explicit Flush() that follows is one, paused or not.
			if p, ok := w.(v07Pauser); ok {
				if k == sc.pauseAt {
					p.pause(true)
					paused = true
				} else if k == sc.resumeAt && sc.pauseAt > 0 {
					p.pause(false)
					paused = false
				}
			}
			if k == sc.flushAt {
				w.flush()
				when := fmt.Sprintf("when Flush returned after record %d", k)
				if paused {
					when += " (writing paused)"
				}
				checkFile(when)
			}
		}
		w.close()
		checkFile("when Close returned")
	}
	// multipub: four goroutines (producer + three writeLoops) and ~130 steps, most of them selects with two ready
	// cases: delay-bounded there (a non-canonical select alternative or thread choice costs a deviation, too).
	drivers[0] = producer
	s := vhook.Run(x, vhook.Options{MaxSteps: 300, Names: []string{"producer", "clock"}, DelayBound: sc.kind == "multipub"}, drivers...)
	out := s.Outcome()
	surv := s.Release(2 * time.Second)
	asyncbufio.VerifNewTicker = time.NewTicker
	asyncbufio.VerifStallPoints = false
	if out.Pruned {
		return vexp.Result{Skip: true}
	}
	if out.PanicClass != "" {
		fail(out.PanicClass, "the producer panicked: %s", out.PanicText)
	} else if out.Deadlock {
		fail("deadlock", "deadlock: %v; schedule %s", out.Blocked, s.TraceString())
	} else if out.Horizon {
		fail("runaway", "no termination within %d steps; schedule %s", out.Steps, s.TraceString())
	} else if len(surv) > 0 {
		fail("goroutine-left", "goroutines still alive after Close returned: %v", surv)
	}
	if sc.ticks > 0 {
		// tick scenarios: non-trivial = writeLoop took its periodic-flush case at least once
		taken := ticksSent - len(tickCh)
		if viol != "" {
			viol = fmt.Sprintf("%s depth=%d records=%d flushAt=%d ticks offered=%d taken=%d: %s\nschedule: %s", sc.kind, sc.depth, sc.nrec, sc.flushAt, sc.ticks, taken, viol, s.TraceString())
		}
		return vexp.Result{Violation: viol, Class: class, Nontrivial: taken > 0,
			Outcome: fmt.Sprintf("acc=%v rej=%v hdr=%v ticks=%d", accepted, rejected, headerOK, taken)}
	}
	outcome := fmt.Sprintf("acc=%v rej=%v hdr=%v", accepted, rejected, headerOK)
	pauseTxt := ""
	if sc.pauseAt > 0 {
		outcome += fmt.Sprintf(" paused-after=%d resumed-after=%d not-stored=%v", sc.pauseAt, sc.resumeAt, ignored)
		pauseTxt = fmt.Sprintf(" SetPause(true) after record %d", sc.pauseAt)
		if sc.resumeAt > 0 {
			pauseTxt += fmt.Sprintf(" SetPause(false) after record %d", sc.resumeAt)
		}
		pauseTxt += fmt.Sprintf(" (published while paused, not stored: %v)", ignored)
	}
	if viol != "" {
		viol = fmt.Sprintf("%s depth=%d records=%d flushAt=%d%s: %s\nschedule: %s", sc.kind, sc.depth, sc.nrec, sc.flushAt, pauseTxt, viol, s.TraceString())
	}
	return vexp.Result{Violation: viol, Class: class, Nontrivial: len(rejected) > 0 || out.Preempt > 0, Outcome: outcome}
}

func TestVerifC07(t *testing.T) {
	r := vexp.NewRunner("C07")
	r.CrashTrace = true
	defer r.Finish()
	pb := 2
	if r.Thorough() {
		pb = 3
	}
	r.SetBound(fmt.Sprintf("all interleavings of producer (create, header, 2-3 records, optional flush, close) and the real writeLoop goroutine with at most %d preemptions, all select alternatives; writers LJH2.2, LJH3, OFF, OFF driven through DataPublisher.PublishData (one record per call), and one DataPublisher with LJH2.2, LJH3 and OFF all active (one PublishData per record, DataPublisher.Flush, Remove*; three writeLoop goroutines, delay-bounded: at most 2 departures from the canonical thread / select-case choice; all three files checked when Flush and Close return; quick: 2 records, flush after record 1 or none; OFF queue depth 20 or 9, LJH queue depth 20); both publisher-level writers also with writing paused (DataPublisher.SetPause(true)) after record p, immediately before the explicit Flush of that position, so that the Flush is issued while paused; records published while paused are not accepted and must not reach a file; quick: p = the flush position or 1, never resumed, and with 3 records / flush after record 1 paused after record 1 and resumed (SetPause(false)) after record 2; thorough: at OFF queue depth 9 every p, resumed never or after any later record, with and without an explicit flush; queue depth 2..20; tick scenarios (the bare asynchronous writer at depths 1 and 3, LJH2.2 depth 4, LJH3 depth 6, OFF depth 9; 1-2 records, no flush / flush after record 1 / after the last): a clock thread offers 1 periodic-flush tick (bare writer at depth 1: also 2) at arbitrary points, the consumer can also be stalled before every bufio Write / Flush call and every atomic operation is a scheduling point; at most 3 preemptions for the one-record LJH scenarios and the bare writer with one tick, 2 otherwise; LJH3 and OFF without the flush after record 1 of 2 (thorough: up to 3 records, all flush positions, 3 preemptions up to 2 records)", pb))
	dir := filepath.Join(os.Getenv("TMPDIR"), "c07")
	os.MkdirAll(dir, 0755)
	vhook.Doc(v07ClockPoint, "clock: select{tick|producer done}")
	var scs []v07Scenario
	for _, kind := range []string{"ljh22", "ljh3", "off", "offpub", "multipub"} {
		depths := map[string][]int{"ljh22": {2, 3, 4, 5}, "ljh3": {3, 5, 6, 7}, "off": {5, 8, 9, 12}, "offpub": {9, 20}, "multipub": {20, 9}}[kind]
		for _, d := range depths {
			if kind == "offpub" && d > 9 && !r.Thorough() {
				continue
			}
			for _, nrec := range []int{2, 3} {
				for _, fa := range []int{-1, 1, 2} {
					if fa > nrec {
						continue
					}
					if kind == "multipub" && !r.Thorough() && (nrec > 2 || fa > 1) {
						continue // four goroutines: the schedule space is much larger
					}
					scs = append(scs, v07Scenario{kind: kind, depth: d, nrec: nrec, flushAt: fa})
					scs = append(scs, v07PauseVariants(v07Scenario{kind: kind, depth: d, nrec: nrec, flushAt: fa}, r.Thorough())...)
				}
			}
		}
	}
	for _, sc := range scs {
		sc := sc
		pb := pb
		if sc.kind == "multipub" {
			pb = 2 // delay bound (see run)
		}
		r.DFSSharded(sc.caseID(), pb, 3, func(x *vexp.X) vexp.Result {
			return sc.run(x, dir)
		})
	}
	// the tick family: periodic flushes at arbitrary points, disk-stall points and atomics switched on
	for _, sc := range v07TickScenarios(r.Thorough(), false) {
		sc := sc
		r.DFSSharded(sc.tickCase("tick"), v07TickPB(sc, r.Thorough()), 3, func(x *vexp.X) vexp.Result {
			return sc.run(x, dir)
		})
	}
}

// v07PauseVariants: the pause / resume variants of a publisher-level scenario (the writer kinds behind a
// DataPublisher). Writing is paused after record pauseAt - before the explicit Flush of that position, so that
// "records accepted, PAUSE, Flush()" is a flush call made while paused - and possibly resumed after a later
// record; what is published in between is not accepted. quick: pause at or before the flush position, never
// resumed, and (3 records, flush after record 1) paused after record 1 and resumed after record 2;
// thorough: at OFF queue depth 9 every 1 <= pauseAt <= nrec, resumed never or after any later record, also without
// an explicit flush (at depth 20, where three preemptions make a scenario 10-20 times larger, quick's selection).
func v07PauseVariants(sc v07Scenario, thorough bool) []v07Scenario {
	if sc.kind != "offpub" && sc.kind != "multipub" {
		return nil
	}
	full := thorough && sc.depth <= 9
	var out []v07Scenario
	for pa := 1; pa <= sc.nrec; pa++ {
		for ra := 0; ra <= sc.nrec; ra++ {
			if ra != 0 && ra <= pa {
				continue
			}
			if !full {
				switch {
				case sc.flushAt < 0 || pa > sc.flushAt:
					continue // the explicit flush is issued while paused
				case ra != 0 && !(sc.nrec == 3 && sc.flushAt == 1 && ra == 2):
					continue
				case sc.nrec == 3 && sc.flushAt == 1 && ra == 0:
					continue // as 2 records / flush after 1 / pause after 1 with one more ignored record
				case sc.nrec == 3 && sc.flushAt == 2 && pa == 1:
					continue
				}
			}
			v := sc
			v.pauseAt, v.resumeAt = pa, ra
			out = append(out, v)
		}
	}
	return out
}

func (sc v07Scenario) tickCase(prefix string) string {
	return fmt.Sprintf("%s/%s/depth%d/rec%d/flush%d/ticks%d", prefix, sc.kind, sc.depth, sc.nrec, sc.flushAt, sc.ticks)
}

// v07TickScenarios: small scenarios (a tick and the extra points multiply the schedules) in which a clock thread
// offers `ticks` periodic-flush ticks at arbitrary points. "raw" is the asynchronous writer alone (one Write per
// record), the others go through the real LJH2.2 / LJH3 / OFF writers. small: the C05 back-pressure part.
func v07TickScenarios(thorough, small bool) []v07Scenario {
	var scs []v07Scenario
	for _, kind := range []string{"raw", "ljh22", "ljh3", "off"} {
		depths := map[string][]int{"raw": {1, 3}, "ljh22": {4}, "ljh3": {6}, "off": {9}}[kind]
		nrecs, tickss := []int{1, 2}, []int{1}
		if thorough {
			depths = map[string][]int{"raw": {1, 2, 3}, "ljh22": {4}, "ljh3": {6}, "off": {9}}[kind]
			nrecs = []int{1, 2, 3}
		}
		if kind == "raw" {
			tickss = []int{1, 2}
		}
		if small {
			nrecs = []int{2}
		}
		for _, d := range depths {
			for _, nrec := range nrecs {
				for i, fa := range []int{-1, 1, nrec} {
					if (i == 2 && nrec == 1) || (i == 1 && nrec > 1 && small) {
						continue // already listed / small: flush after the last record or none
					}
					if !thorough && (kind == "off" || kind == "ljh3") && nrec > 1 && i == 1 {
						continue // a flush in the middle of the many-part records: thorough only
					}
					for _, tk := range tickss {
						if tk > 1 && d > 1 && !thorough {
							continue // two ticks: at the smallest queue only
						}
						scs = append(scs, v07Scenario{kind: kind, depth: d, nrec: nrec, flushAt: fa, ticks: tk})
					}
				}
			}
		}
	}
	return scs
}

// v07TickPB: the preemption bound of a tick scenario. Three preemptions are what "the consumer is inside a
// periodic flush; the producer gets a record accepted; the consumer finishes; the producer's Flush comes next"
// takes (the producer never blocks before its Flush), so the smallest scenarios get 3; the larger ones 2.
func v07TickPB(sc v07Scenario, thorough bool) int {
	if thorough {
		if sc.nrec >= 3 {
			return 2
		}
		return 3
	}
	if sc.kind == "raw" {
		if sc.ticks == 1 {
			return 3
		}
		return 2
	}
	if sc.nrec == 1 && sc.kind != "off" {
		return 3
	}
	return 2
}

// TestVerifC05BP is the back-pressure part of C05 (file length = header + whole accepted records, body = exactly
// the accepted records): the same producer / writeLoop scenarios as C07 at a smaller bound, so that a writer
// that lets part of a record into the file when its queue is nearly full is reported under C05, too.
func TestVerifC05BP(t *testing.T) {
	r := vexp.NewRunner("C05")
	r.CrashTrace = true
	defer r.Finish()
	pb := 1
	if r.Thorough() {
		pb = 2
	}
	r.SetBound(fmt.Sprintf("back-pressure part: all interleavings of a producer (create, header, 2-3 records, optional flush, close) and the real writeLoop goroutine with at most %d preemptions; writers LJH2.2, LJH3, OFF; queue depths around one record's number of parts; tick scenarios (2 records, flush after the last or none, the bare asynchronous writer and the three formats): a clock thread offers 1 (bare writer: also 2) periodic-flush ticks at arbitrary points, stall points before every bufio call and at atomic operations, at most %d preemptions", pb, pb+1))
	dir := filepath.Join(os.Getenv("TMPDIR"), "c05bp")
	os.MkdirAll(dir, 0755)
	vhook.Doc(v07ClockPoint, "clock: select{tick|producer done}")
	for _, kind := range []string{"ljh22", "ljh3", "off"} {
		depths := map[string][]int{"ljh22": {2, 3, 4}, "ljh3": {3, 5, 6}, "off": {7, 8, 9}}[kind]
		for _, d := range depths {
			for _, nrec := range []int{2, 3} {
				for _, fa := range []int{-1, 1} {
					sc := v07Scenario{kind: kind, depth: d, nrec: nrec, flushAt: fa}
					r.DFSSharded(fmt.Sprintf("bp/%s/depth%d/rec%d/flush%d", sc.kind, sc.depth, sc.nrec, sc.flushAt), pb, 3, func(x *vexp.X) vexp.Result {
						return sc.run(x, dir)
					})
				}
			}
		}
	}
	// a small tick family (see TestVerifC07): periodic flushes at arbitrary points with the disk-stall points on
	for _, sc := range v07TickScenarios(r.Thorough(), true) {
		sc := sc
		r.DFSSharded(sc.tickCase("bp-tick"), pb+1, 3, func(x *vexp.X) vexp.Result {
			return sc.run(x, dir)
		})
	}
}
