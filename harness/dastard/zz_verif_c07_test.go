//go:build verif

package dastard

// C07 — file writing is record-atomic and order-preserving under any disk timing.
// Engine B: the producer (header, records, flush, close through the real ljh / off writers) runs
// against the real asyncbufio.writeLoop goroutine under the controlled scheduler; a "disk stall" is
// the consumer not being scheduled. The queue depth constant is made settable (1000 is not
// reachable exhaustively; the code is identical).

import (
	"bytes"
	"fmt"
	"os"
	"path/filepath"
	"testing"
	"time"

	"github.com/usnistgov/dastard/internal/vexp"
	"github.com/usnistgov/dastard/internal/vhook"
	"github.com/usnistgov/dastard/ljh"
	"github.com/usnistgov/dastard/off"
	"gonum.org/v1/gonum/mat"
)

type v07Writer interface {
	create() error
	header() error
	record(k int) error
	flush()
	close()
	recBytes(k int) []byte
	headerEnd(b []byte) int // length of the header in the file (-1 if malformed)
}

// ---- LJH 2.2
type v07LJH struct {
	w     *ljh.Writer
	nsamp int
}

func (v *v07LJH) create() error { return v.w.CreateFile() }
func (v *v07LJH) header() error { return v.w.WriteHeader(vT0) }
func (v *v07LJH) data(k int) []uint16 {
	d := make([]uint16, v.nsamp)
	for i := range d {
		d[i] = uint16(1000*k + i)
	}
	return d
}
func (v *v07LJH) record(k int) error { return v.w.WriteRecord(int64(k), int64(1000+k), v.data(k)) }
func (v *v07LJH) flush()             { v.w.Flush() }
func (v *v07LJH) close()             { v.w.Close() }
func (v *v07LJH) recBytes(k int) []byte {
	var b bytes.Buffer
	b.Write(v07le(uint64(k), 8))
	b.Write(v07le(uint64(1000+k), 8))
	for _, d := range v.data(k) {
		b.Write(v07le(uint64(d), 2))
	}
	return b.Bytes()
}
func (v *v07LJH) headerEnd(b []byte) int {
	i := bytes.Index(b, []byte("#End of Header\n"))
	if i < 0 {
		return -1
	}
	return i + len("#End of Header\n")
}

func v07le(v uint64, n int) []byte {
	out := make([]byte, n)
	for i := 0; i < n; i++ {
		out[i] = byte(v >> (8 * uint(i)))
	}
	return out
}

// ---- LJH 3
type v07LJH3 struct {
	w     *ljh.Writer3
	nsamp int
}

func (v *v07LJH3) create() error { return v.w.CreateFile() }
func (v *v07LJH3) header() error { return v.w.WriteHeader() }
func (v *v07LJH3) data(k int) []uint16 {
	d := make([]uint16, v.nsamp+k%2)
	for i := range d {
		d[i] = uint16(1000*k + i)
	}
	return d
}
func (v *v07LJH3) record(k int) error { return v.w.WriteRecord(3, int64(k), int64(1000+k), v.data(k)) }
func (v *v07LJH3) flush()             { v.w.Flush() }
func (v *v07LJH3) close()             { v.w.Close() }
func (v *v07LJH3) recBytes(k int) []byte {
	var b bytes.Buffer
	d := v.data(k)
	b.Write(v07le(uint64(len(d)), 4))
	b.Write(v07le(3, 4))
	b.Write(v07le(uint64(k), 8))
	b.Write(v07le(uint64(1000+k), 8))
	for _, x := range d {
		b.Write(v07le(uint64(x), 2))
	}
	return b.Bytes()
}
func (v *v07LJH3) headerEnd(b []byte) int {
	n, err := vJSONHeaderEnd(b)
	if err != nil {
		return -1
	}
	return n
}

// ---- OFF
type v07OFF struct {
	w  *off.Writer
	nb int
	ns int
}

func (v *v07OFF) create() error { return v.w.CreateFile() }
func (v *v07OFF) header() error { return v.w.WriteHeader() }
func (v *v07OFF) coefs(k int) []float32 {
	c := make([]float32, v.nb)
	for i := range c {
		c[i] = float32(k) + float32(i)/4
	}
	return c
}
func (v *v07OFF) record(k int) error {
	return v.w.WriteRecord(int32(v.ns), 2, int64(k), int64(1000+k), float32(k)+0.5, 0.25, 1.5, v.coefs(k))
}
func (v *v07OFF) flush() { v.w.Flush() }
func (v *v07OFF) close() { v.w.Close() }
func (v *v07OFF) recBytes(k int) []byte {
	var b bytes.Buffer
	b.Write(v07le(uint64(v.ns), 4))
	b.Write(v07le(2, 4))
	b.Write(v07le(uint64(k), 8))
	b.Write(v07le(uint64(1000+k), 8))
	for _, f := range append([]float32{float32(k) + 0.5, 0.25, 1.5}, v.coefs(k)...) {
		b.Write(v07le(uint64(mathFloat32bits(f)), 4))
	}
	return b.Bytes()
}
func (v *v07OFF) headerEnd(b []byte) int {
	n, err := vJSONHeaderEnd(b)
	if err != nil {
		return -1
	}
	n += 8 * (v.nb*v.ns + v.ns*v.nb)
	if n > len(b) {
		return -1
	}
	return n
}

// ---- OFF through the channel's publisher (DataPublisher.SetOFF / PublishData / Flush / RemoveOFF): what the
// publisher does with a record before it reaches the writer is part of what ends up in the file.
type v07Pub struct {
	dp   DataPublisher
	nb   int
	ns   int
	path string
}

func (v *v07Pub) create() error {
	proj := mat.NewDense(v.nb, v.ns, []float64{1, 0, 0, 0, 0, 1, 0, 0})
	basis := mat.NewDense(v.ns, v.nb, []float64{1, 0, 0, 1, 0, 0, 0, 0})
	v.dp.SetOFF(0, 2, v.ns, 1, 1e-3, vT0, 1, 1, 1, 1, 0, 0, 0, v.path, "verif", "chan1", 1, proj, basis, "verif", Pixel{})
	return v.dp.OFF.CreateFile()
}
func (v *v07Pub) header() error { return v.dp.OFF.WriteHeader() }
func (v *v07Pub) rec(k int) *DataRecord {
	return &DataRecord{data: make([]RawType, v.ns), presamples: 2, trigFrame: FrameIndex(k), trigTime: time.Unix(0, int64(1000+k)),
		pretrigMean: float64(k) + 0.5, pretrigDelta: 0.25, residualStdDev: 1.5, modelCoefs: []float64{float64(k), float64(k) + 0.25}}
}
func (v *v07Pub) record(k int) error { return v.dp.PublishData([]*DataRecord{v.rec(k)}) }
func (v *v07Pub) flush()             { v.dp.Flush() }
func (v *v07Pub) close()             { v.dp.RemoveOFF() }
func (v *v07Pub) recBytes(k int) []byte {
	o := &v07OFF{nb: v.nb, ns: v.ns}
	return o.recBytes(k)
}
func (v *v07Pub) headerEnd(b []byte) int {
	o := &v07OFF{nb: v.nb, ns: v.ns}
	return o.headerEnd(b)
}

func v07Make(kind string, path string) v07Writer {
	switch kind {
	case "offpub":
		return &v07Pub{nb: 2, ns: 4, path: path}
	case "ljh22":
		return &v07LJH{w: &ljh.Writer{FileName: path, Samples: 4, Presamples: 2, Timebase: 1e-3, TimestampOffset: vT0, NumberOfRows: 1, NumberOfColumns: 1, NumberOfChans: 1, SubframeDivisions: 1, ChanName: "chan1"}, nsamp: 4}
	case "ljh3":
		return &v07LJH3{w: &ljh.Writer3{FileName: path, Timebase: 1e-3, NumberOfRows: 1, NumberOfColumns: 1}, nsamp: 3}
	}
	nb, ns := 2, 4
	proj := mat.NewDense(nb, ns, []float64{1, 0, 0, 0, 0, 1, 0, 0})
	basis := mat.NewDense(ns, nb, []float64{1, 0, 0, 1, 0, 0, 0, 0})
	w := off.NewWriter(path, 0, "chan1", 1, 2, ns, 1e-3, proj, basis, "verif", "v", "h", "src", off.TimeDivisionMultiplexingInfo{}, off.PixelInfo{})
	return &v07OFF{w: w, nb: nb, ns: ns}
}

type v07Scenario struct {
	kind    string
	depth   int
	nrec    int
	flushAt int // flush after this many records (-1 = no explicit flush)
}

// run one schedule of the scenario; returns the violation (if any).
func (sc v07Scenario) run(x *vexp.X, dir string) vexp.Result {
	ljh.WRITECHANCAPACITY = sc.depth
	off.WRITECHANCAPACITY = sc.depth
	path := filepath.Join(dir, "f."+sc.kind)
	os.Remove(path)
	w := v07Make(sc.kind, path)
	var viol, class string
	fail := func(c, f string, a ...interface{}) {
		if viol == "" {
			viol, class = fmt.Sprintf(f, a...), c
		}
	}
	var accepted []int // records whose WriteRecord returned nil
	headerOK := false
	var rejected []int
	// checkFile: the file must be header ++ whole accepted records in order (a prefix of them if !all)
	checkFile := func(when string, mustHave int) {
		b, err := os.ReadFile(path)
		if err != nil {
			fail("file-unreadable", "%s: %v", when, err)
			return
		}
		if len(b) == 0 && mustHave == 0 && !headerOK {
			return
		}
		he := w.headerEnd(b)
		if he < 0 {
			if len(b) > 0 || headerOK {
				fail("partial-header", "%s: the file holds %d bytes that do not form a complete header (header accepted=%v)", when, len(b), headerOK)
			}
			return
		}
		body := b[he:]
		n := 0
		for _, k := range accepted {
			rb := w.recBytes(k)
			if len(body) == 0 {
				break
			}
			if len(body) < len(rb) || !bytes.Equal(body[:len(rb)], rb) {
				fail("partial-or-foreign-record", "%s: after %d whole records the file continues with %d bytes that are not the next accepted record #%d (accepted %v, rejected with error %v): a partially written or rejected record reached the file",
					when, n, len(body), k, accepted, rejected)
				return
			}
			body = body[len(rb):]
			n++
		}
		if len(body) != 0 {
			fail("partial-or-foreign-record", "%s: %d trailing bytes after the %d accepted records (accepted %v, rejected with error %v)", when, len(body), n, accepted, rejected)
			return
		}
		if n < mustHave {
			fail("accepted-data-not-in-file", "%s: only %d of the %d records accepted before the call returned are in the file", when, n, mustHave)
		}
	}
	producer := func() {
		if err := w.create(); err != nil {
			fail("create-error", "CreateFile: %v", err)
			return
		}
		if err := w.header(); err == nil {
			headerOK = true
		}
		for k := 1; k <= sc.nrec; k++ {
			if !headerOK {
				break
			}
			if err := w.record(k); err == nil {
				accepted = append(accepted, k)
			} else {
				rejected = append(rejected, k)
			}
			if k == sc.flushAt {
				w.flush()
				checkFile(fmt.Sprintf("when Flush returned after record %d", k), len(accepted))
			}
		}
		w.close()
		checkFile("when Close returned", len(accepted))
	}
	s := vhook.Run(x, vhook.Options{MaxSteps: 300, Names: []string{"producer"}}, producer)
	out := s.Outcome()
	surv := s.Release(2 * time.Second)
	if out.Pruned {
		return vexp.Result{Skip: true}
	}
	if out.PanicClass != "" {
		fail(out.PanicClass, "the producer panicked: %s", out.PanicText)
	} else if out.Deadlock {
		fail("deadlock", "deadlock: %v; schedule %s", out.Blocked, s.TraceString())
	} else if out.Horizon {
		fail("runaway", "no termination within %d steps; schedule %s", out.Steps, s.TraceString())
	} else if len(surv) > 0 {
		fail("goroutine-left", "goroutines still alive after Close returned: %v", surv)
	}
	if viol != "" {
		viol = fmt.Sprintf("%s depth=%d records=%d flushAt=%d: %s\nschedule: %s", sc.kind, sc.depth, sc.nrec, sc.flushAt, viol, s.TraceString())
	}
	return vexp.Result{Violation: viol, Class: class, Nontrivial: len(rejected) > 0 || out.Preempt > 0,
		Outcome: fmt.Sprintf("acc=%v rej=%v hdr=%v", accepted, rejected, headerOK)}
}

func TestVerifC07(t *testing.T) {
	r := vexp.NewRunner("C07")
	r.CrashTrace = true
	defer r.Finish()
	pb := 2
	if r.Thorough() {
		pb = 3
	}
	r.SetBound(fmt.Sprintf("all interleavings of producer (create, header, 2-3 records, optional flush, close) and the real writeLoop goroutine with at most %d preemptions, all select alternatives; writers LJH2.2, LJH3, OFF, and OFF driven through DataPublisher.PublishData (one record per call); queue depth 2..20", pb))
	dir := filepath.Join(os.Getenv("TMPDIR"), "c07")
	os.MkdirAll(dir, 0755)
	var scs []v07Scenario
	for _, kind := range []string{"ljh22", "ljh3", "off", "offpub"} {
		depths := map[string][]int{"ljh22": {2, 3, 4, 5}, "ljh3": {3, 5, 6, 7}, "off": {5, 8, 9, 12}, "offpub": {9, 20}}[kind]
		for _, d := range depths {
			if kind == "offpub" && d > 9 && !r.Thorough() {
				continue
			}
			for _, nrec := range []int{2, 3} {
				for _, fa := range []int{-1, 1, 2} {
					if fa > nrec {
						continue
					}
					scs = append(scs, v07Scenario{kind, d, nrec, fa})
				}
			}
		}
	}
	for _, sc := range scs {
		sc := sc
		r.DFSSharded(fmt.Sprintf("%s/depth%d/rec%d/flush%d", sc.kind, sc.depth, sc.nrec, sc.flushAt), pb, 3, func(x *vexp.X) vexp.Result {
			return sc.run(x, dir)
		})
	}
}

// TestVerifC05BP is the back-pressure part of C05 (file length = header + whole accepted records, body = exactly
// the accepted records): the same producer / writeLoop scenarios as C07 at a smaller bound, so that a writer
// that lets part of a record into the file when its queue is nearly full is reported under C05, too.
func TestVerifC05BP(t *testing.T) {
	r := vexp.NewRunner("C05")
	r.CrashTrace = true
	defer r.Finish()
	pb := 1
	if r.Thorough() {
		pb = 2
	}
	r.SetBound(fmt.Sprintf("back-pressure part: all interleavings of a producer (create, header, 2-3 records, optional flush, close) and the real writeLoop goroutine with at most %d preemptions; writers LJH2.2, LJH3, OFF; queue depths around one record's number of parts", pb))
	dir := filepath.Join(os.Getenv("TMPDIR"), "c05bp")
	os.MkdirAll(dir, 0755)
	for _, kind := range []string{"ljh22", "ljh3", "off"} {
		depths := map[string][]int{"ljh22": {2, 3, 4}, "ljh3": {3, 5, 6}, "off": {7, 8, 9}}[kind]
		for _, d := range depths {
			for _, nrec := range []int{2, 3} {
				for _, fa := range []int{-1, 1} {
					sc := v07Scenario{kind, d, nrec, fa}
					r.DFSSharded(fmt.Sprintf("bp/%s/depth%d/rec%d/flush%d", sc.kind, sc.depth, sc.nrec, sc.flushAt), pb, 3, func(x *vexp.X) vexp.Result {
						return sc.run(x, dir)
					})
				}
			}
		}
	}
}
