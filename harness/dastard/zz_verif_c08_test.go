//go:build verif

package dastard

// C08 — edge-multi triggering is block-boundary independent and never indexes outside.
// Engine A, differential DFS: the record list of every block partition is compared with the
// record list of the one-block run of the same stream on a fresh pipeline.

import (
	"fmt"
	"testing"

	"github.com/usnistgov/dastard/internal/vexp"
)

type vEdge struct{ pos, ramp int }

// vEMTTruth: a staircase with sub-threshold position-dependent ripple; each edge is a monotone ramp
// of `ramp` samples of 150 counts each (threshold is +-100).
func vEMTTruth(L int, sign int, edges []vEdge) [][]RawType {
	truth := make([][]RawType, 2)
	for ch := 0; ch < 2; ch++ {
		truth[ch] = make([]RawType, L)
		for f := 0; f < L; f++ {
			v := 5000 + (f*5)%7 - (f/4)%3
			if ch == 0 {
				for _, e := range edges {
					k := f - e.pos + 1
					if k > e.ramp {
						k = e.ramp
					}
					if k > 0 {
						v += sign * 150 * k
					}
				}
			} else {
				v += 17
			}
			truth[ch][f] = RawType(v)
		}
	}
	return truth
}

type vEMTCfg struct {
	name       string
	mode       EMTMode
	sign       int
	nmonotone  int
	zeroThresh bool
}

func (c vEMTCfg) trigState() TriggerState {
	b := EMTBackwardCompatibleRPCFields{
		EdgeMultiMakeShortRecords:        c.mode == EMTRecordsVariableLength,
		EdgeMultiMakeContaminatedRecords: c.mode == EMTRecordsTwoFullLength,
		EdgeMultiDisableZeroThreshold:    !c.zeroThresh,
		EdgeMultiLevel:                   int32(c.sign * 100),
		EdgeMultiVerifyNMonotone:         c.nmonotone,
	}
	st, err := b.toEMTState()
	if err != nil {
		panic(err)
	}
	return TriggerState{EdgeMulti: true, EMTBackwardCompatibleRPCFields: b, EMTState: st}
}

func vEMTConfigs() []vEMTCfg {
	var out []vEMTCfg
	modes := []struct {
		n string
		m EMTMode
	}{{"twofull", EMTRecordsTwoFullLength}, {"variable", EMTRecordsVariableLength}, {"isolated", EMTRecordsFullLengthIsolated}}
	for _, m := range modes {
		for _, sign := range []int{+1, -1} {
			for _, nm := range []int{1, 2} {
				for _, z := range []bool{false, true} {
					out = append(out, vEMTCfg{fmt.Sprintf("%s/thr%+d/nmono%d/zero=%v", m.n, sign*100, nm, z), m.m, sign, nm, z})
				}
			}
		}
	}
	return out
}

type vRecKey struct{ f, pre, n int }

func vRecKeys(recs []*DataRecord) []vRecKey {
	out := make([]vRecKey, len(recs))
	for i, r := range recs {
		out[i] = vRecKey{int(r.trigFrame - vF0), r.presamples, len(r.data)}
	}
	return out
}

// checkEMTShape: ordering / extent rules that hold for every run (also after a reconfiguration).
func vCheckEMTShape(keys []vRecKey, mode EMTMode, npre, nsamp int) (string, string) {
	for i, k := range keys {
		if i > 0 && keys[i-1].f >= k.f {
			return fmt.Sprintf("records not in strictly increasing trigger-frame order: %v", keys), "emt-order"
		}
		if mode != EMTRecordsVariableLength {
			if k.n != nsamp || k.pre != npre {
				return fmt.Sprintf("fixed-length mode produced record %v, configured pre=%d len=%d", k, npre, nsamp), "emt-not-full-length"
			}
		} else {
			if i+1 < len(keys) {
				nx := keys[i+1]
				if k.f-k.pre+k.n > nx.f-nx.pre {
					return fmt.Sprintf("variable-length records overlap: %v and %v", k, nx), "emt-variable-overlap"
				}
				if k.f-k.pre+k.n > nx.f {
					return fmt.Sprintf("variable-length record %v extends past the next edge at %d", k, nx.f), "emt-variable-past-next-edge"
				}
			}
		}
	}
	return "", ""
}

func TestVerifC08(t *testing.T) {
	r := vexp.NewRunner("C08")
	r.CrashTrace = true
	defer r.Finish()
	maxCuts := 2
	if r.Thorough() {
		maxCuts = 3
	}
	r.SetBound(fmt.Sprintf("all block partitions with <=%d cuts + all uniform block sizes; (npre,nsamp) in {(4,8),(4,14)} and, with a reduced edge menu, (4,18); 24 edge-multi configurations (3 modes x threshold sign x nmonotone 1|2 x zero-threshold refinement on|off); 1-3 edges (ramps of 1-3 samples) at start-up, mid-stream and end-of-stream positions and all separations 1..nsamp+2; configured before the first block (differential) or after the first block (crash/shape/excerpt only)", maxCuts))
	// the third geometry has a long post-trigger part (nsamp-npre = 14 > the 10 samples of slack in what is kept
	// between blocks); it gets a reduced edge menu
	geoms := []vGeom{{4, 8}, {4, 14}, {4, 18}}
	for gi, g := range geoms {
		L := 4*g.nsamp + 14
		mid := 2*g.nsamp + 3
		var edgeSets [][]vEdge
		for ramp := 1; ramp <= 3; ramp++ {
			if gi == 2 && ramp > 1 && !r.Thorough() {
				break
			}
			for p := 1; p <= g.npre+5; p++ {
				if gi == 2 && p%3 != 1 {
					continue
				}
				edgeSets = append(edgeSets, []vEdge{{p, ramp}})
			}
			edgeSets = append(edgeSets, []vEdge{{mid, ramp}})
			for p := L - (g.nsamp - g.npre) - 3; p < L-1; p += 2 {
				edgeSets = append(edgeSets, []vEdge{{p, ramp}})
			}
		}
		seps := []int{1, 2, g.npre, g.nsamp - g.npre, g.nsamp - 1, g.nsamp, g.nsamp + 1, g.nsamp + g.npre}
		if r.Thorough() {
			seps = nil
			for d := 1; d <= g.nsamp+g.npre+1; d++ {
				seps = append(seps, d)
			}
		}
		for _, d := range seps {
			edgeSets = append(edgeSets, []vEdge{{mid, 2}, {mid + d, 1}})
			edgeSets = append(edgeSets, []vEdge{{g.npre + 1, 1}, {g.npre + 1 + d, 2}})
		}
		for _, d := range []int{2, g.nsamp - g.npre, g.nsamp} {
			edgeSets = append(edgeSets, []vEdge{{mid - d, 1}, {mid, 2}, {mid + d, 1}})
		}
		for _, cfg := range vEMTConfigs() {
			for ctrl := range []int{0, 1} {
				for _, es := range edgeSets {
					if ctrl == 1 && len(es) > 1 {
						continue
					}
					sc := &vTrigScenario{npre: g.npre, nsamp: g.nsamp, signed: false, L: L,
						cfg: vTrigCfg{name: cfg.name, ts: cfg.trigState(), pulseSign: cfg.sign, emt: true}}
					sc.ctrl = vCtrlBefore
					if ctrl == 1 {
						sc.ctrl = vCtrlAfterBlock1
					}
					id := fmt.Sprintf("n%d-%d/%s/%s/edges=%v", g.npre, g.nsamp, cfg.name, vCtrlNames[sc.ctrl], es)
					cfg, es := cfg, es
					var ref []vRecKey
					built := false
					r.DFS(id, -1, func(x *vexp.X) vexp.Result {
						if !built {
							sc.truth = vEMTTruth(L, cfg.sign, es)
							sc.prepareViper()
							built = true
							if sc.ctrl == vCtrlBefore {
								one := sc.execute(&vexp.X{}, []int{0, L})
								if one.err != nil {
									panic("one-block reference run failed: " + one.err.Error())
								}
								ref = vRecKeys(one.recs[0])
							}
						}
						cuts := maxCuts
						if L > 50 && cuts > 2 && len(es) > 1 {
							cuts = 2
						}
						bounds := vChoosePartition(x, L, cuts, true)
						run := sc.execute(x, bounds)
						out := run.outcome()
						if v, cls, _ := run.checkExcerpts(); v != "" {
							return vexp.Result{Violation: v, Class: cls, Outcome: out}
						}
						keys := vRecKeys(run.recs[0])
						if v, cls := vCheckEMTShape(keys, cfg.mode, g.npre, g.nsamp); v != "" {
							return vexp.Result{Violation: v, Class: cls, Outcome: out}
						}
						if sc.ctrl == vCtrlBefore {
							same := len(keys) == len(ref)
							for i := 0; same && i < len(keys); i++ {
								same = keys[i] == ref[i]
							}
							if !same {
								return vexp.Result{Violation: fmt.Sprintf("records depend on the block partition: blocks %v give %v but the same stream as one block gives %v (edges %v)", bounds, keys, ref, es),
									Class: "emt-partition-dependent", Outcome: out}
							}
						}
						return vexp.Result{Nontrivial: len(keys) > 0 && len(bounds) > 2, Outcome: out}
					})
				}
			}
		}
	}
}
