//go:build verif

package dastard

// C09 — group triggers deliver exactly the connected secondaries; edits act as a set.
// Engine A: BFS to a fixpoint over connection sets (every (set, edit) transition executed on the real
// broker through ChangeGroupTrigger / StopTriggerCoupling / SetCoupling), each transition followed by
// data cycles through the real ProcessSegments with primaries on every subset of channels.
// Requests are single pairs, and whole receiver lists (one or two source keys) in which valid, self, repeated
// and out-of-range indices are mixed in every order; the same at the SourceControl RPC level.

import (
	"fmt"
	"sort"
	"strings"
	"testing"

	"github.com/usnistgov/dastard/internal/vexp"
)

type vPair struct{ s, r int }

type vGTOp struct {
	name     string
	kind     string // add del stop couple
	pairs    map[int][]int
	coupling CouplingStatus
}

const (
	vGTnpre  = 3
	vGTnsamp = 6
	vGTblock = 30
)

type vGTSource interface {
	ChangeTriggerState(*FullTriggerState) error
	ChangeGroupTrigger(turnon bool, gts *GroupTriggerState) error
	StopTriggerCoupling() error
	SetCoupling(CouplingStatus) error
	ComputeGroupTriggerState() GroupTriggerState
	ProcessSegments(*dataBlock) error
}

type vGTModel struct {
	src     *vSource
	ds      vGTSource
	any     *AnySource
	nchan   int
	lancero bool
	ref     map[vPair]bool
	truth   [][]RawType // grows block by block
	nblocks int
	second  int // secondaries observed
	// RPC mode: requests go through the SourceControl methods clients call; view is the connection set of the last
	// GROUPTRIGGER message sent to clients (what a client believes; replayed to late joiners by SENDALL)
	ctl     *SourceControl
	updates chan ClientUpdate
	view    map[vPair]bool
}

// vGTAny makes a plain AnySource a DataSource (the two methods every concrete source adds)
type vGTAny struct{ *AnySource }

func (vGTAny) Sample() error   { return nil }
func (vGTAny) StartRun() error { return nil }

// rpcMode puts a SourceControl in front of the source, with a goroutine that serves queued requests one at a
// time exactly as the core loop's request branch does (`request()`), and marks the run active.
func (m *vGTModel) rpcMode() {
	sc := new(SourceControl)
	sc.queuedRequests = make(chan func())
	sc.queuedResults = make(chan error)
	m.updates = make(chan ClientUpdate, 64)
	sc.clientUpdates = m.updates
	if m.lancero {
		sc.ActiveSource = m.ds.(*LanceroSource)
	} else {
		sc.ActiveSource = vGTAny{m.any}
	}
	sc.isSourceActive = true
	m.any.RunDoneActivate()
	go func() {
		for f := range sc.queuedRequests {
			f()
		}
	}()
	m.ctl = sc
	m.view = map[vPair]bool{}
}

func (m *vGTModel) close() {
	if m.ctl != nil {
		close(m.ctl.queuedRequests)
	}
	m.src.close()
}

func (m *vGTModel) viewString() string {
	var ps []string
	for p := range m.view {
		ps = append(ps, fmt.Sprintf("%d>%d", p.s, p.r))
	}
	sort.Strings(ps)
	return strings.Join(ps, ",")
}

// rpcRequest issues op through the RPC methods and brings the client's view up to date from the updates sent.
func (m *vGTModel) rpcRequest(op vGTOp) error {
	var ok, yes, no = false, true, false
	var err error
	switch op.kind {
	case "add":
		err = m.ctl.AddGroupTriggerCoupling(GroupTriggerState{Connections: op.pairs}, &ok)
	case "del":
		err = m.ctl.DeleteGroupTriggerCoupling(&GroupTriggerState{Connections: op.pairs}, &ok)
	case "stop":
		err = m.ctl.StopTriggerCoupling(&no, &ok)
	case "couple":
		switch op.coupling {
		case ErrToFB:
			err = m.ctl.CoupleErrToFB(&yes, &ok)
		case FBToErr:
			err = m.ctl.CoupleFBToErr(&yes, &ok)
		default:
			err = m.ctl.CoupleErrToFB(&no, &ok)
		}
	}
	for {
		select {
		case u := <-m.updates:
			if st, isGT := u.state.(GroupTriggerState); isGT && u.tag == "GROUPTRIGGER" {
				m.view = map[vPair]bool{}
				for s, rs := range st.Connections {
					for _, r := range rs {
						m.view[vPair{s, r}] = true
					}
				}
			}
		default:
			return err
		}
	}
}

func vGTNew(nchan int, lancero bool) *vGTModel {
	m := &vGTModel{nchan: nchan, lancero: lancero, ref: map[vPair]bool{}}
	if lancero {
		ls := &LanceroSource{}
		ls.name = "Lancero"
		ls.nchan = nchan
		ls.sampleRate = 1000
		ls.samplePeriod = vPeriod
		ls.active = []*LanceroDevice{{devnum: 0, ncols: 1, nrows: nchan / 2}}
		if err := ls.PrepareChannels(); err != nil {
			panic(err)
		}
		if err := ls.PrepareRun(vGTnpre, vGTnsamp); err != nil {
			panic(err)
		}
		m.any = &ls.AnySource
		m.ds = ls
		m.src = &vSource{ds: m.any}
		for _, dsp := range m.any.processors {
			c := make(chan []*DataRecord, 256)
			dsp.PubRecordsChan = c
			dsp.PubSummariesChan = nil
			m.src.recs = append(m.src.recs, c)
		}
	} else {
		m.src = vNewSource(nchan, vGTnpre, vGTnsamp)
		m.any = m.src.ds
		m.ds = m.any
	}
	all := make([]int, nchan)
	for i := range all {
		all[i] = i
	}
	if err := m.ds.ChangeTriggerState(&FullTriggerState{ChannelIndices: all, TriggerState: TriggerState{EdgeTrigger: true, EdgeRising: true, EdgeLevel: 100}}); err != nil {
		panic(err)
	}
	m.truth = make([][]RawType, nchan)
	return m
}

func (m *vGTModel) valid(p vPair) bool {
	return p.s != p.r && p.s >= 0 && p.s < m.nchan && p.r >= 0 && p.r < m.nchan
}

func (m *vGTModel) refString() string {
	var ps []string
	for p := range m.ref {
		ps = append(ps, fmt.Sprintf("%d>%d", p.s, p.r))
	}
	sort.Strings(ps)
	return strings.Join(ps, ",")
}

// apply performs one edit on the real source and updates the reference set.
func (m *vGTModel) apply(x *vexp.X, op vGTOp) (string, string) {
	x.Steps++
	var err error
	switch op.kind {
	case "add", "del":
		if m.ctl != nil {
			err = m.rpcRequest(op)
		} else {
			err = m.ds.ChangeGroupTrigger(op.kind == "add", &GroupTriggerState{Connections: op.pairs})
		}
		for s, rs := range op.pairs {
			for _, r := range rs {
				p := vPair{s, r}
				if !m.valid(p) {
					continue
				}
				if op.kind == "add" {
					m.ref[p] = true
				} else {
					delete(m.ref, p)
				}
			}
		}
	case "stop":
		if m.ctl != nil {
			err = m.rpcRequest(op)
		} else {
			err = m.ds.StopTriggerCoupling()
		}
		m.ref = map[vPair]bool{}
	case "couple":
		if m.ctl != nil {
			err = m.rpcRequest(op)
		} else {
			err = m.ds.SetCoupling(op.coupling)
		}
		if m.lancero {
			for i := 0; i < m.nchan; i += 2 {
				delete(m.ref, vPair{i, i + 1})
				delete(m.ref, vPair{i + 1, i})
				if op.coupling == ErrToFB {
					m.ref[vPair{i, i + 1}] = true
				}
				if op.coupling == FBToErr {
					m.ref[vPair{i + 1, i}] = true
				}
			}
		}
	}
	x.Logf("%s -> err=%v ; reference set {%s}", op.name, err, m.refString())
	// reported == reference
	rep := m.ds.ComputeGroupTriggerState()
	got := map[vPair]bool{}
	for s, rs := range rep.Connections {
		for _, r := range rs {
			if got[vPair{s, r}] {
				return fmt.Sprintf("after %s the reported connections list %d->%d twice: %v", op.name, s, r, rep.Connections), "reported-duplicate"
			}
			got[vPair{s, r}] = true
		}
	}
	for p := range got {
		if !m.ref[p] {
			return fmt.Sprintf("after %s the reported state contains %d->%d, which is not in the set-theoretic result {%s}", op.name, p.s, p.r, m.refString()), "reported-extra-connection"
		}
	}
	for p := range m.ref {
		if !got[p] {
			return fmt.Sprintf("after %s the reported state lacks %d->%d; expected {%s}, reported %v", op.name, p.s, p.r, m.refString(), rep.Connections), "reported-missing-connection"
		}
	}
	if m.ctl != nil {
		// what clients have been told (last GROUPTRIGGER message) == the set in use
		for p := range m.view {
			if !m.ref[p] {
				return fmt.Sprintf("after %s (err=%v) clients have last been told {%s}, which contains %d->%d, but the set in use is {%s}", op.name, err, m.viewString(), p.s, p.r, m.refString()), "client-view-extra-connection"
			}
		}
		for p := range m.ref {
			if !m.view[p] {
				return fmt.Sprintf("after %s (err=%v) clients have last been told {%s}, which lacks %d->%d; the set in use is {%s}", op.name, err, m.viewString(), p.s, p.r, m.refString()), "client-view-missing-connection"
			}
		}
	}
	return "", ""
}

// cycle runs one block in which the channels in `fire` have a primary trigger; sameFrame puts the
// primaries of channels 0 and 1 on the same frame.
func (m *vGTModel) cycle(x *vexp.X, fire int, sameFrame bool) (string, string) {
	x.Steps++
	base := m.nblocks * vGTblock
	pos := make([]int, m.nchan)
	for ch := 0; ch < m.nchan; ch++ {
		blk := make([]RawType, vGTblock)
		pos[ch] = -1
		if fire&(1<<uint(ch)) != 0 {
			pos[ch] = 8 + 3*ch
			if sameFrame && ch <= 1 {
				pos[ch] = 8
			}
		}
		for f := 0; f < vGTblock; f++ {
			v := 1000 + 40*ch + vRipple(base+f, ch)
			if pos[ch] >= 0 && f >= pos[ch] {
				if a := 200 - 50*(f-pos[ch]); a > 0 {
					v += a
				}
			}
			blk[f] = RawType(v)
		}
		m.truth[ch] = append(m.truth[ch], blk...)
	}
	block := vBlock(m.truth, base, base+vGTblock, false)
	m.nblocks++
	if err := m.ds.ProcessSegments(block); err != nil {
		return "ProcessSegments failed: " + err.Error(), "process-error"
	}
	for r := 0; r < m.nchan; r++ {
		recs := m.src.drain(r)
		var want []int
		if pos[r] >= 0 {
			want = append(want, base+pos[r])
		}
		// expected secondaries: union over connected sources of their primary frames
		var sec []int
		mult := map[int]int{}
		for s := 0; s < m.nchan; s++ {
			if m.ref[vPair{s, r}] && pos[s] >= 0 {
				if mult[base+pos[s]] == 0 {
					sec = append(sec, base+pos[s])
				}
				mult[base+pos[s]]++
			}
		}
		sort.Ints(sec)
		var gotFrames []int
		for _, rec := range recs {
			f := int(rec.trigFrame - vF0)
			gotFrames = append(gotFrames, f)
			lo := f - rec.presamples
			if rec.channelIndex != r || lo < 0 || lo+len(rec.data) > len(m.truth[r]) {
				return fmt.Sprintf("channel %d emitted record %s outside its own stream", r, vFmtRec(rec)), "secondary-bad-record"
			}
			for j := range rec.data {
				if rec.data[j] != m.truth[r][lo+j] {
					return fmt.Sprintf("channel %d record at frame %d does not carry the channel's own samples", r, f), "secondary-wrong-data"
				}
			}
		}
		// primaries come first, then the secondaries in frame order
		gi := 0
		for _, w := range want {
			if gi >= len(gotFrames) || gotFrames[gi] != w {
				return fmt.Sprintf("cycle fire=%03b: channel %d primary at frame %d missing; records at %v", fire, r, w, gotFrames), "primary-missing"
			}
			gi++
		}
		rest := gotFrames[gi:]
		ri := 0
		for _, sfr := range sec {
			n := 0
			for ri < len(rest) && rest[ri] == sfr {
				n++
				ri++
			}
			if n < 1 || n > mult[sfr] {
				return fmt.Sprintf("cycle fire=%03b sameFrame=%v: channel %d should emit the secondary at frame %d between 1 and %d times (connected sources {%s}), emitted %d; all records of the channel: %v",
					fire, sameFrame, r, sfr, mult[sfr], m.refString(), n, gotFrames), "secondary-missing-or-duplicated"
			}
			m.second += n
		}
		if ri != len(rest) {
			return fmt.Sprintf("cycle fire=%03b: channel %d emitted unexpected records at frames %v (connections {%s}; expected secondaries %v)", fire, r, rest[ri:], m.refString(), sec), "secondary-unexpected"
		}
	}
	return "", ""
}

func (m *vGTModel) cycles(x *vexp.X) (string, string) {
	for fire := 0; fire < 1<<uint(m.nchan); fire++ {
		if m.nchan > 3 && fire != 0 && fire != (1<<uint(m.nchan))-1 && fire&(fire-1) != 0 && fire%3 != 0 {
			continue // for 4 channels: none, all, every single channel, and a third of the mixed subsets
		}
		if v, c := m.cycle(x, fire, false); v != "" {
			return v, c
		}
	}
	return m.cycle(x, 3, true)
}

func (m *vGTModel) canon() string {
	// the set actually held by the broker, plus its connection counter
	var ps []string
	n := 0
	for r, srcs := range m.any.broker.sources {
		for s := range srcs {
			ps = append(ps, fmt.Sprintf("%d>%d", s, r))
			n++
		}
	}
	sort.Strings(ps)
	if m.ctl != nil {
		return fmt.Sprintf("%s|n=%d|told=%s", strings.Join(ps, ","), m.any.broker.nconnections, m.viewString())
	}
	return fmt.Sprintf("%s|n=%d", strings.Join(ps, ","), m.any.broker.nconnections)
}

func vGTOps(nchan int, lancero bool) []vGTOp {
	var ops []vGTOp
	idx := []int{-1}
	for i := 0; i <= nchan; i++ {
		idx = append(idx, i)
	}
	if lancero {
		for _, p := range []vPair{{0, 1}, {1, 0}, {0, 2}, {2, 3}, {3, 2}, {1, 1}, {4, 0}, {0, 4}} {
			ops = append(ops, vGTOp{name: fmt.Sprintf("add(%d>%d)", p.s, p.r), kind: "add", pairs: map[int][]int{p.s: {p.r}}})
			ops = append(ops, vGTOp{name: fmt.Sprintf("del(%d>%d)", p.s, p.r), kind: "del", pairs: map[int][]int{p.s: {p.r}}})
		}
		for _, c := range []CouplingStatus{NoCoupling, FBToErr, ErrToFB} {
			ops = append(ops, vGTOp{name: fmt.Sprintf("couple(%d)", c), kind: "couple", coupling: c})
		}
	} else {
		for _, s := range idx {
			for _, r := range idx {
				ops = append(ops, vGTOp{name: fmt.Sprintf("add(%d>%d)", s, r), kind: "add", pairs: map[int][]int{s: {r}}})
				ops = append(ops, vGTOp{name: fmt.Sprintf("del(%d>%d)", s, r), kind: "del", pairs: map[int][]int{s: {r}}})
			}
		}
		ops = append(ops, vGTOp{name: "add(0>1,0>2)", kind: "add", pairs: map[int][]int{0: {1, 2}}})
		ops = append(ops, vGTOp{name: "del(0>1,0>2)", kind: "del", pairs: map[int][]int{0: {1, 2}}})
		ops = append(ops, vGTOp{name: "add(0>0,0>1,0>7)", kind: "add", pairs: map[int][]int{0: {0, 1, 7}}})
		ops = append(ops, vGTOp{name: "couple(none)", kind: "couple", coupling: NoCoupling})
	}
	ops = append(ops, vGTOp{name: "stop", kind: "stop"})
	return ops
}

// vGTLists returns every receiver list of length n over idx (all sequences: repeated, self and out-of-range
// indices in every position).
func vGTLists(idx []int, n int) [][]int {
	if n == 0 {
		return [][]int{nil}
	}
	var out [][]int
	for _, l := range vGTLists(idx, n-1) {
		for _, r := range idx {
			out = append(out, append(append([]int{}, l...), r))
		}
	}
	return out
}

// vGTReqOp makes one add/delete request out of a whole connections map (name with the source keys in
// ascending order; the order in which the real code visits the keys is Go's map order).
func vGTReqOp(kind string, pairs map[int][]int) vGTOp {
	var keys []int
	for s := range pairs {
		keys = append(keys, s)
	}
	sort.Ints(keys)
	var parts []string
	for _, s := range keys {
		parts = append(parts, fmt.Sprintf("%d>%v", s, pairs[s]))
	}
	return vGTOp{name: fmt.Sprintf("%s(%s)", kind, strings.Join(parts, ";")), kind: kind, pairs: pairs}
}

// vGTListOps: requests of one kind with one source key and every receiver list of the given lengths over idx.
func vGTListOps(kind string, source int, idx []int, lengths ...int) []vGTOp {
	var ops []vGTOp
	for _, n := range lengths {
		for _, l := range vGTLists(idx, n) {
			ops = append(ops, vGTReqOp(kind, map[int][]int{source: l}))
		}
	}
	return ops
}

// vGTGenerators: the single-pair adds of every valid pair, and stop: enough to reach every connection set.
func vGTGenerators(nchan int) []vGTOp {
	var ops []vGTOp
	for s := 0; s < nchan; s++ {
		for r := 0; r < nchan; r++ {
			if s != r {
				ops = append(ops, vGTOp{name: fmt.Sprintf("add(%d>%d)", s, r), kind: "add", pairs: map[int][]int{s: {r}}})
			}
		}
	}
	return append(ops, vGTOp{name: "stop", kind: "stop"})
}

// vGTIdx is the index alphabet of the generic source: -1, every channel, and nchan.
func vGTIdx(nchan int) []int {
	idx := []int{-1}
	for i := 0; i <= nchan; i++ {
		idx = append(idx, i)
	}
	return idx
}

func vGTRun(x *vexp.X, nchan int, lancero bool, ops []vGTOp, hist []int, cycleEvery bool, rpc ...bool) (string, vexp.Result) {
	m := vGTNew(nchan, lancero)
	if len(rpc) > 0 && rpc[0] {
		m.rpcMode()
	}
	defer m.close()
	var names []string
	for i, oi := range hist {
		names = append(names, ops[oi].name)
		if v, c := m.apply(x, ops[oi]); v != "" {
			return "", vexp.Result{Violation: fmt.Sprintf("history %v: %s", names, v), Class: c}
		}
		if cycleEvery || i == len(hist)-1 {
			if v, c := m.cycles(x); v != "" {
				return "", vexp.Result{Violation: fmt.Sprintf("history %v: %s", names, v), Class: c}
			}
		}
	}
	return m.canon(), vexp.Result{Nontrivial: m.second > 0, Outcome: m.canon()}
}

// ---- trigger-position family: WHERE in the stream the source's primaries fall.
// One channel s fires (edge, level, auto or edge+auto trigger; one pulse at a chosen sample of the stream or none), the
// others carry only ripple and never trigger; every connection set; three data blocks. The primaries of a cycle are the
// records channel s emits (no other channel has primaries, so s can receive nothing), each checked against the trigger
// criterion on the ground truth for the edge and level kinds. Every other channel must emit exactly those frames (once
// each, its own samples) if s is connected to it and nothing otherwise: also for the earliest frame a trigger can have
// (stream index NPresamples: start of a run, or after the trigger settings were sent again) and for the latest one.

type vGTKind struct {
	name string
	ts   func(ch int) TriggerState
}

func vGTKinds() []vGTKind {
	return []vGTKind{
		{"edge", func(int) TriggerState { return TriggerState{EdgeTrigger: true, EdgeRising: true, EdgeLevel: 100} }},
		{"level", func(ch int) TriggerState {
			return TriggerState{LevelTrigger: true, LevelRising: true, LevelLevel: RawType(1000 + 40*ch + 100)}
		}},
		{"auto", func(int) TriggerState { return TriggerState{AutoTrigger: true} }}, // as fast as allowed: every NSamples
		{"edge+auto", func(int) TriggerState {
			return TriggerState{EdgeTrigger: true, EdgeRising: true, EdgeLevel: 100, AutoTrigger: true, AutoDelay: 20 * vPeriod}
		}},
	}
}

const vGTposBlocks = 3

// vGTPositions: connection set `set` (bit k = k-th valid pair in the order of vGTGenerators), channel s fires with
// trigger kind k and a pulse starting at stream sample pos (pos < 0: no pulse); reconf: the trigger settings of s are sent
// again before the second block.
func vGTPositions(x *vexp.X, nchan, set, s int, k vGTKind, pos int, reconf bool) vexp.Result {
	m := vGTNew(nchan, false)
	defer m.close()
	gens := vGTGenerators(nchan)
	for i, g := range gens[:len(gens)-1] {
		if set&(1<<uint(i)) != 0 {
			if v, c := m.apply(x, g); v != "" {
				return vexp.Result{Violation: v, Class: c}
			}
		}
	}
	fts := &FullTriggerState{ChannelIndices: []int{s}, TriggerState: k.ts(s)}
	if err := m.ds.ChangeTriggerState(fts); err != nil {
		return vexp.Result{Violation: "ChangeTriggerState failed: " + err.Error(), Class: "process-error"}
	}
	L := vGTposBlocks * vGTblock
	for ch := 0; ch < nchan; ch++ {
		m.truth[ch] = make([]RawType, L)
		for f := 0; f < L; f++ {
			v := 1000 + 40*ch + vRipple(f, ch)
			if ch == s && pos >= 0 && f >= pos {
				if a := 200 - 50*(f-pos); a > 0 {
					v += a
				}
			}
			m.truth[ch][f] = RawType(v)
		}
	}
	where := fmt.Sprintf("connections {%s}, channel %d fires (%s trigger, pulse at sample %d, settings re-sent=%v)", m.refString(), s, k.name, pos, reconf)
	for b := 0; b < vGTposBlocks; b++ {
		if b == 1 && reconf {
			if err := m.ds.ChangeTriggerState(fts); err != nil {
				return vexp.Result{Violation: "ChangeTriggerState failed: " + err.Error(), Class: "process-error"}
			}
		}
		x.Steps++
		if err := m.ds.ProcessSegments(vBlock(m.truth, b*vGTblock, (b+1)*vGTblock, false)); err != nil {
			return vexp.Result{Violation: "ProcessSegments failed: " + err.Error(), Class: "process-error"}
		}
		frames := make([][]int, nchan)
		for ch := 0; ch < nchan; ch++ {
			for _, rec := range m.src.drain(ch) {
				f := int(rec.trigFrame - vF0)
				lo := f - vGTnpre
				if rec.channelIndex != ch || rec.presamples != vGTnpre || len(rec.data) != vGTnsamp || lo < 0 || lo+vGTnsamp > (b+1)*vGTblock {
					return vexp.Result{Violation: fmt.Sprintf("%s, block %d: channel %d emitted record %s outside its own stream", where, b, ch, vFmtRec(rec)), Class: "secondary-bad-record"}
				}
				for j := range rec.data {
					if rec.data[j] != m.truth[ch][lo+j] {
						return vexp.Result{Violation: fmt.Sprintf("%s, block %d: channel %d record at frame %d does not carry the channel's own samples", where, b, ch, f), Class: "secondary-wrong-data"}
					}
				}
				frames[ch] = append(frames[ch], f)
			}
			sort.Ints(frames[ch])
		}
		prim := frames[s]
		x.Logf("block %d: primaries of channel %d at %v", b, s, prim)
		for _, f := range prim { // independent criterion scan on the ground truth
			t := m.truth[s]
			bad := false
			switch k.name {
			case "edge":
				bad = int(t[f])+int(t[f-1])-int(t[f-2])-int(t[f-3]) < 100
			case "level":
				thr := RawType(1000 + 40*s + 100)
				bad = !(t[f] >= thr && t[f-1] < thr)
			}
			if bad {
				return vexp.Result{Violation: fmt.Sprintf("%s, block %d: channel %d emitted a record at frame %d, where its %s criterion does not hold and no source of it fired", where, b, s, f, k.name), Class: "secondary-unexpected"}
			}
		}
		for r := 0; r < nchan; r++ {
			if r == s {
				continue
			}
			var want []int
			if m.ref[vPair{s, r}] {
				want = prim
			}
			if fmt.Sprint(frames[r]) != fmt.Sprint(append([]int{}, want...)) {
				class := "secondary-missing-or-duplicated"
				if len(want) == 0 {
					class = "secondary-unexpected"
				}
				return vexp.Result{Violation: fmt.Sprintf("%s, block %d (stream samples %d..%d): channel %d emitted records at frames %v; its connected sources' primaries in this cycle are at %v",
					where, b, b*vGTblock, (b+1)*vGTblock-1, r, frames[r], append([]int{}, want...)), Class: class}
			}
			m.second += len(want)
		}
	}
	return vexp.Result{Nontrivial: m.second > 0, Outcome: m.canon()}
}

func TestVerifC09(t *testing.T) {
	r := vexp.NewRunner("C09")
	defer r.Finish()
	depth := 3
	r.SetBound(fmt.Sprintf("BFS to closure over connection sets: generic source with 3 channels (add/delete of every pair over indices -1..3, multi-pair requests, stop, NoCoupling) and Lancero source with 4 channels (err/fb couplings, selected pairs, stop); after every edit 9 data cycles (every subset of channels firing + two sources on one frame); plus un-merged DFS of all edit sequences to depth %d; the same closure and all sequences of depth 2 through the SourceControl RPC methods, where the connection set of the last GROUPTRIGGER message sent to clients must equal the set in use. "+
		"Receiver-list families, each at source level and through the RPC methods: closure of every (connection set, request) pair for add/delete requests with one source key in -1..3 and EVERY receiver list of length 2 and 3 over -1..3 (valid, self, repeated, negative and >=nchan indices in every order; 1500 requests x 64 sets); Lancero: source 0 with every list of length 2 and 3 over {-1,0,1,2,4}; "+
		"add/delete requests with two source keys out of -1..3 and every pair of length-2 lists, applied to the empty and to the full connection set; un-merged DFS of all sequences of depth 2 over the single-pair alphabet plus every length-2 list request (305 requests). "+
		"Trigger-position family: every connection set (64) x firing channel (3) x trigger kind of that channel (edge, level, auto every NSamples, edge+auto) x pulse starting at every sample 0..60 of the stream or no pulse x trigger settings re-sent before the second block or not; 3 blocks of 30 samples (npre 3, nsamp 6): every other channel emits exactly the firing channel's primaries of the cycle (frames, once each, own samples) iff connected to it, including primaries at the earliest (stream index NPresamples) and latest triggerable sample", depth))
	for _, cfg := range []struct {
		nchan   int
		lancero bool
	}{{3, false}, {4, true}} {
		cfg := cfg
		ops := vGTOps(cfg.nchan, cfg.lancero)
		r.BFS(fmt.Sprintf("bfs/nchan=%d/lancero=%v", cfg.nchan, cfg.lancero), vexp.BFSSpec{NumOps: len(ops),
			Run: func(x *vexp.X, hist []int) (string, vexp.Result) {
				return vGTRun(x, cfg.nchan, cfg.lancero, ops, hist, false)
			}})
	}
	// the same through the RPC methods, judging what clients are told (GROUPTRIGGER messages)
	for _, cfg := range []struct {
		nchan   int
		lancero bool
	}{{3, false}, {4, true}} {
		cfg := cfg
		ops := vGTOps(cfg.nchan, cfg.lancero)
		r.BFS(fmt.Sprintf("rpc-bfs/nchan=%d/lancero=%v", cfg.nchan, cfg.lancero), vexp.BFSSpec{NumOps: len(ops),
			Run: func(x *vexp.X, hist []int) (string, vexp.Result) {
				return vGTRun(x, cfg.nchan, cfg.lancero, ops, hist, false, true)
			}})
		for first := range ops {
			first := first
			r.DFS(fmt.Sprintf("rpc-dfs/lancero=%v/first=%s", cfg.lancero, ops[first].name), -1, func(x *vexp.X) vexp.Result {
				hist := []int{first, x.Choose(len(ops))}
				_, res := vGTRun(x, cfg.nchan, cfg.lancero, ops, hist, false, true)
				return res
			})
		}
	}
	ops := vGTOps(3, false)
	for first := range ops {
		first := first
		r.DFS(fmt.Sprintf("dfs/first=%s", ops[first].name), -1, func(x *vexp.X) vexp.Result {
			hist := []int{first}
			for len(hist) < depth {
				hist = append(hist, x.Choose(len(ops)))
			}
			_, res := vGTRun(x, 3, false, ops, hist, true)
			return res
		})
	}

	// ---- receiver-list families: one request carries a whole list of receivers (and several source keys), in which
	// valid, self, repeated and out-of-range indices are mixed in every order; every valid pair of the request must take
	// effect (add) / disappear (delete), every other index must not, whatever precedes it in the list.
	const nch = 3
	idx := vGTIdx(nch)
	gens := vGTGenerators(nch)
	for _, rpc := range []bool{false, true} {
		rpc := rpc
		level := ""
		if rpc {
			level = "rpc-"
		}
		// (a) closure: every (connection set, list request) pair; one BFS per (kind, source key) so that the work spreads
		// over the workers; the generators reach every set, the list requests are applied to each of them once
		for _, kind := range []string{"add", "del"} {
			for _, s := range idx {
				lops := append(append([]vGTOp{}, gens...), vGTListOps(kind, s, idx, 2, 3)...)
				r.BFS(fmt.Sprintf("%sbfs-lists/%s/source=%d", level, kind, s), vexp.BFSSpec{NumOps: len(lops),
					Run: func(x *vexp.X, hist []int) (string, vexp.Result) {
						return vGTRun(x, nch, false, lops, hist, false, rpc)
					}})
			}
			// Lancero source (4 channels): lists for source 0 over the receivers its alphabet already uses
			lanOps := append(vGTOps(4, true), vGTListOps(kind, 0, []int{-1, 0, 1, 2, 4}, 2, 3)...)
			r.BFS(fmt.Sprintf("%sbfs-lists/%s/lancero", level, kind), vexp.BFSSpec{NumOps: len(lanOps),
				Run: func(x *vexp.X, hist []int) (string, vexp.Result) {
					return vGTRun(x, 4, true, lanOps, hist, false, rpc)
				}})
		}
		// (b) two source keys in one request, every pair of length-2 lists, on the empty and on the full connection set
		full := vGTReqOp("add", map[int][]int{0: {1, 2}, 1: {0, 2}, 2: {0, 1}})
		l2 := vGTLists(idx, 2)
		for _, kind := range []string{"add", "del"} {
			kind := kind
			for i, s1 := range idx {
				for _, s2 := range idx[i+1:] {
					s1, s2 := s1, s2
					r.DFS(fmt.Sprintf("%stwo-sources/%s/%d,%d", level, kind, s1, s2), -1, func(x *vexp.X) vexp.Result {
						op := vGTReqOp(kind, map[int][]int{s1: l2[x.Choose(len(l2))], s2: l2[x.Choose(len(l2))]})
						tops, hist := []vGTOp{full, op}, []int{1}
						if x.Choose(2) == 1 {
							hist = []int{0, 1}
						}
						_, res := vGTRun(x, nch, false, tops, hist, true, rpc)
						return res
					})
				}
			}
		}
		// (c) un-merged cross-check: all sequences of depth 2 over the single-pair alphabet plus every length-2 list request
		dops := vGTOps(nch, false)
		for _, kind := range []string{"add", "del"} {
			for _, s := range idx {
				dops = append(dops, vGTListOps(kind, s, idx, 2)...)
			}
		}
		for first := range dops {
			first := first
			r.DFS(fmt.Sprintf("%sdfs2-lists/first=%s", level, dops[first].name), -1, func(x *vexp.X) vexp.Result {
				hist := []int{first, x.Choose(len(dops))}
				_, res := vGTRun(x, nch, false, dops, hist, !rpc, rpc) // data cycles after every edit (source level) / after the last (RPC level)
				return res
			})
		}
	}

	// ---- trigger-position family (see vGTPositions): every connection set x firing channel x trigger kind x every
	// sample of the first two blocks as the pulse start (or no pulse) x settings re-sent before the second block or not
	for s := 0; s < nch; s++ {
		for _, k := range vGTKinds() {
			s, k := s, k
			r.DFS(fmt.Sprintf("positions/source=%d/%s", s, k.name), -1, func(x *vexp.X) vexp.Result {
				set := x.Choose(1 << uint(nch*(nch-1)))
				pos := x.Choose(2*vGTblock+2) - 1
				reconf := x.Choose(2) == 1
				return vGTPositions(x, nch, set, s, k, pos, reconf)
			})
		}
	}
}
