//go:build verif

package dastard

// C10 — source life cycle: start/stop always completes, cleans up, and is repeatable.
// Engine B: Start, concurrent Stops, the real CoreLoop and a producer goroutine run under the
// controlled scheduler; every interleaving (preemption-bounded) is checked for deadlock, final state,
// goroutine census and restartability.

import (
	"fmt"
	"github.com/usnistgov/dastard/lancero"
	"net"
	"os"
	"path/filepath"
	"sync/atomic"
	"testing"
	"time"

	"github.com/usnistgov/dastard/internal/vexp"
	"github.com/usnistgov/dastard/internal/vhook"
)

// v10Source is a scripted source: AnySource plus a producer goroutine that follows the protocol of the
// simulated sources (select{abort | tick}; send block; close(nextBlock) on abort).
type v10Source struct {
	AnySource
	mode      string // normal | errblock | close
	nblocks   int    // blocks produced before the event / before idling
	failStep  string // "", sample, prepare, startrun : which step of the first Start fails
	starts    int
	processed int32
	frame     int
	tick      chan struct{}
	procCh    chan struct{} // a token per processed block (never blocks the core loop)
	writeDir  string        // if set, writing is switched on inside StartRun (before the core loop exists)
	pauseW    bool          // ... and then paused
	behave    bool          // restart phase: the source runs normally
}

func v10New(mode string, nblocks int, failStep string) *v10Source {
	s := &v10Source{mode: mode, nblocks: nblocks, failStep: failStep}
	s.nchan = 1
	s.name = "verif-scripted"
	s.sampleRate = 1000
	s.samplePeriod = vPeriod
	s.procCh = make(chan struct{}, 64)
	s.tick = make(chan struct{})
	close(s.tick) // a tick is always available: whether tick or abort wins is a scheduling choice
	return s
}

func (s *v10Source) Sample() error {
	s.starts++
	if s.failStep == "sample" && s.starts == 1 {
		return fmt.Errorf("scripted: hardware is not sending data yet")
	}
	s.rowColCodes = []RowColCode{rcCode(0, 0, 1, 1)}
	return nil
}

func (s *v10Source) PrepareRun(npre, nsamp int) error {
	if s.failStep == "prepare" && s.starts == 1 {
		return fmt.Errorf("scripted: PrepareRun fails")
	}
	err := s.AnySource.PrepareRun(npre, nsamp)
	for _, dsp := range s.processors {
		dsp.PubRecordsChan = nil
		dsp.PubSummariesChan = nil
	}
	return err
}

func (s *v10Source) ProcessSegments(b *dataBlock) error {
	err := s.AnySource.ProcessSegments(b)
	atomic.AddInt32(&s.processed, 1)
	select {
	case s.procCh <- struct{}{}:
	default:
	}
	return err
}

func (s *v10Source) block() *dataBlock {
	n := 8
	d := make([]RawType, n)
	for i := range d {
		d[i] = 1000
	}
	b := new(dataBlock)
	b.segments = []DataSegment{{rawData: d, framesPerSample: 1, firstFrameIndex: FrameIndex(s.frame), firstTime: vT0.Add(time.Duration(s.frame) * vPeriod), framePeriod: vPeriod}}
	b.nSamp = n
	s.frame += n
	return b
}

func (s *v10Source) StartRun() error {
	if s.failStep == "startrun" && s.starts == 1 {
		return fmt.Errorf("scripted: StartRun fails")
	}
	abort, next := s.abortSelf, s.nextBlock
	mode, nblocks := s.mode, s.nblocks
	if s.behave {
		mode = "normal" // the restart phase checks that a healthy run is possible again
	}
	if s.writeDir != "" {
		if err := s.WriteControl(&WriteControlConfig{Request: "START", Path: s.writeDir, WriteLJH22: true}); err != nil {
			return err
		}
		if s.pauseW {
			if err := s.WriteControl(&WriteControlConfig{Request: "PAUSE"}); err != nil {
				return err
			}
		}
	}
	go func() {
		for i := 0; ; i++ {
			if i >= nblocks {
				switch mode {
				case "errblock":
					b := new(dataBlock)
					b.err = fmt.Errorf("scripted source error")
					vhook.P(901)
					next <- b
					vhook.P(902)
					close(next)
					return
				case "close":
					vhook.P(902)
					close(next)
					return
				}
				if i >= nblocks+2 { // idle: nothing more to send until aborted
					vhook.P(903)
					<-abort
					vhook.P(902)
					close(next)
					return
				}
			}
			vhook.PSC(904, []interface{}{abort, s.tick}, []bool{false, false}, false)
			select {
			case <-abort:
				vhook.C(0)
				vhook.P(902)
				close(next)
				return
			case <-s.tick:
				vhook.C(1)
			}
			b := s.block()
			vhook.P(905)
			next <- b
		}
	}()
	return nil
}

func init() {
	vhook.Doc(901, "producer: send error block")
	vhook.Doc(902, "producer: close(nextBlock)")
	vhook.Doc(903, "producer: idle, wait for abort")
	vhook.Doc(904, "producer: select{abort|tick}")
	vhook.Doc(905, "producer: send block")
	vhook.Doc(906, "queued request (in the core loop): send result")
	vhook.Doc(907, "requester: select{queue request|run done}")
	vhook.Doc(908, "requester: wait for result")
}

// v10Request does what SourceControl.runLaterIfActive does with a request: hand it to the core loop, or give up
// when the run has ended; the request itself reports its result back as the RPC closures do.
func v10Request(queued chan func(), results chan error, runDone <-chan struct{}) string {
	f := func() {
		vhook.P(906)
		results <- nil
	}
	vhook.PSC(907, []interface{}{queued, runDone}, []bool{true, false}, false)
	select {
	case queued <- f:
		vhook.C(0)
		vhook.P(908)
		<-results
		return "served"
	case <-runDone:
		vhook.C(1)
		return "source-stopped"
	}
}

// runAbaco: the real AbacoSource (Sample/StartRun/readerMainLoop/getNextBlock worker/distributeData) under
// Start, a queued request and Stop.
func (sc v10Scenario) runAbaco(x *vexp.X) vexp.Result {
	if sc.lancero {
		return sc.runLancero(x)
	}
	src, clock := v17NewAbaco()
	defer src.stopTickers()
	return sc.runHW(x, src, src.done, &src.AnySource, clock)
}

// v10Sim wraps the real TriangleSource / SimPulseSource (their timers behind always-ready seams) to count blocks.
type v10Tri struct {
	*TriangleSource
	done chan struct{}
}

func (t *v10Tri) ProcessSegments(b *dataBlock) error {
	err := t.TriangleSource.ProcessSegments(b)
	select {
	case t.done <- struct{}{}:
	default:
	}
	return err
}

type v10Sim struct {
	*SimPulseSource
	done chan struct{}
}

func (t *v10Sim) ProcessSegments(b *dataBlock) error {
	err := t.SimPulseSource.ProcessSegments(b)
	select {
	case t.done <- struct{}{}:
	default:
	}
	return err
}

// runSimulated: the real simulated sources under Start, [request,] Stop from two callers, and a restart.
func (sc v10Scenario) runSimulated(x *vexp.X) vexp.Result {
	noClock := func(started chan struct{}) func() { return func() { <-started } }
	var res vexp.Result
	var src DataSource
	var any *AnySource
	var done chan struct{}
	mk := func() {
		if sc.simKind == "triangle" {
			ts := NewTriangleSource()
			if err := ts.Configure(&TriangleSourceConfig{Nchan: 2, SampleRate: 1e6, Min: 100, Max: 102}); err != nil {
				panic("harness: " + err.Error())
			}
			w := &v10Tri{TriangleSource: ts, done: make(chan struct{}, 16)}
			src, any, done = w, &ts.AnySource, w.done
		} else {
			sp := NewSimPulseSource()
			if err := sp.Configure(&SimPulseSourceConfig{Nchan: 2, SampleRate: 1e5, Pedestal: 1000, Amplitudes: []float64{5000}, Nsamp: 20}); err != nil {
				panic("harness: " + err.Error())
			}
			w := &v10Sim{SimPulseSource: sp, done: make(chan struct{}, 16)}
			src, any, done = w, &sp.AnySource, w.done
		}
	}
	mk()
	vSimTicks = 3
	res = sc.runHW(x, src, done, any, noClock)
	if any.numberWrittenTicker != nil {
		any.numberWrittenTicker.Stop()
		any.writingState.externalTriggerTicker.Stop()
		any.writingState.dataDropTicker.Stop()
	}
	return res
}

// runLancero: the real LanceroSource (StartRun/launchLanceroReader/getNextBlock worker/distributeData) with the
// scripted card of C04.
func (sc v10Scenario) runLancero(x *vexp.X) vexp.Result {
	src, _ := v17NewLancero()
	v17Ticks = make(chan time.Time)
	defer func() {
		if src.numberWrittenTicker != nil {
			src.numberWrittenTicker.Stop()
			src.writingState.externalTriggerTicker.Stop()
			src.writingState.dataDropTicker.Stop()
		}
	}()
	clock := func(started chan struct{}) func() {
		return func() {
			<-started
			for i := 0; i < 6; i++ {
				vhook.PSC(921, []interface{}{v17Ticks, src.abortSelf}, []bool{true, false}, false)
				select {
				case v17Ticks <- time.Time{}:
					vhook.C(0)
				case <-src.abortSelf:
					vhook.C(1)
					return
				}
			}
		}
	}
	return sc.runHW(x, src, src.done, &src.AnySource, clock)
}

func (sc v10Scenario) runHW(x *vexp.X, src DataSource, done chan struct{}, any *AnySource, clock func(chan struct{}) func()) vexp.Result {
	queued := make(chan func())
	results := make(chan error)
	started := make(chan struct{})
	var viol, class, reqOut string
	var stopErr error
	fail := func(c, f string, a ...interface{}) {
		if viol == "" {
			viol, class = fmt.Sprintf(f, a...), c
		}
	}
	drivers := []func(){
		func() {
			if err := Start(src, queued, 3, 6); err != nil {
				fail("start-error", "Start of the Abaco source returned %v", err)
				close(started)
				return
			}
			close(started)
			if sc.nblocks > 0 {
				<-done // at least one block has been processed
			}
			stopErr = src.Stop()
		},
		clock(started),
	}
	names := []string{"control", "clock"}
	for i := 0; i < sc.nreq; i++ {
		names = append(names, fmt.Sprintf("requester%d", i+1))
		drivers = append(drivers, func() {
			<-started
			reqOut = v10Request(queued, results, any.RunDoneChan())
		})
	}
	s := vhook.Run(x, vhook.Options{MaxSteps: 1500, Names: names, DelayBound: sc.delay}, drivers...)
	out := s.Outcome()
	if out.Pruned {
		s.Release(2 * time.Second)
		if out.PanicClass != "" {
			return vexp.Result{Violation: sc.name + ": panic (free-running tail of a pruned execution): " + out.PanicText, Class: out.PanicClass}
		}
		return vexp.Result{Skip: true}
	}
	if out.PanicClass != "" {
		fail(out.PanicClass, "panic: %s", out.PanicText)
	} else if out.Deadlock {
		fail("deadlock", "deadlock: %v", out.Blocked)
	} else if out.Horizon {
		fail("runaway", "no termination within %d scheduling steps", out.Steps)
	}
	if viol == "" {
		if stopErr != nil {
			fail("stop-error", "Stop returned %v", stopErr)
		}
		if st := any.sourceState; st != Inactive {
			fail("not-inactive", "all calls have returned but the source state is %v, not Inactive", st)
		}
	}
	surv := s.Release(2 * time.Second)
	if viol == "" && out.PanicClass != "" {
		fail(out.PanicClass, "panic: %s", out.PanicText)
	}
	if viol == "" && len(surv) > 0 {
		fail("goroutine-left", "all calls returned and the source is inactive, but goroutines of the run are still alive: %v", surv)
	}
	if viol != "" {
		viol = fmt.Sprintf("%s: %s\nschedule: %s", sc.name, viol, s.TraceString())
	}
	res := vexp.Result{Violation: viol, Class: class, Nontrivial: out.Preempt > 0, Outcome: fmt.Sprintf("stop=%v request=%s", stopErr == nil, reqOut)}
	if out.Horizon {
		res.CutAt = 60
	}
	return res
}

type v10Scenario struct {
	name     string
	mode     string
	nblocks  int
	failStep string
	nstop    int    // number of concurrent Stop callers (in addition to the starter, if starterStops)
	writing  bool   // writing switched on before the Stops
	paused   bool   // ... and paused
	twoStart bool   // S4: Start || Start on an inactive source
	history  bool   // S5: one thread, Start/Stop/Start histories
	nreq     int    // S6/S7: threads that hand a request to the core loop (as runLaterIfActive does)
	abaco    bool   // S6: the real AbacoSource with a scripted packet producer
	simKind  string // S8: "triangle" | "simpulse": the real simulated source (timers behind always-ready seams)
	lancero  bool   // S6: the real LanceroSource with the scripted card (implies abaco = hardware-source driver)
	delay    bool   // bound all deviations from the canonical schedule (delay bounding) instead of preemptions only
}

func (sc v10Scenario) run(x *vexp.X, dir string) vexp.Result {
	if sc.simKind != "" {
		return sc.runSimulated(x)
	}
	if sc.abaco {
		return sc.runAbaco(x)
	}
	src := v10New(sc.mode, sc.nblocks, sc.failStep)
	if sc.writing {
		src.writeDir = dir
		src.pauseW = sc.paused
	}
	queued := make(chan func())
	var viol, class string
	fail := func(c, f string, a ...interface{}) {
		if viol == "" {
			viol, class = fmt.Sprintf(f, a...), c
		}
	}
	started := make(chan struct{})
	var startErrs [2]error
	stopErrs := make([]error, sc.nstop+1)
	var drivers []func()
	names := []string{}
	checkStopErr := func(who string, err error) {
		if err != nil && err.Error() != "AnySource not active, cannot stop" {
			fail("stop-error", "%s: Stop returned %v", who, err)
		}
	}
	switch {
	case sc.history:
		names = append(names, "history")
		drivers = append(drivers, func() {
			err := Start(src, queued, 3, 6)
			if sc.failStep != "" {
				if err == nil {
					fail("start-should-fail", "first Start succeeded although its %s step fails", sc.failStep)
					return
				}
				if st := src.GetState(); st != Inactive {
					fail("failed-start-not-inactive", "after the failed Start (%v) the source is in state %v, not Inactive", err, st)
					return
				}
				if err := Start(src, queued, 3, 6); err != nil {
					fail("restart-after-failed-start", "Start after a failed Start returned %v", err)
					return
				}
			} else if err != nil {
				fail("start-error", "Start on an inactive source returned %v", err)
				return
			}
			if sc.mode == "normal" {
				checkStopErr("history", src.Stop())
			} else {
				src.RunDoneWait() // the source ends itself
			}
			if st := src.GetState(); st != Inactive {
				fail("not-inactive", "after the run ended the state is %v", st)
				return
			}
			if src.WritingIsActive() {
				fail("writing-still-active", "the run has ended (state Inactive) but writing is still active")
				return
			}
			if err := Start(src, queued, 3, 6); err != nil {
				fail("restart-error", "second Start on the same source returned %v", err)
				return
			}
			checkStopErr("history(2)", src.Stop())
		})
	case sc.twoStart:
		for i := 0; i < 2; i++ {
			i := i
			names = append(names, fmt.Sprintf("start%d", i))
			drivers = append(drivers, func() {
				startErrs[i] = Start(src, queued, 3, 6)
				if startErrs[i] == nil {
					checkStopErr(fmt.Sprintf("start%d", i), src.Stop())
				}
			})
		}
	default:
		names = append(names, "starter")
		drivers = append(drivers, func() {
			if err := Start(src, queued, 3, 6); err != nil {
				fail("start-error", "Start on an inactive source returned %v", err)
				close(started)
				return
			}
			if sc.mode == "normal" {
				if st := src.GetState(); st != Active {
					fail("not-active-after-start", "Start returned nil but the state is %v", st)
				}
			}
			close(started)
			stopErrs[0] = src.Stop()
			checkStopErr("starter", stopErrs[0])
		})
		for i := 1; i <= sc.nstop; i++ {
			i := i
			names = append(names, fmt.Sprintf("stopper%d", i))
			drivers = append(drivers, func() {
				<-started
				stopErrs[i] = src.Stop()
				checkStopErr(fmt.Sprintf("stopper%d", i), stopErrs[i])
			})
		}
		results := make(chan error)
		for i := 0; i < sc.nreq; i++ {
			names = append(names, fmt.Sprintf("requester%d", i+1))
			drivers = append(drivers, func() {
				<-started
				if viol == "" { // Start succeeded
					v10Request(queued, results, src.RunDoneChan())
				}
			})
		}
	}
	s := vhook.Run(x, vhook.Options{MaxSteps: 400, Names: names, DelayBound: sc.delay}, drivers...)
	out := s.Outcome()
	if out.Pruned {
		s.Release(2 * time.Second)
		if out.PanicClass != "" { // a call panicked while the abandoned execution ran out freely: still a finding
			return vexp.Result{Violation: sc.name + ": a Start/Stop call panicked (free-running tail of a pruned execution): " + out.PanicText, Class: out.PanicClass}
		}
		return vexp.Result{Skip: true}
	}
	if out.PanicClass != "" {
		fail(out.PanicClass, "a Start/Stop call panicked: %s", out.PanicText)
	} else if out.Deadlock {
		fail("deadlock", "deadlock: %v", out.Blocked)
	} else if out.Horizon {
		fail("runaway", "no termination within %d scheduling steps", out.Steps)
	}
	var surv []string
	if viol == "" {
		// all calls have returned; every other goroutine is parked or blocked, possibly inside a critical
		// section, so the fields are read directly rather than through the locking accessors
		if st := src.AnySource.sourceState; st != Inactive {
			fail("not-inactive", "all Start/Stop calls have returned but the source state is %v, not Inactive", st)
		}
		if src.writingState.Active {
			fail("writing-still-active", "source stopped but writing is still active")
		}
		if sc.twoStart {
			ok := 0
			for _, e := range startErrs {
				if e == nil {
					ok++
				}
			}
			if ok < 1 {
				fail("no-start-succeeded", "two concurrent Starts on an inactive source both failed: %v / %v", startErrs[0], startErrs[1])
			}
		}
	}
	surv = s.Release(2 * time.Second)
	if viol == "" && out.PanicClass != "" {
		fail(out.PanicClass, "a Start/Stop call panicked: %s", out.PanicText)
	}
	if viol == "" && len(surv) > 0 {
		fail("goroutine-left", "all calls returned and the source is inactive, but goroutines of the run are still alive: %v", surv)
	}
	if viol == "" {
		// repeatable: the same source object can be started again and delivers (free-running now)
		// (again under the scheduler, canonical schedule, so that "never delivers" is a deadlock verdict
		// and not a wall-clock time-out)
		src.behave = true
		src.writeDir = ""
		for len(src.procCh) > 0 {
			<-src.procCh
		}
		var rerr, serr error
		var st2 SourceState
		s2 := vhook.Run(&vexp.X{}, vhook.Options{MaxSteps: 400, Names: []string{"restart"}}, func() {
			if rerr = Start(src, queued, 3, 6); rerr != nil {
				return
			}
			<-src.procCh // a block has been processed
			serr = src.Stop()
			st2 = src.GetState()
		})
		o2 := s2.Outcome()
		s2.Release(2 * time.Second)
		switch {
		case o2.PanicClass != "":
			fail(o2.PanicClass, "restart panicked: %s", o2.PanicText)
		case rerr != nil:
			fail("restart-error", "Start on the stopped source returned %v", rerr)
		case o2.Deadlock || o2.Horizon:
			fail("restart-delivers-nothing", "the restarted source never processed a block (or its Stop never returned): %v", o2.Blocked)
		case serr != nil:
			fail("restart-stop-error", "Stop after restart returned %v", serr)
		case st2 != Inactive:
			fail("not-inactive", "after restart+Stop the state is %v", st2)
		}
	}
	src.numberWrittenTicker.Stop()
	if viol != "" {
		viol = fmt.Sprintf("%s: %s\nschedule: %s", sc.name, viol, s.TraceString())
	}
	return vexp.Result{Violation: viol, Class: class, Nontrivial: out.Preempt > 0,
		Outcome: fmt.Sprintf("stop=%v start=%v", errStrs(stopErrs), errStrs(startErrs[:]))}
}

func errStrs(es []error) []string {
	var out []string
	for _, e := range es {
		if e == nil {
			out = append(out, "nil")
		} else {
			out = append(out, "err")
		}
	}
	return out
}

// v10AbacoUDP (S9): the property's own example of a failed Start. A real AbacoSource with a real UDP receiver is
// started while nothing is sending (the Start must fail and leave the source inactive); then the "hardware"
// starts sending and the same source object, configured again, must start, deliver a block and stop.
// Free-running (real sockets, the reader's 2 s sampling window): one execution, no schedule enumeration.
func v10AbacoUDP(x *vexp.X, overlap bool) vexp.Result {
	var shard, nshard int
	fmt.Sscanf(os.Getenv("VERIF_SHARD"), "%d/%d", &shard, &nshard)
	port := 18500 + shard
	if overlap {
		port += 100
	}
	hostport := fmt.Sprintf("127.0.0.1:%d", port)
	bad := func(class, f string, a ...interface{}) vexp.Result {
		return vexp.Result{Violation: "S9-abaco-udp: " + fmt.Sprintf(f, a...), Class: class, Nontrivial: true}
	}
	as, err := NewAbacoSource()
	if err != nil {
		panic("harness: NewAbacoSource: " + err.Error())
	}
	cfg := func() *AbacoSourceConfig {
		return &AbacoSourceConfig{HostPortUDP: []string{hostport}, AbacoUnwrapOptions: AbacoUnwrapOptions{RescaleRaw: true, Unwrap: true, ResetAfter: 20000, PulseSign: 1}}
	}
	if err := as.Configure(cfg()); err != nil {
		return bad("configure-error", "Configure with one UDP receiver on %s: %v", hostport, err)
	}
	src := &v17Abaco{AbacoSource: as, done: make(chan struct{}, 16)}
	queued := make(chan func())
	v17Ticks = make(chan time.Time)
	stop := make(chan struct{})
	defer close(stop)
	go func() { // the reader's ticker (a seam in this build)
		for {
			select {
			case v17Ticks <- time.Time{}:
				time.Sleep(500 * time.Microsecond)
			case <-stop:
				return
			}
		}
	}()
	x.Steps = 4
	l := &v03Layout{name: "c10udp", groups: []v03Group{{0, 2}}, frames: 2}
	conn, err := net.Dial("udp", hostport)
	if err != nil {
		panic("harness: dial: " + err.Error())
	}
	defer conn.Close()
	var mode int32 // 0: silent, 1: two channel groups that overlap (a configuration Sample rejects), 2: one proper group
	go func() {
		lo := &v03Layout{name: "c10udp-overlap", groups: []v03Group{{0, 2}, {1, 2}}, frames: 2}
		for sn := v03Base; ; sn++ {
			select {
			case <-stop:
				return
			default:
			}
			switch atomic.LoadInt32(&mode) {
			case 1:
				conn.Write(v03Packet(lo, lo.groups[0], sn).Bytes())
				conn.Write(v03Packet(lo, lo.groups[1], sn).Bytes())
			case 2:
				conn.Write(v03Packet(l, l.groups[0], sn).Bytes())
			}
			time.Sleep(100 * time.Microsecond)
		}
	}()
	if overlap {
		atomic.StoreInt32(&mode, 1)
	}
	err1 := Start(src, queued, 3, 6)
	x.Logf("first Start (nothing is sending, or overlapping channel groups): err=%v", err1)
	if err1 == nil {
		// not demanded by the property, but then there is nothing to check
		src.Stop()
		return vexp.Result{Outcome: "first-start-succeeded-without-data"}
	}
	if st := as.GetState(); st != Inactive {
		return bad("failed-start-not-inactive", "after the failed Start (%v) the source is in state %v, not Inactive", err1, st)
	}
	// the hardware starts sending properly: one group of two channels, a packet every 100 us
	atomic.StoreInt32(&mode, 2)
	if overlap {
		time.Sleep(50 * time.Millisecond) // let the packets of the rejected layout drain from the socket
	}
	if err := as.Configure(cfg()); err != nil {
		return bad("reconfigure-error", "Configure after the failed Start: %v", err)
	}
	err2 := Start(src, queued, 3, 6)
	x.Logf("second Start (packets are flowing): err=%v", err2)
	if err2 != nil {
		return bad("restart-after-failed-start", "the first Start failed because nothing was sending (%v); with packets flowing, the same source configured again cannot be started: %v", err1, err2)
	}
	select {
	case <-src.done:
	case <-time.After(60 * time.Second):
		return bad("no-block-after-start", "Start succeeded but no block was processed within 60 s")
	}
	stopped := make(chan error, 1)
	go func() { stopped <- src.Stop() }()
	select {
	case err := <-stopped:
		if err != nil {
			return bad("stop-error", "Stop returned %v", err)
		}
	case <-time.After(60 * time.Second):
		return bad("stop-does-not-return", "Stop has not returned after 60 s")
	}
	if st := as.GetState(); st != Inactive {
		return bad("not-inactive", "after Stop the state is %v", st)
	}
	src.stopTickers()
	return vexp.Result{Nontrivial: true, Outcome: "failed-start-then-start-ok"}
}

// v10RPCHistory (S10): "a failed Start leaves the source inactive and able to be started successfully later; the same
// source can be configured and started again", through the SourceControl methods clients call, for the sources
// that dastard itself owns (one object per type for the life of the server): a configuration request that is
// rejected, a Start, then a valid configuration and a Start that must succeed, deliver a block, and stop; twice.
// Free-running (the Lancero path samples a lancero.NoHardware card in real time): one execution per source type.
func v10RPCHistory(x *vexp.X, kind string) vexp.Result {
	bad := func(class, f string, a ...interface{}) vexp.Result {
		return vexp.Result{Violation: "S10-rpc/" + kind + ": " + fmt.Sprintf(f, a...), Class: class, Nontrivial: true}
	}
	sc := NewSourceControl()
	sc.status.Npresamp, sc.status.Nsamples = 4, 12
	updates := make(chan ClientUpdate, 256)
	sc.clientUpdates = updates
	var blocks int64
	stop := make(chan struct{})
	defer close(stop)
	go func() { // what the client updater and RunRPCServer's heartbeat loop do: drain
		for {
			select {
			case <-updates:
			case h := <-sc.heartbeats:
				if h.Running && h.DataMB > 0 {
					atomic.AddInt64(&blocks, 1)
				}
			case <-stop:
				return
			}
		}
	}()
	v17Ticks = make(chan time.Time)
	go func() { // the hardware readers' ticker is a seam in this build
		for {
			select {
			case v17Ticks <- time.Time{}:
				time.Sleep(time.Millisecond)
			case <-stop:
				return
			}
		}
	}()
	vSimTicks = 1 << 20
	ok := false
	var name string
	var configure func(valid bool) error
	// progress: something that grows with every block the running source delivers (read without synchronisation:
	// harness-only, and only used to wait)
	progress := func() int64 { return atomic.LoadInt64(&blocks) }
	switch kind {
	case "triangle":
		name = "TRIANGLESOURCE"
		progress = func() int64 { return int64(sc.triangle.nextFrameNum) }
		configure = func(valid bool) error {
			c := TriangleSourceConfig{Nchan: 2, SampleRate: 100000, Min: 100, Max: 200}
			if !valid {
				c.Nchan = -1
			}
			return sc.ConfigureTriangleSource(&c, &ok)
		}
	case "simpulse":
		name = "SIMPULSESOURCE"
		progress = func() int64 { return int64(sc.simPulses.nextFrameNum) }
		configure = func(valid bool) error {
			c := SimPulseSourceConfig{Nchan: 2, SampleRate: 100000, Pedestal: 1000, Amplitudes: []float64{5000}, Nsamp: 200}
			if !valid {
				c.Nchan = 0
			}
			return sc.ConfigureSimPulseSource(&c, &ok)
		}
	case "lancero":
		name = "LANCEROSOURCE"
		card, err := lancero.NewNoHardware(1, 4, 1000)
		if err != nil {
			panic("harness: " + err.Error())
		}
		sc.lancero.devices[0] = &LanceroDevice{card: card, devnum: 0}
		sc.lancero.ncards = 1
		saved := cringeGlobalsPath
		defer func() { cringeGlobalsPath = saved }()
		cringeGlobalsPath = filepath.Join(os.Getenv("TMPDIR"), fmt.Sprintf("cringeGlobals_%d.json", os.Getpid()))
		os.Remove(cringeGlobalsPath)
		defer os.Remove(cringeGlobalsPath)
		configure = func(valid bool) error {
			if valid { // Cringe has written its file by now
				globals := `{"SETT": 18, "seqln": 4, "lsync": 1000, "testpattern": 2, "propagationdelay": 9, "NSAMP": 4, "carddelay": 7, "XPT": 3}`
				if err := os.WriteFile(cringeGlobalsPath, []byte(globals), 0644); err != nil {
					panic("harness: " + err.Error())
				}
			}
			c := LanceroSourceConfig{CardDelay: []int{0}, ActiveCards: []int{0}, FirstRow: 1}
			return sc.ConfigureLanceroSource(&c, &ok)
		}
	}
	stopAndCheck := func(when string) *vexp.Result {
		d := ""
		done := make(chan error, 1)
		go func() { done <- sc.Stop(&d, &ok) }()
		select {
		case err := <-done:
			if err != nil {
				r := bad("stop-error", "%s: Stop returned %v", when, err)
				return &r
			}
		case <-time.After(60 * time.Second):
			r := bad("stop-does-not-return", "%s: Stop has not returned after 60 s", when)
			return &r
		}
		if st := sc.ActiveSource.GetState(); st != Inactive {
			r := bad("not-inactive", "%s: after Stop the source state is %v", when, st)
			return &r
		}
		return nil
	}
	x.Steps = 6
	err0 := configure(false)
	if err0 == nil {
		return bad("invalid-configuration-accepted", "the invalid configuration was accepted")
	}
	err1 := sc.Start(&name, &ok)
	x.Logf("rejected configuration: %v; Start after it: %v", err0, err1)
	if err1 == nil { // started with whatever configuration was in force before: stop it again
		if r := stopAndCheck("after the Start that followed the rejected configuration"); r != nil {
			return *r
		}
	} else if sc.isSourceActive {
		return bad("failed-start-not-inactive", "Start failed (%v) but SourceControl believes a source is active", err1)
	}
	for cycle := 1; cycle <= 2; cycle++ {
		if err := configure(true); err != nil {
			return bad("valid-configuration-rejected", "cycle %d: the valid configuration is rejected: %v", cycle, err)
		}
		if err := sc.Start(&name, &ok); err != nil {
			return bad("restart-after-failed-start", "cycle %d: after a rejected configuration (%v) and the Start that followed it (%v), the source was configured successfully but cannot be started: %v", cycle, err0, err1, err)
		}
		before := progress()
		t0 := time.Now()
		for progress() == before {
			if time.Since(t0) > 60*time.Second {
				return bad("no-block-after-start", "cycle %d: Start succeeded but no data arrived within 60 s", cycle)
			}
			time.Sleep(time.Millisecond)
		}
		if r := stopAndCheck(fmt.Sprintf("cycle %d", cycle)); r != nil {
			return *r
		}
	}
	return vexp.Result{Nontrivial: true, Outcome: fmt.Sprintf("first-start-failed=%v then 2 cycles ok", err1 != nil)}
}

// v10RPCScenario (S11): the life cycle as a client sees it, through the real SourceControl request handlers, with a
// source that ends BY ITSELF (the real ErroringSource, the only self-terminating source SourceControl can be asked
// for by name without hardware: its producer sends an error block and the core loop returns), under the controlled
// scheduler. Per cycle: SourceControl.Start; the run ends on its own; nstop concurrent SourceControl.Stop calls
// (requests of different client connections are served concurrently), either after the run has ended or racing
// with the ending; once all of them have returned the source must be Inactive and the next SourceControl.Start must
// succeed. After the last cycle the same SourceControl must start another of its sources (Triangle, timers behind
// the seam), data must arrive, and Stop must return (canonical schedule; "never" is a deadlock verdict).
// What Stop replies is not judged: only that it returns.
type v10RPCScenario struct {
	name    string
	waitEnd bool // the callers wait for the run to end by itself before they call Stop (else Stop races with the ending)
	nstop   int  // concurrent SourceControl.Stop callers per cycle (the operator is one of them)
	cycles  int
}

// v10Drain does what the client updater and RunRPCServer's heartbeat collector do with SourceControl's two outgoing
// channels: receive. It is started by a driver thread (so it belongs to the execution's world) and has no scheduling
// points of its own: it runs as part of the step that sends. delivered (may be nil) is closed at the second
// heartbeat that reports data: the producer has then handed its first block to the core loop.
func v10Drain(sc *SourceControl, updates chan ClientUpdate, quit chan struct{}, delivered chan struct{}) {
	n := 0
	for {
		select {
		case <-updates:
		case h := <-sc.heartbeats:
			if h.Running && h.DataMB > 0 {
				n++
				if n == 2 && delivered != nil {
					close(delivered)
				}
			}
		case <-quit:
			return
		}
	}
}

func (rs v10RPCScenario) run(x *vexp.X) vexp.Result {
	sc := NewSourceControl()
	sc.status.Npresamp, sc.status.Nsamples = 3, 6
	updates := make(chan ClientUpdate, 10) // as clientMessageChan
	sc.clientUpdates = updates
	defer func() {
		for _, a := range []*AnySource{&sc.erroring.AnySource, &sc.triangle.AnySource} {
			if a.numberWrittenTicker != nil {
				a.numberWrittenTicker.Stop()
				a.writingState.externalTriggerTicker.Stop()
				a.writingState.dataDropTicker.Stop()
			}
		}
	}()
	var viol, class string
	fail := func(c, f string, a ...interface{}) {
		if viol == "" {
			viol, class = fmt.Sprintf(f, a...), c
		}
	}
	name, dummy := "ERRORINGSOURCE", ""
	src := sc.erroring
	stopErrs := make([]error, rs.cycles*rs.nstop)
	started := make([]chan struct{}, rs.cycles)
	returned := make([]chan struct{}, rs.cycles)
	for c := range started {
		started[c] = make(chan struct{})
		returned[c] = make(chan struct{}, rs.nstop)
	}
	aborted := false
	quit := make(chan struct{})
	stop := func(c, i int) {
		if rs.waitEnd {
			src.RunDoneWait() // the run has ended by itself; the caller cannot know and asks for a Stop
		}
		ok := false
		stopErrs[c*rs.nstop+i] = sc.Stop(&dummy, &ok)
	}
	drivers := []func(){func() {
		defer close(quit)
		go v10Drain(sc, updates, quit, nil)
		abort := func(c int) {
			aborted = true
			for ; c < rs.cycles; c++ {
				close(started[c])
			}
		}
		for c := 0; c < rs.cycles; c++ {
			ok := false
			if err := sc.Start(&name, &ok); err != nil {
				if c == 0 {
					fail("start-error", "SourceControl.Start(%s) with no source active returned %v", name, err)
				} else {
					fail("restart-error", "cycle %d: the previous run of %s has ended, all %d SourceControl.Stop calls have returned (%v) and the source is Inactive, but SourceControl.Start returned %v",
						c+1, name, rs.nstop, errTexts(stopErrs[(c-1)*rs.nstop:c*rs.nstop]), err)
				}
				abort(c)
				return
			}
			close(started[c])
			stop(c, 0)
			for i := 1; i < rs.nstop; i++ {
				<-returned[c]
			}
			if st := src.GetState(); st != Inactive {
				fail("not-inactive", "cycle %d: all SourceControl.Stop calls have returned (%v) but the source state is %v, not Inactive",
					c+1, errTexts(stopErrs[c*rs.nstop:(c+1)*rs.nstop]), st)
				abort(c + 1)
				return
			}
		}
	}}
	names := []string{"operator"}
	for i := 1; i < rs.nstop; i++ {
		i := i
		names = append(names, fmt.Sprintf("stopper%d", i))
		drivers = append(drivers, func() {
			for c := 0; c < rs.cycles; c++ {
				<-started[c]
				if aborted {
					return
				}
				stop(c, i)
				returned[c] <- struct{}{}
			}
		})
	}
	s := vhook.Run(x, vhook.Options{MaxSteps: 600, Names: names}, drivers...)
	out := s.Outcome()
	if out.Pruned {
		s.Release(2 * time.Second)
		if out.PanicClass != "" {
			return vexp.Result{Violation: rs.name + ": a SourceControl call panicked (free-running tail of a pruned execution): " + out.PanicText, Class: out.PanicClass}
		}
		return vexp.Result{Skip: true}
	}
	if out.PanicClass != "" {
		fail(out.PanicClass, "a SourceControl call panicked: %s", out.PanicText)
	} else if out.Deadlock {
		fail("deadlock", "deadlock: %v", out.Blocked)
	} else if out.Horizon {
		fail("runaway", "no termination within %d scheduling steps", out.Steps)
	}
	surv := s.Release(2 * time.Second)
	if viol == "" && out.PanicClass != "" {
		fail(out.PanicClass, "a SourceControl call panicked: %s", out.PanicText)
	}
	if viol == "" && len(surv) > 0 {
		fail("goroutine-left", "all calls returned and the source is inactive, but goroutines of the run are still alive: %v", surv)
	}
	if viol == "" {
		// the same SourceControl can start a source again, and data arrive (canonical schedule)
		vSimTicks = 3
		quit2 := make(chan struct{})
		delivered := make(chan struct{})
		var cerr, rerr, serr error
		var st2 SourceState
		reached := false
		s2 := vhook.Run(&vexp.X{}, vhook.Options{MaxSteps: 600, Names: []string{"operator"}}, func() {
			defer close(quit2)
			go v10Drain(sc, updates, quit2, delivered)
			ok := false
			if cerr = sc.ConfigureTriangleSource(&TriangleSourceConfig{Nchan: 2, SampleRate: 1e6, Min: 100, Max: 102}, &ok); cerr != nil {
				return
			}
			tname := "TRIANGLESOURCE"
			if rerr = sc.Start(&tname, &ok); rerr != nil {
				return
			}
			<-delivered
			serr = sc.Stop(&dummy, &ok)
			st2 = sc.triangle.GetState()
			reached = true
		})
		o2 := s2.Outcome()
		s2.Release(2 * time.Second)
		last := errTexts(stopErrs[(rs.cycles-1)*rs.nstop:])
		switch {
		case o2.PanicClass != "":
			fail(o2.PanicClass, "starting the Triangle source afterwards panicked: %s", o2.PanicText)
		case cerr != nil:
			fail("valid-configuration-rejected", "ConfigureTriangleSource returned %v", cerr)
		case rerr != nil:
			fail("restart-error", "the last run of %s has ended, all %d SourceControl.Stop calls have returned (%v) and the source is Inactive, but SourceControl.Start(TRIANGLESOURCE) returned %v", name, rs.nstop, last, rerr)
		case o2.Deadlock || o2.Horizon || !reached:
			fail("restart-delivers-nothing", "the Triangle source started afterwards never delivered data (or its Stop never returned): %v", o2.Blocked)
		case serr != nil:
			fail("restart-stop-error", "Stop of the Triangle source started afterwards returned %v", serr)
		case st2 != Inactive:
			fail("not-inactive", "after the Triangle source started afterwards was stopped its state is %v", st2)
		}
	}
	if viol != "" {
		viol = fmt.Sprintf("%s: %s\nschedule: %s", rs.name, viol, s.TraceString())
	}
	return vexp.Result{Violation: viol, Class: class, Nontrivial: out.Preempt > 0, Outcome: fmt.Sprintf("rpc-stop=%v", errStrs(stopErrs))}
}

func errTexts(es []error) []string {
	var out []string
	for _, e := range es {
		if e == nil {
			out = append(out, "nil")
		} else {
			out = append(out, e.Error())
		}
	}
	return out
}

func TestVerifC10(t *testing.T) {
	r := vexp.NewRunner("C10")
	r.CrashTrace = true
	defer r.Finish()
	// preemption bounds: "core" scenarios (two Stop callers, no blocks before the event; Start||Start)
	// get the larger bound, the wider scenarios one less
	pbCore, pbWide, pbDelay := 2, 1, 3
	if r.Thorough() {
		pbCore, pbWide, pbDelay = 3, 2, 5
	}
	r.SetBound(fmt.Sprintf("all interleavings (all select alternatives) with at most %d preemptions for the core scenarios (Start + 2 concurrent Stop callers against the real CoreLoop and a scripted producer that runs normally / sends an error block / closes its channel) and at most %d for the wider ones (Start || Start, 1-2 blocks before the event, 3 Stop callers, writing active or paused, a request handed to the core loop while Stop is called, Start/Stop/Start histories incl. a first Start failing in Sample, PrepareRun or StartRun), each followed by a restart of the same source object; and the real AbacoSource (scripted packet producer, clock thread) and LanceroSource (scripted card, clock thread) and the real TriangleSource / SimPulseSource (timers behind a seam: ready three times per execution) under Start, a queued request and Stop; free-running histories through the SourceControl methods (rejected configuration, Start, valid configuration, Start/Stop twice) for the Triangle, SimPulse and Lancero (NoHardware card) sources, and with a real UDP receiver (Start while nothing is sending, or while overlapping channel groups are being sent, fails; then the same source, configured again, starts once proper packets flow); the life cycle through the real SourceControl handlers with a source that ends by itself (the real ErroringSource): 3 cycles of Start / the run ends on an error block / Stop (2 cycles with two concurrent Stop callers), Stop called after the run has ended or racing with its ending (at most %d preemptions, %d with two callers), each Start after the first required to succeed, followed by a Triangle start through the same SourceControl that must deliver; the request and Abaco scenarios are delay-bounded: at most %d deviations of any kind (thread choice or select alternative) from the canonical schedule", pbCore, pbWide, pbCore, pbWide, pbDelay))
	dir := filepath.Join(os.Getenv("TMPDIR"), "c10")
	os.MkdirAll(dir, 0755)
	var scs []v10Scenario
	for _, mode := range []string{"normal", "errblock", "close"} {
		for _, nb := range []int{0, 1, 2} {
			for _, ns := range []int{1, 2} {
				if ns == 2 && !r.Thorough() {
					continue // three concurrent Stop callers: thorough tier only (free choices at every blocking point multiply)
				}
				scs = append(scs, v10Scenario{name: fmt.Sprintf("S-%s/blocks%d/stoppers%d", mode, nb, ns+1), mode: mode, nblocks: nb, nstop: ns})
			}
		}
	}
	scs = append(scs, v10Scenario{name: "S-normal/writing", mode: "normal", nblocks: 1, nstop: 1, writing: true})
	scs = append(scs, v10Scenario{name: "S-errblock/writing", mode: "errblock", nblocks: 1, nstop: 1, writing: true})
	for _, mode := range []string{"normal", "errblock", "close"} {
		scs = append(scs, v10Scenario{name: "S-" + mode + "/writing-paused", mode: mode, nblocks: 1, nstop: 1, writing: true, paused: true})
	}
	scs = append(scs, v10Scenario{name: "S4-start||start", mode: "normal", nblocks: 1, twoStart: true})
	for _, mode := range []string{"errblock", "close"} {
		scs = append(scs, v10Scenario{name: "S5-history/writing/" + mode, mode: mode, nblocks: 1, history: true, writing: true})
		scs = append(scs, v10Scenario{name: "S5-history/writing-paused/" + mode, mode: mode, nblocks: 1, history: true, writing: true, paused: true})
	}
	for _, f := range []string{"", "sample", "prepare", "startrun"} {
		for _, mode := range []string{"normal", "errblock", "close"} {
			scs = append(scs, v10Scenario{name: fmt.Sprintf("S5-history/fail=%s/%s", f, mode), mode: mode, nblocks: 1, failStep: f, history: true})
		}
	}
	for _, mode := range []string{"normal", "errblock", "close"} {
		scs = append(scs, v10Scenario{name: "S7-" + mode + "/request", mode: mode, nblocks: 1, nstop: 1, nreq: 1, delay: true})
	}
	scs = append(scs, v10Scenario{name: "S6-abaco/request/stop-after-block", abaco: true, nblocks: 1, nreq: 1, delay: true})
	scs = append(scs, v10Scenario{name: "S6-abaco/request/stop-at-once", abaco: true, nblocks: 0, nreq: 1, delay: true})
	scs = append(scs, v10Scenario{name: "S6-abaco/no-request", abaco: true, nblocks: 1, nreq: 0, delay: true})
	scs = append(scs, v10Scenario{name: "S6-lancero/request/stop-after-block", abaco: true, lancero: true, nblocks: 1, nreq: 1, delay: true})
	scs = append(scs, v10Scenario{name: "S6-lancero/request/stop-at-once", abaco: true, lancero: true, nblocks: 0, nreq: 1, delay: true})
	for _, k := range []string{"triangle", "simpulse"} {
		scs = append(scs, v10Scenario{name: "S8-" + k + "/request/stop-after-block", simKind: k, nblocks: 1, nreq: 1, delay: true})
		scs = append(scs, v10Scenario{name: "S8-" + k + "/stop-at-once", simKind: k, nblocks: 0, nreq: 0, delay: true})
	}
	if r.Thorough() {
		scs = append(scs, v10Scenario{name: "S6-abaco/two-requests", abaco: true, nblocks: 1, nreq: 2, delay: true})
	}
	for _, kind := range []string{"triangle", "simpulse", "lancero"} {
		kind := kind
		r.DFS("S10-rpc/"+kind+"/rejected-configuration-then-start", -1, func(x *vexp.X) vexp.Result { return v10RPCHistory(x, kind) })
	}
	r.DFS("S9-abaco-udp/nothing-sending-then-start", -1, func(x *vexp.X) vexp.Result { return v10AbacoUDP(x, false) })
	r.DFS("S9-abaco-udp/overlapping-groups-then-start", -1, func(x *vexp.X) vexp.Result { return v10AbacoUDP(x, true) })
	for _, rs := range []v10RPCScenario{
		{name: "S11-rpc/erroring/stop-after-self-end/stoppers1", waitEnd: true, nstop: 1, cycles: 3},
		{name: "S11-rpc/erroring/stop-races-self-end/stoppers1", waitEnd: false, nstop: 1, cycles: 3},
		{name: "S11-rpc/erroring/stop-after-self-end/stoppers2", waitEnd: true, nstop: 2, cycles: 2},
		{name: "S11-rpc/erroring/stop-races-self-end/stoppers2", waitEnd: false, nstop: 2, cycles: 2},
	} {
		rs := rs
		bound := pbWide
		if rs.nstop == 1 {
			bound = pbCore
		}
		r.DFSSharded(rs.name, bound, 4, func(x *vexp.X) vexp.Result { return rs.run(x) })
	}
	for _, sc := range scs {
		sc := sc
		bound := pbWide
		if sc.nstop == 1 && sc.nblocks == 0 && !sc.writing && !sc.history && !sc.twoStart {
			bound = pbCore
		}
		if sc.delay {
			bound = pbDelay
		}
		r.DFSSharded(sc.name, bound, 4, func(x *vexp.X) vexp.Result { return sc.run(x, dir) })
	}
}
