//go:build verif

package dastard

// C11 — control requests are serialised with data, answered exactly once, and never wedge or crash.
// Engine B. Part 1 enumerates request types x argument classes x I/O faults with one requester thread
// (exact deadlock verdicts instead of time-outs), alone, twice in a row (requests that have to be refused),
// followed by Stop + Start + triggering blocks, inside a triggering run (records analysed before and after the request)
// and sent while a block is being processed (v11RunHistory); part 2 explores the timing: requester(s), the real
// CoreLoop, a producer that continues / errors / closes, and an optional Stop caller.

import (
	"encoding/base64"
	"fmt"
	"os"
	"path/filepath"
	"runtime"
	"strings"
	"testing"
	"time"

	"github.com/usnistgov/dastard/internal/vexp"
	"github.com/usnistgov/dastard/internal/vhook"
	"gonum.org/v1/gonum/mat"
)

// v11Source: scripted source producing a block on demand; its DataSource mutators are wrapped by an
// exclusion monitor (no mutator may run while a block is being processed, and vice versa).
type v11Source struct {
	AnySource
	after     string        // what the producer does after `nblocks` blocks: idle | errblock | close
	nblocks   int           // blocks sent spontaneously at the start
	want      chan struct{} // one more block on demand
	processed uint32        // the three counters are only touched through accesses the race detector does not see (vAdd32 / runtime.VerifLoad32):
	inProcess uint32        // sync/atomic operations would order a client thread's write before the next block for the detector (C17 uses this source)
	inMutator uint32
	overlap   string
	frame     int
	doneCh    chan struct{}     // one token per processed block
	pulses    bool              // blocks of 24 samples with a pulse on channel 0 (so that triggers fire)
	keepPub   bool              // keep the processors' publish channels (C17 drains them like the ZMQ goroutines do)
	zeroBased bool              // channel numbers start at 0 (generic source default) instead of 1
	updates   chan ClientUpdate // the receiving end of the SourceControl's client-update queue (v11NewControl)
	// procPoints (C11): block processing is an interval for the scheduler, with a scheduling point after it has begun and
	// one before it ends, so that other threads can be scheduled into it (without them the un-instrumented
	// AnySource.ProcessSegments is one atomic step of the core loop and nothing could ever run "during" a block).
	procPoints bool
	began      chan struct{} // one token per block whose processing has begun (procPoints)
	// data timeline (C17): gapBefore[k] is the stretch of data time lost just before the k-th block (0-based), as when a
	// source drops data or stalls: the block's frame number and time stamp both jump ahead by it, consistently. Without
	// gaps the blocks are contiguous and each covers 8 or 24 ms of data time.
	gapBefore map[int]time.Duration
	nmade     int           // blocks made so far (producer thread only)
	skipped   time.Duration // data time lost so far (producer thread only)
}

func v11New(after string, nblocks int) *v11Source {
	s := &v11Source{after: after, nblocks: nblocks}
	s.nchan = 2
	s.name = "verif-scripted"
	s.sampleRate = 1000
	s.samplePeriod = vPeriod
	s.want = make(chan struct{}, 16)
	s.doneCh = make(chan struct{}, 64)
	s.began = make(chan struct{}, 64)
	return s
}

func (s *v11Source) PrepareChannels() error {
	err := s.AnySource.PrepareChannels()
	if !s.zeroBased {
		for i := range s.chanNumbers {
			s.chanNumbers[i] = i + 1
			s.chanNames[i] = fmt.Sprintf("chan%d", i+1)
		}
		s.groupKeysSorted[0].Firstchan = 1
	}
	return err
}

func (s *v11Source) Sample() error {
	s.rowColCodes = []RowColCode{rcCode(0, 0, 1, 2), rcCode(0, 1, 1, 2)}
	return nil
}

func (s *v11Source) PrepareRun(npre, nsamp int) error {
	err := s.AnySource.PrepareRun(npre, nsamp)
	if !s.keepPub {
		for _, dsp := range s.processors {
			dsp.PubRecordsChan = nil
			dsp.PubSummariesChan = nil
		}
	}
	return err
}

// vAdd32 adds to a counter without the race detector seeing a synchronisation (runtime patch, Appendix A).
func vAdd32(p *uint32, d int32) {
	for {
		o := runtime.VerifLoad32(p)
		if runtime.VerifCas32(p, o, uint32(int32(o)+d)) {
			return
		}
	}
}

func (s *v11Source) mut(name string) func() {
	if runtime.VerifLoad32(&s.inProcess) != 0 && s.overlap == "" {
		s.overlap = name + " ran while a data block was being processed"
	}
	vAdd32(&s.inMutator, 1)
	return func() { vAdd32(&s.inMutator, -1) }
}

func (s *v11Source) ProcessSegments(b *dataBlock) error {
	if runtime.VerifLoad32(&s.inMutator) != 0 && s.overlap == "" {
		s.overlap = "a data block was processed while a control request was being applied"
	}
	vAdd32(&s.inProcess, 1)
	if s.procPoints {
		select {
		case s.began <- struct{}{}:
		default:
		}
		vhook.P(916)
	}
	err := s.AnySource.ProcessSegments(b)
	if s.procPoints {
		vhook.P(917)
	}
	vAdd32(&s.inProcess, -1)
	vAdd32(&s.processed, 1)
	select {
	case s.doneCh <- struct{}{}:
	default:
	}
	return err
}

func (s *v11Source) ChangeTriggerState(st *FullTriggerState) error {
	defer s.mut("ChangeTriggerState")()
	return s.AnySource.ChangeTriggerState(st)
}
func (s *v11Source) ConfigurePulseLengths(a, b int) error {
	defer s.mut("ConfigurePulseLengths")()
	return s.AnySource.ConfigurePulseLengths(a, b)
}
func (s *v11Source) ConfigureProjectorsBases(i int, p, b *mat.Dense, d string) error {
	defer s.mut("ConfigureProjectorsBases")()
	return s.AnySource.ConfigureProjectorsBases(i, p, b, d)
}
func (s *v11Source) WriteControl(c *WriteControlConfig) error {
	defer s.mut("WriteControl")()
	return s.AnySource.WriteControl(c)
}
func (s *v11Source) SetCoupling(c CouplingStatus) error {
	defer s.mut("SetCoupling")()
	return s.AnySource.SetCoupling(c)
}
func (s *v11Source) ChangeGroupTrigger(on bool, g *GroupTriggerState) error {
	defer s.mut("ChangeGroupTrigger")()
	return s.AnySource.ChangeGroupTrigger(on, g)
}
func (s *v11Source) StopTriggerCoupling() error {
	defer s.mut("StopTriggerCoupling")()
	return s.AnySource.StopTriggerCoupling()
}
func (s *v11Source) SetExperimentStateLabel(t time.Time, l string) error {
	defer s.mut("SetExperimentStateLabel")()
	return s.AnySource.SetExperimentStateLabel(t, l)
}
func (s *v11Source) ArchiveDataBlock(n int, f *os.File, name string) error {
	defer s.mut("ArchiveDataBlock")()
	return s.AnySource.ArchiveDataBlock(n, f, name)
}

func (s *v11Source) block() *dataBlock {
	n := 8
	if s.pulses {
		n = 24
	}
	if g := s.gapBefore[s.nmade]; g > 0 {
		s.skipped += g
		s.frame += int(g / vPeriod)
	}
	s.nmade++
	b := new(dataBlock)
	b.segments = make([]DataSegment, s.nchan)
	now := time.Now().Add(s.skipped)
	for ch := range b.segments {
		d := make([]RawType, n)
		for i := range d {
			d[i] = 1000
			if s.pulses && ch == 0 && i >= 6 {
				d[i] = RawType(1000 + 400 - 30*(i-6))
			}
		}
		ft := vT0.Add(time.Duration(s.frame) * vPeriod)
		if s.pulses {
			ft = now // raw-block archiving ignores blocks older than the request; one stamp for all channels
		}
		b.segments[ch] = DataSegment{rawData: d, framesPerSample: 1, firstFrameIndex: FrameIndex(s.frame), firstTime: ft, framePeriod: vPeriod}
	}
	b.nSamp = n
	if s.pulses {
		// external triggers as the hardware sources report them (two per block), so that the side file, the
		// EXTERNALTRIGGER message and the raw-block archive handle non-empty lists
		b.externalTriggerRowcounts = []int64{int64(s.frame)*4 + 1, int64(s.frame)*4 + 9}
	}
	s.frame += n
	return b
}

func (s *v11Source) StartRun() error {
	abort, next := s.abortSelf, s.nextBlock
	go func() {
		sent := 0
		for {
			if sent >= s.nblocks {
				switch s.after {
				case "errblock":
					b := new(dataBlock)
					b.err = fmt.Errorf("scripted source error")
					vhook.P(911)
					next <- b
					vhook.P(912)
					close(next)
					return
				case "close":
					vhook.P(912)
					close(next)
					return
				}
				vhook.PSC(913, []interface{}{abort, s.want}, []bool{false, false}, false)
				select {
				case <-abort:
					vhook.C(0)
					vhook.P(912)
					close(next)
					return
				case <-s.want:
					vhook.C(1)
				}
			} else {
				vhook.PS(914, 1)
				select {
				case <-abort:
					vhook.C(0)
					vhook.P(912)
					close(next)
					return
				default:
					vhook.C(1)
				}
			}
			b := s.block()
			vhook.P(915)
			next <- b
			sent++
		}
	}()
	return nil
}

func init() {
	vhook.Doc(911, "producer: send error block")
	vhook.Doc(912, "producer: close(nextBlock)")
	vhook.Doc(913, "producer: select{abort|block requested}")
	vhook.Doc(914, "producer: poll abort")
	vhook.Doc(915, "producer: send block")
	vhook.Doc(916, "core loop: block processing has begun")
	vhook.Doc(917, "core loop: block processing ends")
}

// ---------------------------------------------------------------------------------------------

type v11Req struct {
	zeroBased bool
	name      string
	wantErr   bool   // error expected (invalid argument, I/O fault, unsupported)
	lengths   [2]int // {npre, nsamp} asked for by a record-length request (zero value: another request type)
	// cured: the request is invalid because of server state (not its arguments), and the server's documented reaction
	// to rejecting it removes that state: a START with a pixel map that does not fit the source is answered with
	// "map file invalidated: ..." and the map is unloaded. The identical request sent again is then a START without a
	// map, a different (valid) case: the repeat family requires a reply and no crash, not a second error.
	cured  bool
	either bool // the statement does not fix whether this is an error
	nbases int  // a projector request with well-formed matrices for channel 0: the number of bases of the model it installs (0: another request)
	setup  func(e *v11Env)
	call   func(e *v11Env) error
}

type v11Env struct {
	sc   *SourceControl
	src  *v11Source
	dir  string
	npre int
	nsam int
}

func v11Matrix(rows, cols int) *mat.Dense {
	m := mat.NewDense(rows, cols, nil)
	for i := 0; i < rows; i++ {
		for j := 0; j < cols; j++ {
			m.Set(i, j, float64(i+1)+float64(j)/8)
		}
	}
	return m
}

func v11B64(m *mat.Dense) string {
	b, err := m.MarshalBinary()
	if err != nil {
		panic(err)
	}
	return base64.StdEncoding.EncodeToString(b)
}

func (e *v11Env) writingOn() {
	var ok bool
	if err := e.sc.WriteControl(&WriteControlConfig{Request: "START", Path: e.dir, WriteLJH22: true}, &ok); err != nil {
		panic("harness: could not switch writing on: " + err.Error())
	}
}

func v11Requests() []v11Req {
	var rs []v11Req
	add := func(name string, wantErr bool, call func(e *v11Env) error) {
		rs = append(rs, v11Req{name: name, wantErr: wantErr, call: call})
	}
	addS := func(name string, wantErr bool, setup func(e *v11Env), call func(e *v11Env) error) {
		rs = append(rs, v11Req{name: name, wantErr: wantErr, setup: setup, call: call})
	}
	trig := func(idx []int, ts TriggerState) func(e *v11Env) error {
		return func(e *v11Env) error {
			var ok bool
			return e.sc.ConfigureTriggers(&FullTriggerState{ChannelIndices: idx, TriggerState: ts}, &ok)
		}
	}
	edge := TriggerState{EdgeTrigger: true, EdgeRising: true, EdgeLevel: 100}
	add("ConfigureTriggers/valid", false, trig([]int{0, 1}, edge))
	add("ConfigureTriggers/duplicate-index", false, trig([]int{1, 1}, edge))
	add("ConfigureTriggers/nil-list", true, trig(nil, edge))
	add("ConfigureTriggers/empty-list", true, trig([]int{}, edge))
	add("ConfigureTriggers/index=nchan", true, trig([]int{0, 2}, edge))
	add("ConfigureTriggers/negative-index", true, trig([]int{-1}, edge))
	add("ConfigureTriggers/emt-valid", false, trig([]int{0}, TriggerState{EdgeMulti: true, EMTBackwardCompatibleRPCFields: EMTBackwardCompatibleRPCFields{EdgeMultiLevel: 100, EdgeMultiVerifyNMonotone: 1, EdgeMultiDisableZeroThreshold: true}}))
	add("ConfigureTriggers/emt-noise", true, trig([]int{0}, TriggerState{EdgeMulti: true, EMTBackwardCompatibleRPCFields: EMTBackwardCompatibleRPCFields{EdgeMultiNoise: true}}))
	add("ConfigureTriggers/emt-short+contaminated", true, trig([]int{0}, TriggerState{EdgeMulti: true, EMTBackwardCompatibleRPCFields: EMTBackwardCompatibleRPCFields{EdgeMultiMakeShortRecords: true, EdgeMultiMakeContaminatedRecords: true}}))
	add("ConfigureTriggers/emt-nmonotone-too-large", true, trig([]int{0}, TriggerState{EdgeMulti: true, EMTBackwardCompatibleRPCFields: EMTBackwardCompatibleRPCFields{EdgeMultiLevel: 100, EdgeMultiVerifyNMonotone: 50, EdgeMultiDisableZeroThreshold: true}}))

	size := func(ns, np int) func(e *v11Env) error {
		return func(e *v11Env) error {
			var ok bool
			return e.sc.ConfigurePulseLengths(SizeObject{Nsamp: ns, Npre: np}, &ok)
		}
	}
	addSize := func(name string, wantErr bool, ns, np int, setup func(e *v11Env)) {
		rs = append(rs, v11Req{name: name, wantErr: wantErr, setup: setup, lengths: [2]int{np, ns}, call: size(ns, np)})
	}
	addSize("ConfigurePulseLengths/valid-change", false, 20, 5, nil)
	addSize("ConfigurePulseLengths/valid-shorter", false, 9, 3, nil)
	addSize("ConfigurePulseLengths/unchanged", false, 12, 4, nil)
	addSize("ConfigurePulseLengths/zero", true, 0, 0, nil)
	addSize("ConfigurePulseLengths/negative", true, -5, 3, nil)
	addSize("ConfigurePulseLengths/npre>=nsamp", true, 6, 6, nil)
	addSize("ConfigurePulseLengths/npre>nsamp", true, 5, 8, nil)
	addSize("ConfigurePulseLengths/npre<3", true, 10, 2, nil)
	addSize("ConfigurePulseLengths/npre=1", true, 10, 1, nil)
	addSize("ConfigurePulseLengths/while-writing", true, 20, 5, func(e *v11Env) { e.writingOn() })
	// lengths that the edge-multi trigger in force on one channel (zero-threshold refinement on: at least 4 pretrigger
	// samples) cannot work with; the other channel keeps the trigger it has
	emtOn := func(ch int) func(e *v11Env) {
		return func(e *v11Env) {
			if err := trig([]int{ch}, TriggerState{EdgeMulti: true, EMTBackwardCompatibleRPCFields: EMTBackwardCompatibleRPCFields{EdgeMultiLevel: 100, EdgeMultiVerifyNMonotone: 1}})(e); err != nil {
				panic("harness: could not switch the edge-multi trigger on: " + err.Error())
			}
		}
	}
	addSize("ConfigurePulseLengths/refused-by-edge-multi-trigger-of-channel-0", true, 12, 3, emtOn(0))
	addSize("ConfigurePulseLengths/refused-by-edge-multi-trigger-of-channel-1", true, 12, 3, emtOn(1))

	proj := func(ch int, p, b string) func(e *v11Env) error {
		return func(e *v11Env) error {
			var ok bool
			return e.sc.ConfigureProjectorsBasis(&ProjectorsBasisObject{ChannelIndex: ch, ProjectorsBase64: p, BasisBase64: b, ModelDescription: "m"}, &ok)
		}
	}
	goodP, goodB := v11B64(v11Matrix(2, 12)), v11B64(v11Matrix(12, 2))
	// Shapes. The documented rule: projectors are (nbases x nsamp), the basis is (nsamp x nbases), nsamp = 12 here. Every
	// combination of a projector matrix that is well-formed / has another number of rows / has the wrong number of columns
	// with a basis that is well-formed / has the wrong number of rows / has another number of columns (whether a pair is
	// valid follows from the rule: 3x12 with 12x3 is a valid three-basis model), sent for a channel that has no model and
	// for a channel that already has a (one-basis) model of another shape.
	priorModel := func(e *v11Env) {
		if err := proj(0, v11B64(v11Matrix(1, 12)), v11B64(v11Matrix(12, 1)))(e); err != nil {
			panic("harness: could not install the one-basis model: " + err.Error())
		}
	}
	for _, prior := range []bool{false, true} {
		for _, ps := range [][2]int{{2, 12}, {3, 12}, {2, 11}} {
			for _, bs := range [][2]int{{12, 2}, {11, 2}, {12, 3}} {
				valid := ps[1] == 12 && bs[0] == 12 && bs[1] == ps[0]
				rq := v11Req{name: fmt.Sprintf("ConfigureProjectorsBasis/P%dx%d+B%dx%d", ps[0], ps[1], bs[0], bs[1]), wantErr: !valid,
					call: proj(0, v11B64(v11Matrix(ps[0], ps[1])), v11B64(v11Matrix(bs[0], bs[1])))}
				if valid {
					rq.nbases = ps[0]
				}
				if prior {
					rq.name += "/channel-has-model"
					rq.setup = priorModel
				}
				rs = append(rs, rq)
			}
		}
	}
	add("ConfigureProjectorsBasis/other-channel", false, proj(1, goodP, goodB))
	add("ConfigureProjectorsBasis/bad-base64", true, proj(0, "###", goodB))
	add("ConfigureProjectorsBasis/truncated", true, proj(0, goodP[:len(goodP)/2/4*4], goodB))
	add("ConfigureProjectorsBasis/empty", true, proj(0, "", ""))
	add("ConfigureProjectorsBasis/index=nchan", true, proj(2, goodP, goodB))
	add("ConfigureProjectorsBasis/negative-index", true, proj(-1, goodP, goodB))
	// a header that declares huge dimensions
	huge := append([]byte{}, func() []byte { b, _ := v11Matrix(1, 1).MarshalBinary(); return b }()...)
	for i := 8; i < 24 && i < len(huge); i++ {
		huge[i] = 0x7f
	}
	add("ConfigureProjectorsBasis/huge-declared-dims", true, proj(0, base64.StdEncoding.EncodeToString(huge), goodB))

	wc := func(c WriteControlConfig) func(e *v11Env) error {
		return func(e *v11Env) error {
			var ok bool
			cc := c
			if cc.Path == "@" {
				cc.Path = e.dir
			}
			if cc.Path == "@file" {
				cc.Path = filepath.Join(e.dir, "regular-file", "sub")
			}
			return e.sc.WriteControl(&cc, &ok)
		}
	}
	add("WriteControl/START-ljh22", false, wc(WriteControlConfig{Request: "START", Path: "@", WriteLJH22: true}))
	add("WriteControl/START-ljh3", false, wc(WriteControlConfig{Request: "start", Path: "@", WriteLJH3: true}))
	add("WriteControl/START-no-types", true, wc(WriteControlConfig{Request: "START", Path: "@"}))
	add("WriteControl/START-off-without-projectors", true, wc(WriteControlConfig{Request: "START", Path: "@", WriteOFF: true}))
	add("WriteControl/START-empty-path", true, wc(WriteControlConfig{Request: "START", WriteLJH22: true}))
	add("WriteControl/START-path-under-regular-file", true, wc(WriteControlConfig{Request: "START", Path: "@file", WriteLJH22: true}))
	addS("WriteControl/START-while-writing", true, func(e *v11Env) { e.writingOn() }, wc(WriteControlConfig{Request: "START", Path: "@", WriteLJH22: true}))
	add("WriteControl/STOP", false, wc(WriteControlConfig{Request: "STOP"}))
	add("WriteControl/PAUSE", false, wc(WriteControlConfig{Request: "PAUSE"}))
	addS("WriteControl/UNPAUSE-label", false, func(e *v11Env) { e.writingOn() }, wc(WriteControlConfig{Request: "UNPAUSE lbl"}))
	add("WriteControl/UNPAUSE-label-not-writing", true, wc(WriteControlConfig{Request: "UNPAUSE lbl"}))
	add("WriteControl/garbage", true, wc(WriteControlConfig{Request: "FOO"}))
	add("WriteControl/empty", true, wc(WriteControlConfig{Request: ""}))
	// with a pixel map loaded (the map is handed to the source by the START request)
	mapSetup := func(npix int) func(e *v11Env) {
		return func(e *v11Env) {
			fn := filepath.Join(e.dir, "map.cfg")
			txt := "spacing: 100\n"
			for i := 1; i <= npix; i++ {
				txt += fmt.Sprintf("%d %d %d pix%d\n", i, i*10, i*20, i)
			}
			os.WriteFile(fn, []byte(txt), 0644)
			var ok bool
			if err := e.sc.mapServer.Load(&fn, &ok); err != nil {
				panic("harness: map load failed: " + err.Error())
			}
		}
	}
	addS("WriteControl/START-with-map", false, mapSetup(2), wc(WriteControlConfig{Request: "START", Path: "@", WriteLJH22: true}))
	rs = append(rs, v11Req{name: "WriteControl/START-with-map-of-wrong-size", wantErr: true, cured: true, setup: mapSetup(3),
		call: wc(WriteControlConfig{Request: "START", Path: "@", WriteLJH22: true})})
	rs = append(rs, v11Req{name: "WriteControl/START-with-map-channel-numbers-from-0", wantErr: true, cured: true, zeroBased: true, setup: mapSetup(2),
		call: wc(WriteControlConfig{Request: "START", Path: "@", WriteLJH22: true})})

	label := func(l string) func(e *v11Env) error {
		return func(e *v11Env) error {
			var ok bool
			return e.sc.SetExperimentStateLabel(&StateLabelConfig{Label: l, WaitForError: true}, &ok)
		}
	}
	addS("SetExperimentStateLabel/valid", false, func(e *v11Env) { e.writingOn() }, label("cooling"))
	addS("SetExperimentStateLabel/empty", true, func(e *v11Env) { e.writingOn() }, label(""))
	add("SetExperimentStateLabel/not-writing", true, label("cooling"))
	addS("SetExperimentStateLabel/state-file-uncreatable", true, func(e *v11Env) {
		e.writingOn()
		// the state file was created by START; remove it and put a directory in its way, then force re-creation
		ws := e.src.writingState.ComputeState()
		e.src.writingState.experimentStateFile.Close()
		e.src.writingState.experimentStateFile = nil
		os.Remove(ws.ExperimentStateFilename)
		os.Mkdir(ws.ExperimentStateFilename, 0755)
	}, label("cooling"))

	comment := func(c string) func(e *v11Env) error {
		return func(e *v11Env) error {
			var ok bool
			return e.sc.WriteComment(&c, &ok)
		}
	}
	addS("WriteComment/valid", false, func(e *v11Env) { e.writingOn() }, comment("hello"))
	add("WriteComment/not-writing", false, comment("hello"))
	add("WriteComment/empty", true, comment(""))
	addS("WriteComment/comment-file-uncreatable", true, func(e *v11Env) {
		e.writingOn()
		ws := e.src.writingState.ComputeState()
		os.Mkdir(filepath.Join(filepath.Dir(ws.FilenamePattern), "comment.txt"), 0755)
	}, comment("hello"))

	couple := func(fb bool, on bool) func(e *v11Env) error {
		return func(e *v11Env) error {
			var ok bool
			if fb {
				return e.sc.CoupleFBToErr(&on, &ok)
			}
			return e.sc.CoupleErrToFB(&on, &ok)
		}
	}
	add("CoupleErrToFB/on-unsupported-source", true, couple(false, true))
	add("CoupleErrToFB/off", false, couple(false, false))
	add("CoupleFBToErr/on-unsupported-source", true, couple(true, true))
	add("CoupleFBToErr/off", false, couple(true, false))
	gt := func(addIt bool, conns map[int][]int) func(e *v11Env) error {
		return func(e *v11Env) error {
			var ok bool
			if addIt {
				return e.sc.AddGroupTriggerCoupling(GroupTriggerState{Connections: conns}, &ok)
			}
			return e.sc.DeleteGroupTriggerCoupling(&GroupTriggerState{Connections: conns}, &ok)
		}
	}
	add("AddGroupTriggerCoupling/valid", false, gt(true, map[int][]int{0: {1}}))
	add("AddGroupTriggerCoupling/empty", false, gt(true, map[int][]int{}))
	add("AddGroupTriggerCoupling/receiver=nchan", true, gt(true, map[int][]int{0: {2}}))
	add("AddGroupTriggerCoupling/negative-receiver", true, gt(true, map[int][]int{0: {-1}}))
	add("AddGroupTriggerCoupling/source=nchan", true, gt(true, map[int][]int{2: {0}}))
	add("AddGroupTriggerCoupling/negative-source", true, gt(true, map[int][]int{-3: {0}}))
	add("DeleteGroupTriggerCoupling/valid", false, gt(false, map[int][]int{0: {1}}))
	add("DeleteGroupTriggerCoupling/receiver=nchan", true, gt(false, map[int][]int{0: {2}}))
	add("StopTriggerCoupling", false, func(e *v11Env) error {
		var a, ok bool
		return e.sc.StopTriggerCoupling(&a, &ok)
	})
	raw := func(n int) func(e *v11Env) error {
		return func(e *v11Env) error {
			var name string
			err := e.sc.StoreRawDataBlock(n, &name)
			return err
		}
	}
	add("StoreRawDataBlock/N=16", false, raw(16))
	add("StoreRawDataBlock/N=1", false, raw(1))
	rs = append(rs, v11Req{name: "StoreRawDataBlock/N=0", either: true, call: raw(0)})
	rs = append(rs, v11Req{name: "StoreRawDataBlock/N=-1", either: true, call: raw(-1)})
	add("StoreRawDataBlock/N=large", false, raw(1<<14))
	addS("StoreRawDataBlock/second-while-first-pending", true, func(e *v11Env) {
		var name string
		if err := e.sc.StoreRawDataBlock(1<<12, &name); err != nil {
			panic("harness: first StoreRawDataBlock failed: " + err.Error())
		}
	}, raw(16))
	add("ConfigureMixFraction/unsupported-source", true, func(e *v11Env) error {
		var ok bool
		return e.sc.ConfigureMixFraction(&MixFractionObject{ChannelIndices: []int{1}, MixFractions: []float64{0.5}}, &ok)
	})
	add("SendAllStatus", false, func(e *v11Env) error {
		var ok bool
		d := ""
		return e.sc.SendAllStatus(&d, &ok)
	})
	return rs
}

// v11NewControl builds a SourceControl the way RunRPCServer does, minus the network.
func v11NewControl(src *v11Source) *SourceControl {
	sc := new(SourceControl)
	sc.heartbeats = make(chan Heartbeat, 4096)
	sc.queuedRequests = make(chan func())
	sc.queuedResults = make(chan error)
	src.updates = make(chan ClientUpdate, 1<<16)
	sc.clientUpdates = src.updates
	sc.mapServer = newMapServer()
	sc.mapServer.clientUpdates = sc.clientUpdates
	sc.status.Npresamp, sc.status.Nsamples = 4, 12
	sc.status.ChanGroups = make([]GroupIndex, 0)
	sc.ActiveSource = src
	src.heartbeats = sc.heartbeats
	return sc
}

// v11Start does what SourceControl.Start does after it has picked the source by name.
func v11Start(sc *SourceControl, src *v11Source) error {
	sc.status.Running = true
	if err := Start(src, sc.queuedRequests, sc.status.Npresamp, sc.status.Nsamples); err != nil {
		sc.status.Running = false
		sc.isSourceActive = false
		return err
	}
	sc.isSourceActive = true
	sc.status.SamplePeriod = src.SamplePeriod()
	sc.status.Nchannels = src.Nchan()
	sc.status.ChanGroups = src.ChanGroups()
	sc.broadcastStatus()
	sc.broadcastTriggerState()
	return nil
}

// v11Watch: what a client can see of the server status. A request answered with an error has been refused: the
// STATUS content (ServerStatus) afterwards, and every STATUS message sent while it was handled, must equal the
// status before the request.
type v11Watch struct {
	sc     *SourceControl
	q      chan ClientUpdate
	before string
}

func v11StatusText(st ServerStatus) string { return fmt.Sprintf("%+v", st) }

// v11DrainStatus empties the client-update queue and returns the STATUS messages that were in it.
func v11DrainStatus(q chan ClientUpdate) []string {
	var out []string
	for {
		select {
		case u := <-q:
			if u.tag != "STATUS" {
				continue
			}
			switch st := u.state.(type) {
			case ServerStatus:
				out = append(out, v11StatusText(st))
			case *ServerStatus:
				out = append(out, v11StatusText(*st))
			}
		default:
			return out
		}
	}
}

func v11NewWatch(sc *SourceControl, src *v11Source) *v11Watch {
	v11DrainStatus(src.updates)
	return &v11Watch{sc: sc, q: src.updates, before: v11StatusText(sc.status)}
}

// changed returns "" if nothing a client can see of the server status differs from the status before the request.
func (w *v11Watch) changed() string {
	for _, m := range v11DrainStatus(w.q) {
		if m != w.before {
			return fmt.Sprintf("a STATUS message sent while it was handled says %s; before the request the status was %s", m, w.before)
		}
	}
	if now := v11StatusText(w.sc.status); now != w.before {
		return fmt.Sprintf("the server status is now %s; before the request it was %s", now, w.before)
	}
	return ""
}

var v11Seq, v11TrigSeq int

func v11Dir() string {
	// one directory per worker process, emptied between executions (cheaper than a fresh one each time)
	d := filepath.Join(os.Getenv("TMPDIR"), "c11")
	if v11Seq > 0 {
		ents, _ := os.ReadDir(d)
		if len(ents) > 1 {
			os.RemoveAll(d)
		} else {
			return d
		}
	}
	v11Seq++
	os.MkdirAll(d, 0755)
	os.WriteFile(filepath.Join(d, "regular-file"), []byte("x"), 0644)
	return d
}

// waitProcessed: ask for one more block and wait (under the scheduler: by blocking on a channel the
// core loop's wrapper feeds) until it has been processed.
func (s *v11Source) demandBlock() { s.want <- struct{}{} }

var v11Surv = map[string]int{}

type v11Result struct {
	viol, class string
}

func v11Finish(x *vexp.X, s *vhook.Sched, name string, src *v11Source, r *v11Result) vexp.Result {
	out := s.Outcome()
	fail := func(c, f string, a ...interface{}) {
		if r.viol == "" {
			r.viol, r.class = fmt.Sprintf(f, a...), c
		}
	}
	if out.Pruned {
		s.Release(2 * time.Second)
		return vexp.Result{Skip: true}
	}
	if out.PanicClass != "" {
		fail(out.PanicClass, "a request handler panicked in the caller's thread: %s", out.PanicText)
	} else if out.Deadlock {
		cls := "deadlock"
		for _, b := range out.Blocked {
			if strings.HasPrefix(b, "requester") && strings.Contains(b, "runLaterIfActive") {
				cls = "request-never-answered"
			}
		}
		fail(cls, "deadlock: a request never returned or the core loop is wedged: %v", out.Blocked)
	} else if out.Horizon {
		fail("runaway", "no termination within %d scheduling steps", out.Steps)
	}
	if src.overlap != "" {
		fail("request-concurrent-with-block-processing", "%s", src.overlap)
	}
	surv := s.Release(2 * time.Second)
	if r.viol == "" && out.PanicClass != "" {
		fail(out.PanicClass, "a request handler panicked: %s", out.PanicText)
	}
	x.Logf("survivors after release: %v", surv)
	if len(surv) > 0 {
		v11Surv[strings.Join(surv, ";")]++
	}
	if src.numberWrittenTicker != nil {
		src.numberWrittenTicker.Stop()
		src.writingState.externalTriggerTicker.Stop()
		src.writingState.dataDropTicker.Stop()
	}
	v := r.viol
	if v != "" {
		v = fmt.Sprintf("%s: %s\nschedule: %s", name, v, s.TraceString())
	}
	return vexp.Result{Violation: v, Class: r.class, Nontrivial: true}
}

// part 1: one requester, every request type and argument class
func v11RunArgs(x *vexp.X, rq v11Req, running bool) vexp.Result {
	src := v11New("idle", 0)
	src.zeroBased = rq.zeroBased
	src.procPoints = true
	sc := v11NewControl(src)
	env := &v11Env{sc: sc, src: src, dir: v11Dir(), npre: 4, nsam: 12}
	res := &v11Result{}
	fail := func(c, f string, a ...interface{}) {
		if res.viol == "" {
			res.viol, res.class = fmt.Sprintf(f, a...), c
		}
	}
	var outcome string
	requester := func() {
		if running {
			if err := v11Start(sc, src); err != nil {
				fail("harness-start", "Start failed: %v", err)
				return
			}
			if rq.setup != nil {
				rq.setup(env)
			}
		}
		w := v11NewWatch(sc, src)
		err := rq.call(env)
		outcome = fmt.Sprintf("err=%v", err != nil)
		x.Logf("%s -> %v", rq.name, err)
		switch {
		case !running:
			if err == nil && !strings.HasPrefix(rq.name, "SendAllStatus") {
				fail("no-error-without-source", "%s returned nil although no source is running", rq.name)
			}
		case rq.either:
		case rq.wantErr && err == nil:
			fail("invalid-request-accepted", "%s returned nil; the arguments are invalid (or the I/O step failed), an error is required", rq.name)
		case !rq.wantErr && err != nil:
			fail("valid-request-rejected", "%s returned %v for valid arguments", rq.name, err)
		}
		if err != nil {
			if d := w.changed(); d != "" {
				fail("rejected-request-changed-server-status", "%s was answered with the error %q, but %s", rq.name, err, d)
			}
		}
		if !running {
			return
		}
		// data processing must not be stalled: the next block is processed (the requester waits for it: a
		// wedged core loop shows up as a deadlock), and further requests are answered
		src.demandBlock()
		<-src.doneCh
		var ok bool
		if err := sc.ConfigureTriggers(&FullTriggerState{ChannelIndices: []int{0}, TriggerState: TriggerState{}}, &ok); err != nil {
			fail("follow-up-request-failed", "after %s a valid ConfigureTriggers returned %v", rq.name, err)
		}
		src.demandBlock()
		<-src.doneCh
		if err := sc.ConfigureTriggers(&FullTriggerState{ChannelIndices: []int{1}, TriggerState: TriggerState{}}, &ok); err != nil {
			fail("follow-up-request-failed", "after %s a second valid ConfigureTriggers returned %v", rq.name, err)
		}
		d := ""
		if err := sc.Stop(&d, &ok); err != nil {
			fail("stop-error", "Stop returned %v", err)
		}
	}
	s := vhook.Run(x, vhook.Options{MaxSteps: 600, Names: []string{"requester"}}, requester)
	r := v11Finish(x, s, rq.name, src, res)
	r.Outcome = rq.name + " " + outcome
	return r
}

// part 1b: request histories with one requester thread.
//
//	repeat:  an invalid request (argument class or I/O fault) is sent twice in a row. Its arguments are as invalid the
//	         second time as the first: both replies must be errors, and neither changes the server status.
//	triggered: an edge trigger on both channels, a block with a pulse, the request (any class), two more such blocks. The
//	         records of these blocks are analysed with whatever model the channel has: a request that leaves a channel in
//	         an inconsistent state crashes the server here. A request answered with an error must leave the status, the
//	         set of channels with a model and the records (lengths, number of model coefficients, still coming) as they
//	         were; an accepted model is in effect in the later blocks.
//	during:  the request (any class) is sent when the core loop is inside ProcessSegments; the exclusion monitor of the
//	         scripted source reports a handler that does not wait for the end of the block.
//	restart: a request (any class of the alphabet), then Stop, Start (SourceControl.Start hands the record lengths of
//	         the server status to the new run), an edge trigger on both channels and two blocks with pulses. The new run
//	         must work with the record lengths of the last record-length request that was answered with success (the
//	         initial ones if there was none), its triggered records must have that shape, and nothing may crash or hang.
func v11RunHistory(x *vexp.X, rq v11Req, mode string) vexp.Result {
	src := v11New("idle", 0)
	src.zeroBased = rq.zeroBased
	src.procPoints = true
	sc := v11NewControl(src)
	env := &v11Env{sc: sc, src: src, dir: v11Dir(), npre: 4, nsam: 12}
	res := &v11Result{}
	fail := func(c, f string, a ...interface{}) {
		if res.viol == "" {
			res.viol, res.class = fmt.Sprintf(f, a...), c
		}
	}
	origRec, origSum := PubRecordsChan, PubSummariesChan
	if mode == "restart" || mode == "triggered" {
		// triggered records of this execution go to private queues, read by the requester after every block
		src.pulses, src.keepPub = true, true
		PubRecordsChan = make(chan []*DataRecord, 64)
		PubSummariesChan = make(chan []*DataRecord, 64)
	}
	recQ, sumQ := PubRecordsChan, PubSummariesChan
	if mode == "triggered" {
		// blocks with pulses while writing is on create files (external-trigger side file, records) from the core loop: a
		// directory of its own, so that the free-running tail of an abandoned (pruned) execution on a loaded machine cannot
		// find its directory emptied by the next execution (the worker's TMPDIR is removed by bin/check)
		v11TrigSeq++
		env.dir = filepath.Join(os.Getenv("TMPDIR"), fmt.Sprintf("c11-triggered-%d", v11TrigSeq))
		os.MkdirAll(env.dir, 0755)
		os.WriteFile(filepath.Join(env.dir, "regular-file"), []byte("x"), 0644)
	}
	var outcome string
	stop := func(what string) bool {
		var ok bool
		d := ""
		if err := sc.Stop(&d, &ok); err != nil {
			fail("stop-error", "%s: Stop returned %v", what, err)
			return false
		}
		return true
	}
	// blocks: n more blocks (with a pulse on channel 0 each) are processed; returns the triggered records published meanwhile
	blocks := func(n int) (recs []*DataRecord) {
		for i := 0; i < n; i++ {
			src.demandBlock()
			<-src.doneCh
			for more := true; more; {
				select {
				case rr := <-recQ:
					recs = append(recs, rr...)
				case <-sumQ:
				default:
					more = false
				}
			}
		}
		return recs
	}
	edgeOn := FullTriggerState{ChannelIndices: []int{0, 1}, TriggerState: TriggerState{EdgeTrigger: true, EdgeRising: true, EdgeLevel: 100}}
	requester := func() {
		if err := v11Start(sc, src); err != nil {
			fail("harness-start", "Start failed: %v", err)
			return
		}
		var ok bool
		if mode == "triggered" {
			// the request arrives in a run that is triggering (edge trigger on both channels, unless the request's own
			// preparation replaces it on a channel): records of the channel are cut and analysed (with the model the
			// channel has) in the block before the request and in the two blocks after it
			if err := sc.ConfigureTriggers(&edgeOn, &ok); err != nil {
				fail("harness-start", "the edge trigger before %s was refused: %v", rq.name, err)
				return
			}
		}
		if rq.setup != nil {
			rq.setup(env)
		}
		switch mode {
		case "during":
			// the request arrives while a data block is being processed: the client waits until the core loop is inside
			// ProcessSegments (parked at the scheduling point after the begin of the interval) and sends then. A handler
			// that touches the source before the block is finished trips the exclusion monitor (v11Finish).
			src.demandBlock()
			<-src.began
			err := rq.call(env)
			x.Logf("%s, sent while a block was being processed -> %v", rq.name, err)
			switch {
			case rq.either:
			case rq.wantErr && err == nil:
				fail("invalid-request-accepted", "%s returned nil; the arguments are invalid (or the I/O step failed), an error is required", rq.name)
			case !rq.wantErr && err != nil:
				fail("valid-request-rejected", "%s returned %v for valid arguments", rq.name, err)
			}
			<-src.doneCh // the block is finished, too
			outcome = fmt.Sprintf("err=%v blocks=%d", err != nil, runtime.VerifLoad32(&src.processed))
			stop("after the request sent during a block")
		case "triggered":
			shape := func(r *DataRecord) string {
				return fmt.Sprintf("channel %d: %d samples, %d of them pretrigger, %d model coefficients", r.channelIndex, len(r.data), r.presamples, len(r.modelCoefs))
			}
			first := blocks(1)
			for i := 0; i < 2 && len(first) == 0; i++ {
				first = blocks(1) // an edge-multi trigger looks further ahead than an edge trigger: its record comes a block later
			}
			if len(first) == 0 {
				fail("harness-vacuous", "no record was triggered in the three blocks before the request (a pulse each, trigger on)")
				stop("vacuous run")
				return
			}
			was := shape(first[len(first)-1])
			withModel := fmt.Sprint(src.ChannelsWithProjectors())
			w := v11NewWatch(sc, src)
			err := rq.call(env)
			x.Logf("%s -> %v; before it: %s; channels with a model: %s", rq.name, err, was, withModel)
			switch {
			case rq.either:
			case rq.wantErr && err == nil:
				fail("invalid-request-accepted", "%s returned nil; the arguments are invalid (or the I/O step failed), an error is required", rq.name)
			case !rq.wantErr && err != nil:
				fail("valid-request-rejected", "%s returned %v for valid arguments", rq.name, err)
			}
			if err != nil {
				if d := w.changed(); d != "" {
					fail("rejected-request-changed-server-status", "%s was answered with the error %q, but %s", rq.name, err, d)
				}
				if now := fmt.Sprint(src.ChannelsWithProjectors()); now != withModel {
					fail("rejected-request-changed-channel-model", "%s was answered with the error %q, but the channels that have a model (what the next STATUS message reports) are now %s; before the request: %s", rq.name, err, now, withModel)
				}
			}
			// the next blocks are processed and their records analysed: a crash here is the server terminating
			later := blocks(2)
			for _, r := range later {
				if r.channelIndex != 0 {
					continue
				}
				if err != nil && shape(r) != was {
					fail("rejected-request-changed-records", "%s was answered with the error %q, but the records triggered afterwards differ from those before it: %s; before: %s", rq.name, err, shape(r), was)
				}
				if err == nil && rq.nbases > 0 && len(r.modelCoefs) != rq.nbases {
					fail("accepted-model-not-in-effect", "%s was answered with success (a model of %d bases), but a record triggered in a later block has %s", rq.name, rq.nbases, shape(r))
				}
			}
			if err != nil && len(later) == 0 {
				fail("rejected-request-stopped-triggering", "%s was answered with the error %q; before it the block(s) with a pulse gave %d record(s), the two such blocks after it gave none", rq.name, err, len(first))
			}
			outcome = fmt.Sprintf("err=%v before[%s] after=%d", err != nil, was, len(later))
			if len(later) > 0 {
				outcome += "[" + shape(later[len(later)-1]) + "]"
			}
			stop("triggering run")
		case "repeat":
			w := v11NewWatch(sc, src)
			err1 := rq.call(env)
			d1 := w.changed()
			err2 := rq.call(env)
			d2 := w.changed()
			outcome = fmt.Sprintf("err=%v,%v", err1 != nil, err2 != nil)
			x.Logf("%s -> %v; again -> %v", rq.name, err1, err2)
			switch {
			case err1 == nil:
				fail("invalid-request-accepted", "%s returned nil; the arguments are invalid (or the I/O step failed), an error is required", rq.name)
			case err2 == nil && !rq.cured:
				fail("repeated-invalid-request-accepted", "%s was answered with the error %q; the identical request sent again returned nil (its arguments are as invalid, or its I/O step fails, as before)", rq.name, err1)
			case d1 != "":
				fail("rejected-request-changed-server-status", "%s was answered with the error %q, but %s", rq.name, err1, d1)
			case err2 != nil && d2 != "":
				fail("rejected-request-changed-server-status", "%s, sent a second time, was answered with the error %q, but %s", rq.name, err2, d2)
			}
			// data processing goes on and a valid request is answered
			src.demandBlock()
			<-src.doneCh
			if err := sc.ConfigureTriggers(&FullTriggerState{ChannelIndices: []int{0}, TriggerState: TriggerState{}}, &ok); err != nil {
				fail("follow-up-request-failed", "after %s (twice) a valid ConfigureTriggers returned %v", rq.name, err)
			}
			stop("after the repeated request")
		case "restart":
			wantPre, wantSamp := sc.status.Npresamp, sc.status.Nsamples
			err := rq.call(env)
			if err == nil && rq.lengths != [2]int{} {
				wantPre, wantSamp = rq.lengths[0], rq.lengths[1] // accepted: these are the record lengths from now on
			}
			x.Logf("%s -> %v; lengths the next run has to use: npre=%d nsamp=%d", rq.name, err, wantPre, wantSamp)
			if !stop("first run") {
				return
			}
			if err := v11Start(sc, src); err != nil {
				fail("restart-failed", "%s (reply: %v), Stop, then Start: Start returned %v", rq.name, err, err)
				return
			}
			npre, nsamp, lerr := src.getPulseLengths()
			if lerr != nil || npre != wantPre || nsamp != wantSamp {
				fail("restart-with-refused-lengths", "%s was answered with %v; after Stop and Start the source runs with npre=%d nsamp=%d (err=%v), the last accepted record lengths are npre=%d nsamp=%d",
					rq.name, err, npre, nsamp, lerr, wantPre, wantSamp)
				outcome = fmt.Sprintf("err=%v lengths=%d/%d", err != nil, npre, nsamp)
				stop("second run")
				return
			}
			if err := sc.ConfigureTriggers(&edgeOn, &ok); err != nil {
				fail("follow-up-request-failed", "after %s, Stop and Start a valid ConfigureTriggers returned %v", rq.name, err)
			}
			nrec := 0
			for _, r := range blocks(2) {
				nrec++
				if len(r.data) != wantSamp || r.presamples != wantPre {
					fail("record-with-refused-lengths", "after %s (reply: %v), Stop and Start a triggered record has %d samples, %d of them pretrigger; the last accepted record lengths are npre=%d nsamp=%d",
						rq.name, err, len(r.data), r.presamples, wantPre, wantSamp)
				}
			}
			if nrec == 0 {
				fail("harness-vacuous", "no record was triggered in the run after the restart (two blocks with a pulse each, edge trigger on)")
			}
			outcome = fmt.Sprintf("err=%v lengths=%d/%d records=%d", err != nil, npre, nsamp, nrec)
			stop("second run")
		}
	}
	s := vhook.Run(x, vhook.Options{MaxSteps: 900, Names: []string{"requester"}}, requester)
	r := v11Finish(x, s, mode+"/"+rq.name, src, res)
	PubRecordsChan, PubSummariesChan = origRec, origSum
	r.Outcome = mode + " " + rq.name + " " + outcome
	return r
}

// part 2: timing
type v11Timing struct {
	name    string
	after   string // idle | errblock | close
	nblocks int
	reqs    []string // request shapes issued by the requester, in order
	stopper bool
	second  bool // a second requester thread (another client connection)
	during  bool // the requester sends its first request when the processing of a block has begun (the core loop is inside ProcessSegments)
}

func v11Shape(e *v11Env, shape string) error {
	var ok bool
	switch shape {
	case "trigger": // closure: apply, broadcast, result
		return e.sc.ConfigureTriggers(&FullTriggerState{ChannelIndices: []int{0}, TriggerState: TriggerState{EdgeTrigger: true, EdgeRising: true, EdgeLevel: 100}}, &ok)
	case "lengths": // early-return paths + status broadcast before result
		return e.sc.ConfigurePulseLengths(SizeObject{Nsamp: 20, Npre: 5}, &ok)
	case "group": // update then result
		return e.sc.AddGroupTriggerCoupling(GroupTriggerState{Connections: map[int][]int{0: {1}}}, &ok)
	case "label": // result then update
		return e.sc.SetExperimentStateLabel(&StateLabelConfig{Label: "x", WaitForError: true}, &ok)
	case "write": // write control start
		return e.sc.WriteControl(&WriteControlConfig{Request: "START", Path: e.dir, WriteLJH22: true}, &ok)
	case "comment":
		c := "c"
		return e.sc.WriteComment(&c, &ok)
	case "raw":
		var name string
		return e.sc.StoreRawDataBlock(8, &name)
	case "projectors": // a model for channel 0
		return e.sc.ConfigureProjectorsBasis(&ProjectorsBasisObject{ChannelIndex: 0, ProjectorsBase64: v11B64(v11Matrix(2, 12)), BasisBase64: v11B64(v11Matrix(12, 2)), ModelDescription: "m"}, &ok)
	case "coupling": // FB/error coupling (off: the only value a generic source accepts)
		off := false
		return e.sc.CoupleErrToFB(&off, &ok)
	case "ungroup":
		return e.sc.DeleteGroupTriggerCoupling(&GroupTriggerState{Connections: map[int][]int{0: {1}}}, &ok)
	case "uncouple":
		var a bool
		return e.sc.StopTriggerCoupling(&a, &ok)
	case "mix": // served on the client thread by design (a Lancero source queues it itself); a generic source refuses it
		e.sc.ConfigureMixFraction(&MixFractionObject{ChannelIndices: []int{1}, MixFractions: []float64{0.5}}, &ok)
		return nil
	}
	panic("unknown shape " + shape)
}

func v11RunTiming(x *vexp.X, tm v11Timing) vexp.Result {
	src := v11New(tm.after, tm.nblocks)
	src.procPoints = true
	sc := v11NewControl(src)
	env := &v11Env{sc: sc, src: src, dir: v11Dir(), npre: 4, nsam: 12}
	res := &v11Result{}
	fail := func(c, f string, a ...interface{}) {
		if res.viol == "" {
			res.viol, res.class = fmt.Sprintf(f, a...), c
		}
	}
	started := make(chan struct{})
	var errs []string
	drivers := []func(){func() {
		if err := v11Start(sc, src); err != nil {
			fail("harness-start", "Start failed: %v", err)
			close(started)
			return
		}
		close(started)
		if tm.during {
			select {
			case <-src.began:
			case <-src.RunDoneChan(): // stopped (or ended) before any block began: the requests still have to be answered
			}
		}
		for _, sh := range tm.reqs {
			err := v11Shape(env, sh)
			errs = append(errs, fmt.Sprintf("%s=%v", sh, err != nil))
			if tm.after == "idle" && !tm.stopper && err != nil && sh != "label" && sh != "comment" {
				fail("valid-request-rejected", "%s returned %v while the source was running", sh, err)
			}
		}
		if !tm.stopper {
			var ok bool
			d := ""
			sc.Stop(&d, &ok) // "no source is active" is fine when the source ended by itself
		}
	}}
	names := []string{"requester"}
	if tm.stopper {
		names = append(names, "stopper")
		drivers = append(drivers, func() {
			<-started
			var ok bool
			d := ""
			sc.Stop(&d, &ok)
		})
	}
	if tm.second {
		names = append(names, "requester2")
		drivers = append(drivers, func() {
			<-started
			// another client connection sends an invalid request at the same time: it must get the error,
			// and the first client must get its own (nil) result
			err := env.sc.ConfigureTriggers(&FullTriggerState{ChannelIndices: []int{0, 2}, TriggerState: TriggerState{}}, new(bool))
			errs = append(errs, fmt.Sprintf("invalid2=%v", err != nil))
			if err == nil && tm.after == "idle" {
				fail("reply-delivered-to-wrong-caller", "the second client's invalid ConfigureTriggers (index = nchan) returned nil")
			}
		})
	}
	s := vhook.Run(x, vhook.Options{MaxSteps: 600, Names: names}, drivers...)
	r := v11Finish(x, s, tm.name, src, res)
	r.Nontrivial = s.Outcome().Preempt > 0
	r.Outcome = strings.Join(errs, ",")
	return r
}

// v11RunAbaco: requests against a running hardware-type source (the real AbacoSource, whose getNextBlock starts a
// worker goroutine per call, fed by a scripted packet producer and a clock thread), then Stop.
func v11RunAbaco(x *vexp.X) vexp.Result {
	src, clock := v17NewAbaco()
	defer src.stopTickers()
	sc := new(SourceControl)
	sc.heartbeats = make(chan Heartbeat, 4096)
	sc.queuedRequests = make(chan func())
	sc.queuedResults = make(chan error)
	sc.clientUpdates = make(chan ClientUpdate, 1<<12)
	sc.mapServer = newMapServer()
	sc.mapServer.clientUpdates = sc.clientUpdates
	sc.status.Npresamp, sc.status.Nsamples = 3, 6
	sc.status.ChanGroups = make([]GroupIndex, 0)
	sc.ActiveSource = src
	started := make(chan struct{})
	var errs [3]error
	var viol, class string
	client := func() {
		sc.status.Running = true
		if err := Start(src, sc.queuedRequests, 3, 6); err != nil {
			viol, class = "Start of the Abaco source failed: "+err.Error(), "start-error"
			close(started)
			return
		}
		sc.isSourceActive = true
		close(started)
		var ok bool
		errs[0] = sc.ConfigureTriggers(&FullTriggerState{ChannelIndices: []int{0, 1}, TriggerState: TriggerState{EdgeTrigger: true, EdgeRising: true, EdgeLevel: 30000}}, &ok) // never fires: nobody reads the record channels here
		<-src.done                                                                                                                                                             // a block has been processed after the request
		errs[1] = sc.ConfigurePulseLengths(SizeObject{Nsamp: 8, Npre: 4}, &ok)
		d := ""
		errs[2] = sc.Stop(&d, &ok)
	}
	s := vhook.Run(x, vhook.Options{MaxSteps: 1500, Names: []string{"client", "clock"}, DelayBound: true}, client, clock(started))
	out := s.Outcome()
	if out.Pruned {
		s.Release(2 * time.Second)
		if out.PanicClass != "" {
			return vexp.Result{Violation: "abaco: panic (free-running tail of a pruned execution): " + out.PanicText, Class: out.PanicClass}
		}
		return vexp.Result{Skip: true}
	}
	switch {
	case out.PanicClass != "":
		viol, class = "panic: "+out.PanicText, out.PanicClass
	case out.Deadlock:
		viol, class = fmt.Sprintf("deadlock: %v", out.Blocked), "request-never-answered"
		if os.Getenv("VERIF_STACKS") != "" {
			buf := make([]byte, 1<<20)
			viol += "\n" + string(buf[:runtime.Stack(buf, true)])
		}
	case out.Horizon:
		viol, class = fmt.Sprintf("no termination within %d scheduling steps", out.Steps), "runaway"
	}
	s.Release(2 * time.Second)
	if viol == "" && out.PanicClass != "" {
		viol, class = "panic: "+out.PanicText, out.PanicClass
	}
	if viol == "" {
		for i, e := range errs {
			if e != nil {
				viol, class = fmt.Sprintf("valid request %d (0 ConfigureTriggers, 1 ConfigurePulseLengths, 2 Stop) on the running Abaco source was answered with %v", i, e), "valid-request-rejected"
				break
			}
		}
	}
	if viol != "" {
		viol = "abaco/requests-then-stop: " + viol + "\nschedule: " + s.TraceString()
	}
	res := vexp.Result{Violation: viol, Class: class, Nontrivial: out.Preempt > 0, Outcome: fmt.Sprintf("errs=%v", errs)}
	if out.Horizon {
		res.CutAt = 60
	}
	return res
}

func TestVerifC11(t *testing.T) {
	r := vexp.NewRunner("C11")
	r.CrashTrace = true
	defer r.Finish()
	defer func() {
		if os.Getenv("VERIF_STATS") != "" {
			for k, v := range v11Surv {
				fmt.Fprintf(os.Stderr, "SURV %d %s\n", v, k)
			}
			fmt.Fprintf(os.Stderr, "STATS run=%v release=%v noEnabledSleeps=%d releaseIters=%d\n", vhook.StatRun, vhook.StatRelease, vhook.StatNoEnabledSleeps, vhook.StatReleaseIters)
		}
	}()
	pb := 1
	if r.Thorough() {
		pb = 2
	}
	r.SetBound(fmt.Sprintf("part 1: every request type x argument class x I/O fault (%d classes), with and without a running source, one requester thread, followed by two blocks, two further requests and Stop; every class that has to be refused also sent twice in a row; every class also followed by Stop, Start, an edge trigger and two blocks with pulses; every class also sent in a triggering run (edge trigger on, a block with a pulse before and two after the request, records analysed with the channel's model) and sent while a block is being processed (block processing is an interval with scheduling points at both ends); projector requests: every pair of {well-formed, other row count, wrong column count} projectors and {well-formed, wrong row count, other column count} basis, on a channel without and with a model; part 2: all interleavings with at most %d preemptions (all select alternatives) of a requester issuing 1-2 requests of each closure shape, the real CoreLoop, a producer that idles / sends an error block / closes its channel after 0-1 blocks, and optionally a concurrent Stop caller or a second requester; every request type (12 shapes) sent when the processing of a block has begun", len(v11Requests()), pb))
	for _, rq := range v11Requests() {
		rq := rq
		r.DFS("args/running/"+rq.name, 0, func(x *vexp.X) vexp.Result { return v11RunArgs(x, rq, true) })
		r.DFS("args/no-source/"+rq.name, 0, func(x *vexp.X) vexp.Result { return v11RunArgs(x, rq, false) })
		if rq.wantErr {
			r.DFS("args/repeat/"+rq.name, 0, func(x *vexp.X) vexp.Result { return v11RunHistory(x, rq, "repeat") })
		}
		r.DFS("args/restart/"+rq.name, 0, func(x *vexp.X) vexp.Result { return v11RunHistory(x, rq, "restart") })
		r.DFS("args/triggered/"+rq.name, 0, func(x *vexp.X) vexp.Result { return v11RunHistory(x, rq, "triggered") })
		r.DFS("args/during/"+rq.name, 0, func(x *vexp.X) vexp.Result { return v11RunHistory(x, rq, "during") })
	}
	var tms []v11Timing
	shapes := []string{"trigger", "lengths", "group", "label", "write", "comment", "raw"}
	for _, after := range []string{"idle", "errblock", "close"} {
		for _, nb := range []int{0, 1} {
			for _, sh := range shapes {
				if sh == "raw" && nb == 1 && !r.Thorough() {
					continue
				}
				tms = append(tms, v11Timing{name: fmt.Sprintf("timing/%s/blocks%d/%s", after, nb, sh), after: after, nblocks: nb, reqs: []string{sh}})
			}
			tms = append(tms, v11Timing{name: fmt.Sprintf("timing/%s/blocks%d/write+label", after, nb), after: after, nblocks: nb, reqs: []string{"write", "label"}})
			if r.Thorough() || nb == 0 {
				tms = append(tms, v11Timing{name: fmt.Sprintf("timing/%s/blocks%d/trigger+stopper", after, nb), after: after, nblocks: nb, reqs: []string{"trigger"}, stopper: true})
				tms = append(tms, v11Timing{name: fmt.Sprintf("timing/%s/blocks%d/write+stopper", after, nb), after: after, nblocks: nb, reqs: []string{"write"}, stopper: true})
			}
			if r.Thorough() {
				tms = append(tms, v11Timing{name: fmt.Sprintf("timing/%s/blocks%d/trigger+second-client", after, nb), after: after, nblocks: nb, reqs: []string{"trigger"}, second: true})
			}
		}
	}
	// every request type of the RPC surface, sent when the processing of a block has begun (and, all interleavings within
	// the bound, around it): a handler that does not wait for the core loop to be between two blocks runs inside the interval
	for _, sh := range append(append([]string{}, shapes...), "projectors", "coupling", "ungroup", "uncouple", "mix") {
		tms = append(tms, v11Timing{name: "timing/during-block/" + sh, after: "idle", nblocks: 1, reqs: []string{sh}, during: true})
		if r.Thorough() {
			tms = append(tms, v11Timing{name: "timing/during-block/errblock/" + sh, after: "errblock", nblocks: 1, reqs: []string{sh}, during: true})
			tms = append(tms, v11Timing{name: "timing/during-block/" + sh + "+stopper", after: "idle", nblocks: 1, reqs: []string{sh}, during: true, stopper: true})
		}
	}
	r.DFSSharded("hw/abaco/requests-then-stop", pb+1, 2, v11RunAbaco)
	for _, tm := range tms {
		tm := tm
		r.DFSSharded(tm.name, pb, 2, func(x *vexp.X) vexp.Result { return v11RunTiming(x, tm) })
	}
}
