//go:build verif

package dastard

// C12 — phase unwrapping keeps the signal modulo flux quanta and is independent of how the
// sequence is split into calls. Engine A: full enumeration of short sequences over boundary values,
// all splits into calls, all option sets; oracle = the property's integer arithmetic.
// Option sets: every (fraction bits, bits dropped) pair of vC12FractionBits x vC12Drops the constructor
// accepts (quanta of 2^9 .. 2^15 output units; no bits dropped = unwrapping cannot be enabled, the
// constructor panics, so that column only exists with unwrapping off).
// Family "device paths": the two production owners of per-channel unwrappers (AbacoGroup.demuxData and
// RoachDevice.readPackets) are driven block after block and compared with ONE fresh unwrapper that sees
// the whole sequence in a single call.

import (
	"bytes"
	"encoding/binary"
	"fmt"
	"net"
	"os"
	"testing"
	"time"

	"github.com/usnistgov/dastard/internal/vexp"
	"github.com/usnistgov/dastard/packets"
)

type vUnwrapOpt struct {
	fractionBits, drop uint
	enable             bool
	biasSel            int // 0, +q/4, -q/4
	resetAfter         int
	pulseSign          int
	invert             bool
}

func (o vUnwrapOpt) String() string {
	return fmt.Sprintf("frac%d/drop%d/enable=%v/bias%d/reset%d/sign%+d/invert=%v", o.fractionBits, o.drop, o.enable, o.biasSel, o.resetAfter, o.pulseSign, o.invert)
}

func (o vUnwrapOpt) quantum() int { return 1 << (o.fractionBits - o.drop) }

func (o vUnwrapOpt) biasLevel() int {
	q := o.quantum()
	switch o.biasSel {
	case 1:
		return (q / 4) << o.drop
	case 2:
		return -((q / 4) << o.drop)
	}
	return 0
}

func (o vUnwrapOpt) make() *PhaseUnwrapper {
	return NewPhaseUnwrapper(o.fractionBits, o.drop, o.enable, o.biasLevel(), o.resetAfter, o.pulseSign, o.invert)
}

// the alphabet: dropped-and-masked values at 0, around the quarter, half and three-quarter quantum
// (the step limits for bias 0 and +-q/4) and the top of the range; raw = value<<drop plus junk in the
// dropped bits and above the fraction bits.
func (o vUnwrapOpt) alphabet() []RawType {
	q := o.quantum()
	vals := []int{0, 1, q / 4, q/2 - 1, q / 2, q/2 + 1, 3 * q / 4, q - 1}
	out := make([]RawType, len(vals))
	for i, v := range vals {
		raw := uint16(v) << o.drop
		if i%2 == 1 {
			raw |= uint16(1<<o.drop) - 1 // junk in the dropped bits
		}
		if o.fractionBits < 16 && i%3 == 2 {
			raw |= uint16(0xffff) << o.fractionBits // junk above the fraction bits
		}
		if o.invert {
			raw ^= 0xffff
		}
		out[i] = RawType(raw)
	}
	return out
}

func (o vUnwrapOpt) inPrime(raw RawType) int {
	r := uint16(raw)
	if o.invert {
		r ^= 0xffff
	}
	mask := ^(uint16(0xffff) << o.fractionBits)
	return int((r & mask) >> o.drop)
}

func vCopyRaw(a []RawType) []RawType { return append([]RawType{}, a...) }

// check one complete sequence: property rules on the unsplit run, then every split into calls.
func (o vUnwrapOpt) check(seq []RawType) (viol, class string, wrapped bool, outcome string) {
	u := o.make()
	out := vCopyRaw(seq)
	u.UnwrapInPlace(&out)
	n := len(seq)
	ob := make([]byte, 0, 2*n)
	for _, v := range out {
		ob = append(ob, byte(v), byte(v>>8))
	}
	outcome = string(ob)
	q := o.quantum()
	if !o.enable && o.drop == 0 {
		// nothing is dropped: the statement only says "the input after inversion plus a whole number of quanta"
		// (whether bits above the fraction bits are kept is not stated; with 16 fraction bits this is identity)
		for i := range seq {
			if d := int(out[i]) - o.inPrime(seq[i]); d%q != 0 {
				return fmt.Sprintf("unwrap disabled, no bits dropped: sample %d input' %d output %d differ by %d, not a whole number of quanta (%d)", i, o.inPrime(seq[i]), out[i], d, q), "unwrap-disabled-not-identity", false, outcome
			}
		}
	} else if !o.enable {
		for i := range seq {
			if int(out[i]) != o.inPrime(seq[i]) {
				return fmt.Sprintf("unwrap disabled: sample %d input' %d output %d", i, o.inPrime(seq[i]), out[i]), "unwrap-disabled-not-identity", false, outcome
			}
		}
	} else {
		home := q
		if o.pulseSign <= 0 {
			home = -2 * q
		}
		bias := (o.biasLevel() >> o.drop) % q
		lower, upper := bias-q/2, bias+q/2
		k := make([]int, n) // offset from home in quanta, as a small signed number
		for i := range seq {
			v := o.inPrime(seq[i])
			d := (int(out[i]) - v - home) & 0xffff
			if d%q != 0 {
				return fmt.Sprintf("sample %d: output %d minus input' %d is not a whole number of quanta (%d)", i, out[i], v, q), "unwrap-not-modulo-quantum", false, outcome
			}
			k[i] = int(int16(uint16(d))) / q
		}
		away := 0 // consecutive samples away from home before i
		prevV := 0
		prevOut := home // the state before the first sample: last value 0 at home offset
		for i := range seq {
			v := o.inPrime(seq[i])
			inStep := v - prevV
			outStep := int(int16(uint16(int(out[i]) - prevOut)))
			okStep := (outStep-inStep)%q == 0 && outStep >= lower && outStep <= upper
			if k[i] != 0 {
				wrapped = true
			}
			if !okStep {
				// the only other legal move is the automatic return to the home offset
				if k[i] != 0 {
					return fmt.Sprintf("sample %d: output step %d (input step %d) is outside [bias-q/2,bias+q/2]=[%d,%d] and the output is not at the home offset", i, outStep, inStep, lower, upper), "unwrap-step-out-of-window", false, outcome
				}
				if away < o.resetAfter {
					return fmt.Sprintf("sample %d: output returned to the home offset after only %d consecutive samples away (resetAfter=%d)", i, away, o.resetAfter), "unwrap-reset-too-early", false, outcome
				}
			}
			if k[i] != 0 {
				away++
				if away > o.resetAfter+1 {
					return fmt.Sprintf("sample %d: %d consecutive samples away from the home offset, resetAfter=%d", i, away, o.resetAfter), "unwrap-no-reset", false, outcome
				}
			} else {
				away = 0
			}
			prevV, prevOut = v, int(out[i])
		}
	}
	// split invariance: every composition of n into calls
	res := make([]RawType, n)
	for mask := 1; mask < 1<<(n-1); mask++ {
		u2 := o.make()
		copy(res, seq)
		start := 0
		for i := 1; i <= n; i++ {
			if i == n || mask&(1<<(i-1)) != 0 {
				part := res[start:i:i] // each call gets exactly its samples, in place
				u2.UnwrapInPlace(&part)
				if &part[0] != &res[start] { // the callee replaced the slice: the caller sees what it points to now
					copy(res[start:i], part)
				}
				start = i
			}
		}
		for i := range res {
			if res[i] != out[i] {
				return fmt.Sprintf("split mask %b: sample %d is %d, unsplit run gives %d", mask, i, res[i], out[i]), "unwrap-split-dependent", wrapped, outcome
			}
		}
	}
	return "", "", wrapped, outcome
}

// =============================================================================================
// family "device paths": the production owners of the per-channel unwrappers

const vDevQ = 4096 // one quantum after the bit drop, both for Abaco (16-4 bits) and ROACH (14-2 bits)

func vC12Infra(format string, a ...interface{}) {
	fmt.Fprintf(os.Stderr, "VERIF-INFRA C12 device paths: "+format+"\n", a...)
	os.Exit(3)
}

// bias level documented in AbacoUnwrapOptions: +-0.38 of 2^16, sign of the pulses, 0 when not biased
func vDevBias(bias bool, pulseSign int) int {
	if !bias {
		return 0
	}
	if pulseSign < 0 {
		return -24904
	}
	return 24904
}

func vDevHome(pulseSign int) int {
	if pulseSign > 0 {
		return vDevQ
	}
	return -2 * vDevQ
}

// the reference: ONE fresh unwrapper, the whole (already inverted) sequence in a single call
func vDevReference(fractionBits, drop uint, enable bool, biasLevel, resetAfter, pulseSign int, seq []RawType) []RawType {
	u := NewPhaseUnwrapper(fractionBits, drop, enable, biasLevel, resetAfter, pulseSign, false)
	out := vCopyRaw(seq)
	u.UnwrapInPlace(&out)
	return out
}

func vDevOutcome(out [][]RawType) string {
	var ob []byte
	for _, o := range out {
		for _, v := range o {
			ob = append(ob, byte(v), byte(v>>8))
		}
	}
	return string(ob)
}

// ---------------------------------------------------------------------------------------------
// (a) Abaco: AbacoGroup owns one unwrapper per channel and calls it once per demuxData

const vAbacoFirst = 6 // first channel number of the group: channel numbers differ from indices in the group
const vAbacoBigReset = 1000

type vAbacoOpt struct {
	rescale, unwrap, bias bool
	resetAfter            int
	pulseSign             int
	invertLocal           int // index in the group of the channel listed in InvertChan, -1: none of the group's
}

func (o vAbacoOpt) String() string {
	return fmt.Sprintf("rescale=%v/unwrap=%v/bias=%v/reset%d/sign%+d/invert=%d", o.rescale, o.unwrap, o.bias, o.resetAfter, o.pulseSign, o.invertLocal)
}

func (o vAbacoOpt) options() AbacoUnwrapOptions {
	// decoys: numbers that are indices in the group but not channel numbers of the group, and a far one
	inv := []int{0, 1, 100}
	if o.invertLocal >= 0 {
		inv = []int{1 - o.invertLocal, vAbacoFirst + o.invertLocal, 100}
	}
	return AbacoUnwrapOptions{RescaleRaw: o.rescale, Unwrap: o.unwrap, Bias: o.bias, ResetAfter: o.resetAfter, PulseSign: o.pulseSign, InvertChan: inv}
}

func (o vAbacoOpt) drop() uint {
	if o.rescale {
		return 4
	}
	return 0
}

// a two-channel signal, designed in units of the value after the bit drop (one quantum = vDevQ)
type vDevSeq struct {
	name string
	fpp  int      // frames per packet
	v    [2][]int // designed value, any integer; the hardware word carries it modulo one quantum
	slow bool     // every step is well inside the step window of every bias setting
}

func vAbacoSeqs() []*vDevSeq {
	q := vDevQ
	// slow ramps through several quanta, up then down and down then up
	ramps := &vDevSeq{name: "ramps", fpp: 1, slow: true}
	a, b := q-40, 20
	for i := 0; i < 48; i++ {
		ramps.v[0] = append(ramps.v[0], a)
		ramps.v[1] = append(ramps.v[1], b)
		if i < 24 {
			a += 330
		} else {
			a -= 330
		}
		if i < 22 {
			b -= 410
		} else {
			b += 410
		}
	}
	// the boundary values of the direct family in a fixed scrambled order: steps at and around the limits
	bound := &vDevSeq{name: "boundary", fpp: 2}
	vals := []int{0, 1, q / 4, q/2 - 1, q / 2, q/2 + 1, 3 * q / 4, q - 1}
	s0, s1 := uint32(12345), uint32(777)
	for i := 0; i < 48; i++ {
		s0 = s0*1103515245 + 12345
		s1 = s1*1103515245 + 12345
		bound.v[0] = append(bound.v[0], vals[(s0>>16)%8])
		bound.v[1] = append(bound.v[1], vals[(s1>>16)%8])
	}
	// pulses: fast rise of 1.8 quanta, slow decay, on a baseline next to the wrap point; up and down
	pulses := &vDevSeq{name: "pulses", fpp: 3}
	l0, l1 := 0, 0
	for i := 0; i < 45; i++ {
		switch {
		case (i >= 5 && i < 9) || (i >= 25 && i < 29):
			l0 += 1843
		case l0 > 0:
			l0 -= 491
			if l0 < 0 {
				l0 = 0
			}
		}
		switch {
		case (i >= 12 && i < 16) || (i >= 30 && i < 34):
			l1 += 1843
		case l1 > 0:
			l1 -= 491
			if l1 < 0 {
				l1 = 0
			}
		}
		ripple := (i*3)%5 - 2
		pulses.v[0] = append(pulses.v[0], q-3+l0+ripple)
		pulses.v[1] = append(pulses.v[1], 2-l1-ripple)
	}
	return []*vDevSeq{ramps, bound, pulses}
}

// the 16-bit word of the signal after the optional inversion: value modulo one quantum in the upper 12 bits,
// junk in the 4 bits the rescaling drops
func (s *vDevSeq) abacoWord(ch, i int) RawType {
	v := ((s.v[ch][i] % vDevQ) + vDevQ) % vDevQ
	return RawType(uint16(v)<<4 | uint16(i*7+ch*3)&15)
}

// packets as they would arrive (through the real encoder and decoder); an inverted channel is sent inverted
func (s *vDevSeq) abacoPackets(o vAbacoOpt) []*packets.Packet {
	n := len(s.v[0])
	var out []*packets.Packet
	for k := 0; k*s.fpp < n; k++ {
		p := packets.NewPacket(10, 20, uint32(500+k), vAbacoFirst)
		d := make([]int16, 0, 2*s.fpp)
		for f := 0; f < s.fpp; f++ {
			for ch := 0; ch < 2; ch++ {
				w := s.abacoWord(ch, k*s.fpp+f)
				if ch == o.invertLocal {
					w ^= 0xffff
				}
				d = append(d, int16(w))
			}
		}
		if err := p.NewData(d, []int16{2}); err != nil {
			panic(err)
		}
		q, err := packets.ReadPacket(bytes.NewReader(p.Bytes()))
		if err != nil {
			panic("harness packet does not decode: " + err.Error())
		}
		out = append(out, q)
	}
	return out
}

// one execution: one partition of the packets into 1, 2 or 3 demuxData calls on a fresh real group
func vAbacoRun(x *vexp.X, o vAbacoOpt, s *vDevSeq, pk []*packets.Packet, ref [2][]RawType) vexp.Result {
	np := len(pk)
	first := 1 + x.Choose(np)
	calls := []int{first}
	if first < np {
		second := 1 + x.Choose(np-first)
		calls = append(calls, second)
		if first+second < np {
			calls = append(calls, np-first-second)
		}
	}
	x.Steps = len(calls)
	g := NewAbacoGroup(GroupIndex{Firstchan: vAbacoFirst, Nchan: 2}, o.options())
	for _, p := range pk {
		g.enqueuePacket(p, vT0)
	}
	out := make([][]RawType, 2)
	var bounds []int // sample index at which each later call starts
	for ci, c := range calls {
		frames := c * s.fpp
		dc := [][]RawType{make([]RawType, frames), make([]RawType, frames)}
		g.demuxData(dc, frames)
		if ci > 0 {
			bounds = append(bounds, len(out[0]))
		}
		for ch := range dc {
			out[ch] = append(out[ch], dc[ch]...)
		}
	}
	x.Logf("options %v sequence %s: packets per demuxData call %v", o, s.name, calls)
	oc := vDevOutcome(out)
	n := len(s.v[0])
	home := vDevHome(o.pulseSign)
	what := fmt.Sprintf("options %v, sequence %s, %d packets of %d frames in demuxData calls of %v packets", o, s.name, np, s.fpp, calls)
	away := false // a later call started while the output was away from the home offset
	for ch := 0; ch < 2; ch++ {
		if len(out[ch]) != n {
			return vexp.Result{Violation: fmt.Sprintf("%s: channel %d delivered %d samples of %d", what, ch, len(out[ch]), n), Class: "c12-abaco-sample-count", Outcome: oc}
		}
		// the property's first clause on every sample
		for i := 0; i < n; i++ {
			inPrime := int(s.abacoWord(ch, i) >> o.drop())
			if !o.unwrap {
				if int(out[ch][i]) != inPrime {
					return vexp.Result{Violation: fmt.Sprintf("%s: unwrapping disabled: channel %d sample %d is %d, the input after inversion and bit drop is %d", what, ch, i, out[ch][i], inPrime), Class: "c12-abaco-disabled-not-input", Outcome: oc}
				}
			} else if d := (int(out[ch][i]) - inPrime - home) & 0xffff; d%vDevQ != 0 {
				return vexp.Result{Violation: fmt.Sprintf("%s: channel %d sample %d: output %d minus input after inversion and bit drop %d is not a whole number of quanta (%d)", what, ch, i, out[ch][i], inPrime, vDevQ), Class: "c12-abaco-not-input-plus-quanta", Outcome: oc}
			}
		}
		// one fresh unwrapper, one call
		for i := 0; i < n; i++ {
			if out[ch][i] != ref[ch][i] {
				cls := "c12-abaco-split-dependent"
				if i < calls[0]*s.fpp {
					cls = "c12-abaco-differs-from-documented-unwrapper" // already in the first call: state cannot be the reason
				}
				return vexp.Result{Violation: fmt.Sprintf("%s: channel %d sample %d is %d; one fresh unwrapper (16 fraction bits, %d dropped, enable=%v, bias %d, resetAfter %d, pulse sign %+d) fed the whole sequence in one call gives %d (later calls start at samples %v)",
					what, ch, i, out[ch][i], o.drop(), o.unwrap, vDevBias(o.bias, o.pulseSign), o.resetAfter, o.pulseSign, ref[ch][i], bounds), Class: cls, Outcome: oc}
			}
		}
		if o.unwrap {
			for _, b := range bounds {
				if (int(ref[ch][b-1])-int(s.abacoWord(ch, b-1)>>o.drop())-home)&0xffff != 0 {
					away = true
				}
			}
			// slow signal, no automatic reset in reach: reproduced without jumps, also across calls
			if s.slow && o.resetAfter >= n {
				for i := 1; i < n; i++ {
					got := int(int16(out[ch][i] - out[ch][i-1]))
					if want := s.v[ch][i] - s.v[ch][i-1]; got != want {
						return vexp.Result{Violation: fmt.Sprintf("%s: channel %d: the slow signal steps by %d at sample %d, the output by %d", what, ch, want, i, got), Class: "c12-abaco-jump-in-slow-signal", Outcome: oc}
					}
				}
			}
		}
	}
	return vexp.Result{Nontrivial: away, Outcome: oc}
}

func vAbacoCases(r *vexp.Runner) (nopt int) {
	seqs := vAbacoSeqs()
	for _, rescale := range []bool{true, false} {
		for _, unwrap := range []bool{true, false} {
			for _, inv := range []int{-1, 1} {
				for _, ps := range []int{+1, -1} {
					for _, bias := range []bool{false, true} {
						for _, ra := range []int{6, vAbacoBigReset} {
							o := vAbacoOpt{rescale: rescale, unwrap: unwrap, bias: bias, resetAfter: ra, pulseSign: ps, invertLocal: inv}
							if o.options().isvalid() != nil {
								continue // Configure refuses these
							}
							if !unwrap && (bias || ra != vAbacoBigReset) {
								continue // unused when unwrapping is off
							}
							nopt++
							for _, s := range seqs {
								s := s
								pk := s.abacoPackets(o)
								var ref [2][]RawType
								for ch := 0; ch < 2; ch++ {
									seq := make([]RawType, len(s.v[ch]))
									for i := range seq {
										seq[i] = s.abacoWord(ch, i)
									}
									ref[ch] = vDevReference(16, o.drop(), o.unwrap, vDevBias(o.bias, o.pulseSign), o.resetAfter, o.pulseSign, seq)
								}
								r.DFS(fmt.Sprintf("abaco/%v/%s", o, s.name), -1, func(x *vexp.X) vexp.Result { return vAbacoRun(x, o, s, pk, ref) })
							}
						}
					}
				}
			}
		}
	}
	return nopt
}

// ---------------------------------------------------------------------------------------------
// (b) ROACH: RoachDevice.readPackets bundles the UDP packets of each 100 ms window into one block and
// unwraps every channel of the block with the device's unwrapper for that channel

type vRoachVar struct {
	pulseSign int
	bias      bool
	wordLen   int     // bytes per value in the packets
	bursts    [][]int // samples per packet, per burst; the first packet of the first burst is the sampled one
	step      [2]int  // change of the hardware word per sample: channel 0 up then down, channel 1 down then up
}

func (v vRoachVar) String() string {
	return fmt.Sprintf("sign%+d/bias=%v/word%d/step%v/bursts%v", v.pulseSign, v.bias, v.wordLen, v.step, v.bursts)
}

// the phase in units of the 16-bit hardware word (2 integer + 14 fraction bits), as an unbounded integer
func (v vRoachVar) phases() (phi [2][]int) {
	n := 0
	for _, b := range v.bursts {
		for _, k := range b {
			n += k
		}
	}
	a, b := 40<<14+16000, 40<<14+300
	for i := 0; i < n; i++ {
		phi[0] = append(phi[0], a)
		phi[1] = append(phi[1], b)
		if i < n*11/20 {
			a += v.step[0]
			b -= v.step[1]
		} else {
			a -= v.step[0]
			b += v.step[1]
		}
	}
	return phi
}

func (v vRoachVar) packet(phi [2][]int, from, nsamp int) []byte {
	buf := new(bytes.Buffer)
	flags := uint16(1)
	if v.wordLen == 4 {
		flags = 2
	}
	binary.Write(buf, binary.BigEndian, packetHeader{Fluxramp: 1, Nchan: 2, Nsamp: uint16(nsamp), Flags: flags, Sampnum: uint64(7000 + from)})
	for i := from; i < from+nsamp; i++ {
		for ch := 0; ch < 2; ch++ {
			binary.Write(buf, binary.BigEndian, uint16(phi[ch][i]))
			if v.wordLen == 4 {
				binary.Write(buf, binary.BigEndian, uint16(0xa5c3+i)) // the low half of a 4-byte value is not used
			}
		}
	}
	return buf.Bytes()
}

func vRoachNext(c chan *dataBlock, what string) *dataBlock {
	select {
	case b := <-c:
		return b
	case <-time.After(20 * time.Second):
		vC12Infra("ROACH: no block within 20 s while waiting for %s", what)
	}
	return nil
}

func vRoachRun(x *vexp.X, v vRoachVar) vexp.Result {
	phi := v.phases()
	dev, err := NewRoachDevice("127.0.0.1:0", 40000.0)
	if err != nil {
		vC12Infra("NewRoachDevice: %v", err)
	}
	dev.unwrapOpts = AbacoUnwrapOptions{RescaleRaw: true, Unwrap: true, Bias: v.bias, PulseSign: v.pulseSign} // what Configure stores
	client, err := net.DialUDP("udp", nil, dev.conn.LocalAddr().(*net.UDPAddr))
	if err != nil {
		vC12Infra("DialUDP: %v", err)
	}
	defer client.Close()
	nextBlock := make(chan *dataBlock)
	out := make([][]RawType, 2)
	var blockLens []int
	sent, sampled := 0, 0
	running := false
	stop := func() { // close the socket: readPackets delivers an error block and returns
		dev.conn.Close()
		for running {
			if b := vRoachNext(nextBlock, "the error block after closing the socket"); b.err != nil {
				running = false
			}
		}
	}
	for bi, burst := range v.bursts {
		for _, k := range burst {
			if _, err := client.Write(v.packet(phi, sent, k)); err != nil {
				vC12Infra("UDP send: %v", err)
			}
			sent += k
		}
		if bi == 0 {
			if err := dev.samplePacket(); err != nil {
				vC12Infra("samplePacket: %v", err)
			}
			sampled = burst[0]
			if dev.nchan != 2 || len(dev.unwrap) != 2 {
				stop()
				return vexp.Result{Violation: fmt.Sprintf("%v: samplePacket sees %d channels and makes %d unwrappers, the packet has 2 channels", v, dev.nchan, len(dev.unwrap)), Class: "c12-roach-unwrapper-count"}
			}
			running = true
			go dev.readPackets(nextBlock)
		}
		// normally one block per burst; a burst that straddles the end of a 100 ms window comes in two
		for len(out[0]) < sent-sampled {
			b := vRoachNext(nextBlock, fmt.Sprintf("the samples of burst %d", bi+1))
			if b.err != nil {
				running = false
				stop()
				return vexp.Result{Violation: fmt.Sprintf("%v: error block after burst %d: %v", v, bi+1, b.err), Class: "c12-roach-error-block"}
			}
			x.Steps++
			if len(b.segments) != 2 || len(b.segments[0].rawData) != b.nSamp || len(b.segments[1].rawData) != b.nSamp {
				stop()
				return vexp.Result{Violation: fmt.Sprintf("%v: block %d: %d segments, nSamp %d", v, len(blockLens)+1, len(b.segments), b.nSamp), Class: "c12-roach-block-shape"}
			}
			blockLens = append(blockLens, b.nSamp)
			for ch := 0; ch < 2; ch++ {
				out[ch] = append(out[ch], b.segments[ch].rawData...)
			}
		}
	}
	stop()
	x.Logf("%v: block lengths %v", v, blockLens)
	oc := vDevOutcome(out)
	n := sent - sampled
	home := vDevHome(v.pulseSign)
	what := fmt.Sprintf("%v, %d samples after the sampled packet delivered in blocks of %v", v, n, blockLens)
	away := 0 // block boundaries at which the output was away from the home offset
	for ch := 0; ch < 2; ch++ {
		if len(out[ch]) != n {
			return vexp.Result{Violation: fmt.Sprintf("%s: channel %d delivered %d samples", what, ch, len(out[ch])), Class: "c12-roach-sample-count", Outcome: oc}
		}
		seq := make([]RawType, n)
		inPrime := make([]int, n)
		for i := range seq {
			seq[i] = RawType(uint16(phi[ch][sampled+i]))
			inPrime[i] = (phi[ch][sampled+i] & 0x3fff) >> 2
		}
		for i := 0; i < n; i++ {
			if d := (int(out[ch][i]) - inPrime[i] - home) & 0xffff; d%vDevQ != 0 {
				return vexp.Result{Violation: fmt.Sprintf("%s: channel %d sample %d: output %d minus input after bit drop %d is not a whole number of quanta (%d)", what, ch, i, out[ch][i], inPrime[i], vDevQ), Class: "c12-roach-not-input-plus-quanta", Outcome: oc}
			}
		}
		ref := vDevReference(14, 2, true, vDevBias(v.bias, v.pulseSign), 20000, v.pulseSign, seq)
		for i := 0; i < n; i++ {
			if out[ch][i] != ref[i] {
				cls := "c12-roach-state-lost-between-blocks"
				if i < blockLens[0] {
					cls = "c12-roach-differs-from-documented-unwrapper"
				}
				return vexp.Result{Violation: fmt.Sprintf("%s: channel %d sample %d is %d; one fresh unwrapper (14 fraction bits, 2 dropped, bias %d, resetAfter 20000, pulse sign %+d) fed everything after the sampled packet in one call gives %d",
					what, ch, i, out[ch][i], vDevBias(v.bias, v.pulseSign), v.pulseSign, ref[i]), Class: cls, Outcome: oc}
			}
		}
		pos := 0
		for _, l := range blockLens[:len(blockLens)-1] {
			pos += l
			if (int(ref[pos-1])-inPrime[pos-1]-home)&0xffff != 0 {
				away++
			}
		}
		// the slow ramp is reproduced without jumps, also across block boundaries
		if !v.bias {
			for i := 1; i < n; i++ {
				got := int(int16(out[ch][i] - out[ch][i-1]))
				if want := phi[ch][sampled+i]>>2 - phi[ch][sampled+i-1]>>2; got != want {
					return vexp.Result{Violation: fmt.Sprintf("%s: channel %d: the slow ramp steps by %d at sample %d, the output by %d", what, ch, want, i, got), Class: "c12-roach-jump-in-slow-ramp", Outcome: oc}
				}
			}
		}
	}
	return vexp.Result{Nontrivial: len(blockLens) > 1 && away > 0, Outcome: oc}
}

func vRoachCases(r *vexp.Runner) (nvar int) {
	even := [][]int{{10, 10, 10, 10}, {10, 10, 10}, {10, 10, 10}}
	ragged := [][]int{{3, 1, 22, 9}, {17}, {2, 30, 1, 1, 8}}
	var vars []vRoachVar
	for _, ps := range []int{+1, -1} {
		for _, wl := range []int{2, 4} {
			vars = append(vars, vRoachVar{pulseSign: ps, wordLen: wl, bursts: even, step: [2]int{1200, 1000}})
			vars = append(vars, vRoachVar{pulseSign: ps, wordLen: wl, bursts: ragged, step: [2]int{1001, 1399}})
		}
	}
	if r.Thorough() {
		four := [][]int{{5, 20}, {25, 5}, {1}, {30, 30}, {12}}
		for _, ps := range []int{+1, 0, -1} {
			for _, bias := range []bool{false, true} {
				for _, st := range [][2]int{{333, 2777}, {5000, 64}, {7000, 7001}} {
					for i, bu := range [][][]int{even, ragged, four} {
						vars = append(vars, vRoachVar{pulseSign: ps, bias: bias, wordLen: 2 + 2*(i%2), bursts: bu, step: st})
					}
				}
			}
		}
	}
	for _, v := range vars {
		v := v
		r.DFS(fmt.Sprintf("roach/%v", v), -1, func(x *vexp.X) vexp.Result { return vRoachRun(x, v) })
	}
	return len(vars)
}

// the (fraction bits, bits dropped) pairs of the direct family: the full cross product. Production uses
// 16/4 and 16/0 (Abaco with and without RescaleRaw; 13 fraction bits before 2021) and 14/2 (ROACH).
var vC12FractionBits = []uint{16, 15, 14, 13}
var vC12Drops = []uint{0, 1, 2, 3, 4}

// every option set of the direct family, in a fixed order
func vC12OptionSets() (opts []vUnwrapOpt, npairs int) {
	for _, fb := range vC12FractionBits {
		for _, drop := range vC12Drops {
			npairs++
			for _, enable := range []bool{true, false} {
				if enable && drop == 0 {
					continue // NewPhaseUnwrapper panics by design: there is no room for the added quanta
				}
				for bias := 0; bias < 3; bias++ {
					for _, ra := range []int{1, 2, 3} {
						for _, ps := range []int{+1, -1} {
							for _, inv := range []bool{false, true} {
								if !enable && (bias != 0 || ra != 1 || ps != 1) {
									continue // these options are unused when unwrapping is off
								}
								opts = append(opts, vUnwrapOpt{fb, drop, enable, bias, ra, ps, inv})
							}
						}
					}
				}
			}
		}
	}
	return opts, npairs
}

func TestVerifC12(t *testing.T) {
	r := vexp.NewRunner("C12")
	defer r.Finish()
	maxLen := 5
	if r.Thorough() {
		maxLen = 7
	}
	nRoach := 8
	if r.Thorough() {
		nRoach = 62
	}
	opts, npairs := vC12OptionSets()
	qmin, qmax := 1<<30, 0
	for _, o := range opts {
		if o.enable && o.quantum() < qmin {
			qmin = o.quantum()
		}
		if o.enable && o.quantum() > qmax {
			qmax = o.quantum()
		}
	}
	// thorough: the longest sequences for the pairs production uses (16/4, 16/0, 14/2), their mixed pairs
	// (16/2, 14/4) and the smallest and largest quantum; one sample less for the rest of the cross product
	lenFor := func(o vUnwrapOpt) int {
		if !r.Thorough() {
			return maxLen
		}
		if (o.fractionBits == 16 || o.fractionBits == 14) && (o.drop == 0 || o.drop == 2 || o.drop == 4) {
			return maxLen
		}
		if q := o.quantum(); o.drop > 0 && (q == qmin || q == qmax) {
			return maxLen
		}
		return maxLen - 1
	}
	lenText := fmt.Sprintf("1..%d", maxLen)
	if r.Thorough() {
		lenText = fmt.Sprintf("1..%d for fraction bits 16|14 x bits dropped 0|2|4 and for the smallest and largest quantum, 1..%d for the other pairs,", maxLen, maxLen-1)
	}
	r.SetBound(fmt.Sprintf("all sequences of length %s over 8 boundary values x all 2^(n-1) splits into calls x %d option sets (all %d pairs of fraction bits %v x bits dropped %v, quanta %d..%d with unwrapping on; enable (never with 0 bits dropped: the constructor panics), bias 0|+q/4|-q/4, resetAfter 1|2|3, pulse sign, inversion)"+
		"; device paths: (a) real AbacoGroup (channels 6-7): 24 option sets accepted by isvalid (RescaleRaw, Unwrap, Bias, ResetAfter 6|1000, PulseSign +-1, channel 7 in InvertChan or only decoys) x 3 two-channel signals of 45-48 samples (slow ramps through several quanta in both directions, boundary values, pulses; 1|2|3 frames per packet) x every partition of the packets into 1, 2 or 3 demuxData calls, against one fresh unwrapper fed everything in one call"+
		"; (b) real RoachDevice over UDP on 127.0.0.1: %d variants (pulse sign, 2|4-byte words, packetisation, ramp speed%s), 3+ bursts = 3+ blocks from readPackets after samplePacket, against one fresh unwrapper fed everything after the sampled packet in one call", lenText, len(opts), npairs, vC12FractionBits, vC12Drops, qmin, qmax, nRoach,
		map[bool]string{false: "", true: ", bias, pulse sign 0"}[r.Thorough()]))
	// device paths first (a deadline then cuts the long tail of the direct family, not these): the code under
	// test starts goroutines of its own (a panic there is not recoverable)
	r.CrashTrace = true
	if n := vAbacoCases(r); n != 24 {
		panic(fmt.Sprintf("VERIF-INFRA C12: %d Abaco option sets, the bound says 24", n))
	}
	if n := vRoachCases(r); n != nRoach {
		panic(fmt.Sprintf("VERIF-INFRA C12: %d ROACH variants, the bound says %d", n, nRoach))
	}
	r.CrashTrace = false
	// direct family; in the thorough tier the shorter (cheaper) part of the cross product first
	for pass := 0; pass < 2; pass++ {
		for _, o := range opts {
			o := o
			n := lenFor(o)
			if (pass == 0) != (n < maxLen || !r.Thorough()) {
				continue
			}
			alpha := o.alphabet()
			for first := range alpha {
				first := first
				r.DFS(fmt.Sprintf("%v/first=%d", o, first), -1, func(x *vexp.X) vexp.Result {
					seq := []RawType{alpha[first]}
					for len(seq) < n {
						c := x.Choose(len(alpha) + 1)
						if c == 0 {
							break
						}
						seq = append(seq, alpha[c-1])
					}
					x.Steps = len(seq) << uint(len(seq)-1)
					v, cls, wrapped, oc := o.check(seq)
					if v != "" {
						v = fmt.Sprintf("options %v, raw sequence %v: %s", o, seq, v)
					}
					return vexp.Result{Violation: v, Class: cls, Nontrivial: wrapped && len(seq) > 1, Outcome: oc}
				})
			}
		}
	}
}
