//go:build verif

package dastard

// C12 — phase unwrapping keeps the signal modulo flux quanta and is independent of how the
// sequence is split into calls. Engine A: full enumeration of short sequences over boundary values,
// all splits into calls, all option sets; oracle = the property's integer arithmetic.

import (
	"fmt"
	"testing"

	"github.com/usnistgov/dastard/internal/vexp"
)

type vUnwrapOpt struct {
	fractionBits, drop uint
	enable             bool
	biasSel            int // 0, +q/4, -q/4
	resetAfter         int
	pulseSign          int
	invert             bool
}

func (o vUnwrapOpt) String() string {
	return fmt.Sprintf("frac%d/drop%d/enable=%v/bias%d/reset%d/sign%+d/invert=%v", o.fractionBits, o.drop, o.enable, o.biasSel, o.resetAfter, o.pulseSign, o.invert)
}

func (o vUnwrapOpt) quantum() int { return 1 << (o.fractionBits - o.drop) }

func (o vUnwrapOpt) biasLevel() int {
	q := o.quantum()
	switch o.biasSel {
	case 1:
		return (q / 4) << o.drop
	case 2:
		return -((q / 4) << o.drop)
	}
	return 0
}

func (o vUnwrapOpt) make() *PhaseUnwrapper {
	return NewPhaseUnwrapper(o.fractionBits, o.drop, o.enable, o.biasLevel(), o.resetAfter, o.pulseSign, o.invert)
}

// the alphabet: dropped-and-masked values at 0, around the quarter, half and three-quarter quantum
// (the step limits for bias 0 and +-q/4) and the top of the range; raw = value<<drop plus junk in the
// dropped bits and above the fraction bits.
func (o vUnwrapOpt) alphabet() []RawType {
	q := o.quantum()
	vals := []int{0, 1, q / 4, q/2 - 1, q / 2, q/2 + 1, 3 * q / 4, q - 1}
	out := make([]RawType, len(vals))
	for i, v := range vals {
		raw := uint16(v) << o.drop
		if i%2 == 1 {
			raw |= uint16(1<<o.drop) - 1 // junk in the dropped bits
		}
		if o.fractionBits < 16 && i%3 == 2 {
			raw |= uint16(0xffff) << o.fractionBits // junk above the fraction bits
		}
		if o.invert {
			raw ^= 0xffff
		}
		out[i] = RawType(raw)
	}
	return out
}

func (o vUnwrapOpt) inPrime(raw RawType) int {
	r := uint16(raw)
	if o.invert {
		r ^= 0xffff
	}
	mask := ^(uint16(0xffff) << o.fractionBits)
	return int((r & mask) >> o.drop)
}

func vCopyRaw(a []RawType) []RawType { return append([]RawType{}, a...) }

// check one complete sequence: property rules on the unsplit run, then every split into calls.
func (o vUnwrapOpt) check(seq []RawType) (viol, class string, wrapped bool, outcome string) {
	u := o.make()
	out := vCopyRaw(seq)
	u.UnwrapInPlace(&out)
	n := len(seq)
	ob := make([]byte, 0, 2*n)
	for _, v := range out {
		ob = append(ob, byte(v), byte(v>>8))
	}
	outcome = string(ob)
	q := o.quantum()
	if !o.enable {
		for i := range seq {
			if int(out[i]) != o.inPrime(seq[i]) {
				return fmt.Sprintf("unwrap disabled: sample %d input' %d output %d", i, o.inPrime(seq[i]), out[i]), "unwrap-disabled-not-identity", false, outcome
			}
		}
	} else {
		home := q
		if o.pulseSign <= 0 {
			home = -2 * q
		}
		bias := (o.biasLevel() >> o.drop) % q
		lower, upper := bias-q/2, bias+q/2
		k := make([]int, n) // offset from home in quanta, as a small signed number
		for i := range seq {
			v := o.inPrime(seq[i])
			d := (int(out[i]) - v - home) & 0xffff
			if d%q != 0 {
				return fmt.Sprintf("sample %d: output %d minus input' %d is not a whole number of quanta (%d)", i, out[i], v, q), "unwrap-not-modulo-quantum", false, outcome
			}
			k[i] = int(int16(uint16(d))) / q
		}
		away := 0 // consecutive samples away from home before i
		prevV := 0
		prevOut := home // the state before the first sample: last value 0 at home offset
		for i := range seq {
			v := o.inPrime(seq[i])
			inStep := v - prevV
			outStep := int(int16(uint16(int(out[i]) - prevOut)))
			okStep := (outStep-inStep)%q == 0 && outStep >= lower && outStep <= upper
			if k[i] != 0 {
				wrapped = true
			}
			if !okStep {
				// the only other legal move is the automatic return to the home offset
				if k[i] != 0 {
					return fmt.Sprintf("sample %d: output step %d (input step %d) is outside [bias-q/2,bias+q/2]=[%d,%d] and the output is not at the home offset", i, outStep, inStep, lower, upper), "unwrap-step-out-of-window", false, outcome
				}
				if away < o.resetAfter {
					return fmt.Sprintf("sample %d: output returned to the home offset after only %d consecutive samples away (resetAfter=%d)", i, away, o.resetAfter), "unwrap-reset-too-early", false, outcome
				}
			}
			if k[i] != 0 {
				away++
				if away > o.resetAfter+1 {
					return fmt.Sprintf("sample %d: %d consecutive samples away from the home offset, resetAfter=%d", i, away, o.resetAfter), "unwrap-no-reset", false, outcome
				}
			} else {
				away = 0
			}
			prevV, prevOut = v, int(out[i])
		}
	}
	// split invariance: every composition of n into calls
	for mask := 1; mask < 1<<(n-1); mask++ {
		u2 := o.make()
		res := make([]RawType, 0, n)
		start := 0
		for i := 1; i <= n; i++ {
			if i == n || mask&(1<<(i-1)) != 0 {
				part := vCopyRaw(seq[start:i])
				u2.UnwrapInPlace(&part)
				res = append(res, part...)
				start = i
			}
		}
		for i := range res {
			if res[i] != out[i] {
				return fmt.Sprintf("split mask %b: sample %d is %d, unsplit run gives %d", mask, i, res[i], out[i]), "unwrap-split-dependent", wrapped, outcome
			}
		}
	}
	return "", "", wrapped, outcome
}

func TestVerifC12(t *testing.T) {
	r := vexp.NewRunner("C12")
	defer r.Finish()
	maxLen := 5
	if r.Thorough() {
		maxLen = 7
	}
	r.SetBound(fmt.Sprintf("all sequences of length 1..%d over 8 boundary values x all 2^(n-1) splits into calls x 288 option sets (fraction bits 14|16, bits dropped 2|4, enable, bias 0|+q/4|-q/4, resetAfter 1|2|3, pulse sign, inversion)", maxLen))
	for _, fb := range []uint{16, 14} {
		for _, drop := range []uint{2, 4} {
			for _, enable := range []bool{true, false} {
				for bias := 0; bias < 3; bias++ {
					for _, ra := range []int{1, 2, 3} {
						for _, ps := range []int{+1, -1} {
							for _, inv := range []bool{false, true} {
								o := vUnwrapOpt{fb, drop, enable, bias, ra, ps, inv}
								if !enable && (bias != 0 || ra != 1 || ps != 1) {
									continue // these options are unused when unwrapping is off
								}
								alpha := o.alphabet()
								for first := range alpha {
									first := first
									r.DFS(fmt.Sprintf("%v/first=%d", o, first), -1, func(x *vexp.X) vexp.Result {
										seq := []RawType{alpha[first]}
										for len(seq) < maxLen {
											c := x.Choose(len(alpha) + 1)
											if c == 0 {
												break
											}
											seq = append(seq, alpha[c-1])
										}
										x.Steps = len(seq) << uint(len(seq)-1)
										v, cls, wrapped, oc := o.check(seq)
										if v != "" {
											v = fmt.Sprintf("options %v, raw sequence %v: %s", o, seq, v)
										}
										return vexp.Result{Violation: v, Class: cls, Nontrivial: wrapped && len(seq) > 1, Outcome: oc}
									})
								}
							}
						}
					}
				}
			}
		}
	}
}
