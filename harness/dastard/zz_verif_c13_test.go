//go:build verif

package dastard

// C13 — per-record analysis values equal their mathematical definitions.
// Engine A: every record over a boundary-value alphabet for small (npre, nsamp), signed and unsigned,
// crossed with projector/basis sets, is pushed through the real SetProjectorsBasis / AnalyzeData /
// messageSummaries (and, in the "off" cases, the real SetOFF / PublishData OFF writer). The oracle is
// an independent 256-bit math/big evaluation of the definitions.

import (
	"encoding/binary"
	"encoding/hex"
	"fmt"
	"math"
	"math/big"
	"os"
	"path/filepath"
	"strings"
	"testing"

	"github.com/usnistgov/dastard/internal/vexp"
	"gonum.org/v1/gonum/mat"
)

const v13Prec = 256

var v13Alphabet = []RawType{0, 1, 0x7fff, 0x8000, 0xfffe, 0xffff}
var v13AlphabetSmall = []RawType{0, 1, 0x7fff, 0xffff}
var v13Entries = []float64{-1, 0, 0.5, 1, 3}

type v13Shape struct{ npre, nsamp int }

// v13Model is one projector/basis set: nb rows of length nsamp (projectors) and nb columns of length
// nsamp (basis). nb = 0 means "no projectors loaded".
type v13Model struct {
	name string
	p    [][]float64 // p[k][j] = projectors(k, j)
	b    [][]float64 // b[k][i] = basis(i, k)
}

func (m *v13Model) nb() int { return len(m.p) }

// matrices builds the gonum matrices element by element from the mathematical definition
// projectors(k,j), basis(i,k).
func (m *v13Model) matrices(nsamp int) (*mat.Dense, *mat.Dense) {
	nb := m.nb()
	P := mat.NewDense(nb, nsamp, nil)
	B := mat.NewDense(nsamp, nb, nil)
	for k := 0; k < nb; k++ {
		for j := 0; j < nsamp; j++ {
			P.Set(k, j, m.p[k][j])
			B.Set(j, k, m.b[k][j])
		}
	}
	return P, B
}

// row patterns of length n
var v13PatternNames = []string{"zero", "e0", "elast", "ones", "half", "alt", "cyc", "trig3", "cycrev"}

func v13Pattern(id, n, npre int) []float64 {
	r := make([]float64, n)
	for i := range r {
		switch id {
		case 0:
		case 1:
			if i == 0 {
				r[i] = 1
			}
		case 2:
			if i == n-1 {
				r[i] = 1
			}
		case 3:
			r[i] = 1
		case 4:
			r[i] = 0.5
		case 5:
			r[i] = 1
			if i%2 == 1 {
				r[i] = -1
			}
		case 6:
			r[i] = v13Entries[i%5]
		case 7:
			if i == npre {
				r[i] = 3
			}
		case 8:
			r[i] = v13Entries[(n-i+1)%5]
		}
	}
	return r
}

// v13Models returns the pattern-built model list for a shape. level 0: 5 models, 1: 18, 2: 1+81+64, 3: 1+81+256.
func v13Models(sh v13Shape, level int) []*v13Model {
	pat := func(id int) []float64 { return v13Pattern(id, sh.nsamp, sh.npre) }
	out := []*v13Model{{name: "none"}}
	one := func(pi, bi int) {
		out = append(out, &v13Model{name: fmt.Sprintf("P[%s]/B[%s]", v13PatternNames[pi], v13PatternNames[bi]),
			p: [][]float64{pat(pi)}, b: [][]float64{pat(bi)}})
	}
	two := func(p1, p2, b1, b2 int) {
		out = append(out, &v13Model{name: fmt.Sprintf("P[%s,%s]/B[%s,%s]", v13PatternNames[p1], v13PatternNames[p2], v13PatternNames[b1], v13PatternNames[b2]),
			p: [][]float64{pat(p1), pat(p2)}, b: [][]float64{pat(b1), pat(b2)}})
	}
	switch level {
	case 0:
		one(6, 8)
		one(4, 3)
		two(6, 7, 4, 1)
		two(1, 8, 6, 5)
	case 1:
		for _, pi := range []int{1, 6, 7} {
			for _, bi := range []int{4, 5, 8} {
				one(pi, bi)
			}
		}
		for _, pp := range [][2]int{{6, 7}, {1, 2}, {4, 4}, {8, 5}} {
			for _, bb := range [][2]int{{4, 1}, {6, 8}} {
				two(pp[0], pp[1], bb[0], bb[1])
			}
		}
	default:
		for pi := 0; pi < 9; pi++ {
			for bi := 0; bi < 9; bi++ {
				one(pi, bi)
			}
		}
		sub := []int{1, 4, 6, 7}
		if level >= 3 {
			for _, p1 := range sub {
				for _, p2 := range sub {
					for _, b1 := range sub {
						for _, b2 := range sub {
							two(p1, p2, b1, b2)
						}
					}
				}
			}
		} else {
			for _, p1 := range sub {
				for _, p2 := range sub {
					for _, bb := range [][2]int{{4, 1}, {6, 7}, {7, 6}, {1, 1}} {
						two(p1, p2, bb[0], bb[1])
					}
				}
			}
		}
	}
	return out
}

// ---------------------------------------------------------------------------------------------
// reference (math/big, 256-bit)

func v13F(v float64) *big.Float { return new(big.Float).SetPrec(v13Prec).SetFloat64(v) }
func v13I(v int64) *big.Float   { return new(big.Float).SetPrec(v13Prec).SetInt64(v) }
func v13N() *big.Float          { return new(big.Float).SetPrec(v13Prec) }

func v13ToF64(f *big.Float) float64 {
	v, _ := f.Float64()
	return v
}

func v13Sample(v RawType, signed bool) int64 {
	if signed {
		return int64(int16(v))
	}
	return int64(v)
}

type v13Stats struct {
	ptMean, ptDelta, avg, rms, peak float64
	constant                        bool
}

// v13RefStats evaluates the definitions: mean of the pretrigger samples; slope of the least-squares
// line through (i, y_i), i = 0..npre-1 (normal equations) times (npre-1); mean, rms and max of the
// post-trigger samples relative to the pretrigger mean.
func v13RefStats(data []RawType, npre int, signed bool) v13Stats {
	var st v13Stats
	st.constant = true
	y := make([]*big.Float, len(data))
	for i, v := range data {
		y[i] = v13I(v13Sample(v, signed))
		if v != data[0] {
			st.constant = false
		}
	}
	n := v13I(int64(npre))
	sy, sx, sxx, sxy := v13N(), v13N(), v13N(), v13N()
	t := v13N()
	for i := 0; i < npre; i++ {
		xi := v13I(int64(i))
		sy.Add(sy, y[i])
		sx.Add(sx, xi)
		sxx.Add(sxx, t.Mul(xi, xi))
		sxy.Add(sxy, t.Mul(xi, y[i]))
	}
	mean := v13N().Quo(sy, n)
	st.ptMean = v13ToF64(mean)
	// slope = (n*sxy - sx*sy) / (n*sxx - sx*sx)
	num := v13N().Mul(n, sxy)
	num.Sub(num, t.Mul(sx, sy))
	den := v13N().Mul(n, sxx)
	den.Sub(den, t.Mul(sx, sx))
	if den.Sign() == 0 {
		st.ptDelta = math.NaN()
	} else {
		slope := v13N().Quo(num, den)
		slope.Mul(slope, v13I(int64(npre-1)))
		st.ptDelta = v13ToF64(slope)
	}
	N := v13I(int64(len(data) - npre))
	sp, sq := v13N(), v13N()
	var mx *big.Float
	d := v13N()
	for i := npre; i < len(data); i++ {
		d.Sub(y[i], mean)
		sp.Add(sp, d)
		sq.Add(sq, t.Mul(d, d))
		if mx == nil || y[i].Cmp(mx) > 0 {
			mx = y[i]
		}
	}
	st.avg = v13ToF64(v13N().Quo(sp, N))
	msq := v13N().Quo(sq, N)
	st.rms = v13ToF64(v13N().Sqrt(msq))
	st.peak = v13ToF64(v13N().Sub(mx, mean))
	return st
}

// v13RefModel evaluates coefficients = P x and the population standard deviation of x - B (P x).
func v13RefModel(data []RawType, signed bool, m *v13Model) (coefs []float64, resid float64) {
	ns := len(data)
	x := make([]*big.Float, ns)
	for i, v := range data {
		x[i] = v13I(v13Sample(v, signed))
	}
	nb := m.nb()
	c := make([]*big.Float, nb)
	t := v13N()
	for k := 0; k < nb; k++ {
		c[k] = v13N()
		for j := 0; j < ns; j++ {
			if m.p[k][j] == 0 {
				continue
			}
			c[k].Add(c[k], t.Mul(v13F(m.p[k][j]), x[j]))
		}
		coefs = append(coefs, v13ToF64(c[k]))
	}
	r := make([]*big.Float, ns)
	sum := v13N()
	for i := 0; i < ns; i++ {
		r[i] = v13N().Set(x[i])
		for k := 0; k < nb; k++ {
			if m.b[k][i] == 0 {
				continue
			}
			r[i].Sub(r[i], t.Mul(v13F(m.b[k][i]), c[k]))
		}
		sum.Add(sum, r[i])
	}
	n := v13I(int64(ns))
	mean := v13N().Quo(sum, n)
	ss := v13N()
	d := v13N()
	for i := 0; i < ns; i++ {
		d.Sub(r[i], mean)
		ss.Add(ss, t.Mul(d, d))
	}
	ss.Quo(ss, n)
	resid = v13ToF64(v13N().Sqrt(ss))
	return
}

// the statistics reference depends only on (record, npre, signed): the model choice is the innermost
// DFS decision, so the previous execution's statistics are usually the ones needed again.
var v13Cache struct {
	key string
	st  v13Stats
}

func v13StatsCached(data []RawType, npre int, signed bool) v13Stats {
	kb := make([]byte, 0, 2*len(data)+2)
	kb = append(kb, byte(npre))
	if signed {
		kb = append(kb, 1)
	} else {
		kb = append(kb, 0)
	}
	for _, v := range data {
		kb = append(kb, byte(v), byte(v>>8))
	}
	if string(kb) == v13Cache.key {
		return v13Cache.st
	}
	st := v13RefStats(data, npre, signed)
	v13Cache.key, v13Cache.st = string(kb), st
	return st
}

// ---------------------------------------------------------------------------------------------
// comparison

func v13Tol(want float64) float64 { return math.Max(1e-3, 1e-6*math.Abs(want)) }

// The residual standard deviation is computed by the code under test in two passes over a float64 residual: it is
// accurate to ~1e-10 of the record's scale. (The pulse RMS is computed in one pass with cancellation, accurate only
// to ~1e-3 absolute for a constant full-scale record: that is what v13Tol allows for.)
func v13TolTight(want float64) float64 { return math.Max(1e-6, 1e-9*math.Abs(want)) }

func v13CloseTight(got, want float64) bool {
	if math.IsNaN(got) || math.IsNaN(want) || math.IsInf(got, 0) {
		return false
	}
	return math.Abs(got-want) <= v13TolTight(want)
}

func v13Close32Tight(got float32, want float64) bool {
	g := float64(got)
	if math.IsNaN(g) || math.IsNaN(want) || math.IsInf(g, 0) {
		return false
	}
	return math.Abs(g-want) <= v13TolTight(want)+math.Abs(want)/(1<<23)
}

func v13Close(got, want float64) bool {
	if math.IsNaN(got) || math.IsNaN(want) || math.IsInf(got, 0) {
		return false
	}
	return math.Abs(got-want) <= v13Tol(want)
}

// a float32 field: the reference rounded to float32 (half an ulp = |want| 2^-24; one ulp allowed) plus
// the float64 tolerance.
func v13Close32(got float32, want float64) bool {
	g := float64(got)
	if math.IsNaN(g) || math.IsNaN(want) || math.IsInf(g, 0) {
		return false
	}
	return math.Abs(g-want) <= v13Tol(want)+math.Abs(want)/(1<<23)
}

func v13PeakOK(got, want float64, close func(g, w float64) bool) bool {
	return close(got, want) || close(got, math.Max(want, 0))
}

type v13Run struct {
	sh     v13Shape
	signed bool
	data   []RawType
	m      *v13Model
}

func (q *v13Run) String() string {
	return fmt.Sprintf("npre=%d nsamp=%d signed=%v data=%04x model=%s", q.sh.npre, q.sh.nsamp, q.signed, q.data, q.m.name)
}

func v13NewRecord(q *v13Run) *DataRecord {
	d := make([]RawType, len(q.data))
	copy(d, q.data)
	return &DataRecord{data: d, presamples: q.sh.npre, signed: q.signed, channelIndex: 3,
		trigFrame: 123456, trigTime: vT0, sampPeriod: 1e-3, voltsPerArb: 1.0 / 65535}
}

type v13Violation struct{ class, what string }

// v13CheckRecord compares the analysed record (fields and summary message) with the reference.
func v13CheckRecord(x *vexp.X, q *v13Run, rec *DataRecord, loaded bool) (*v13Violation, []byte, v13Stats) {
	st := v13StatsCached(q.data, q.sh.npre, q.signed)
	out := make([]byte, 0, 96)
	put := func(v float64) { out = binary.LittleEndian.AppendUint64(out, math.Float64bits(v)) }
	put(rec.pretrigMean)
	put(rec.pretrigDelta)
	put(rec.pulseAverage)
	put(rec.pulseRMS)
	put(rec.peakValue)
	x.Logf("record %v", q)
	x.Logf("  want: ptMean=%v ptDelta=%v avg=%v rms=%v peak=%v (or floored at 0)", st.ptMean, st.ptDelta, st.avg, st.rms, st.peak)
	x.Logf("  got:  ptMean=%v ptDelta=%v avg=%v rms=%v peak=%v", rec.pretrigMean, rec.pretrigDelta, rec.pulseAverage, rec.pulseRMS, rec.peakValue)
	bad := func(class, f string, a ...interface{}) (*v13Violation, []byte, v13Stats) {
		return &v13Violation{class, fmt.Sprintf("%v: ", q) + fmt.Sprintf(f, a...)}, out, st
	}
	if !v13Close(rec.pretrigMean, st.ptMean) {
		return bad("c13-pretrig-mean", "pretrigger mean %v, definition gives %v", rec.pretrigMean, st.ptMean)
	}
	if !v13Close(rec.pretrigDelta, st.ptDelta) {
		return bad("c13-pretrig-delta", "pretrigger delta %v, least-squares slope x (npre-1) is %v", rec.pretrigDelta, st.ptDelta)
	}
	if !v13Close(rec.pulseAverage, st.avg) {
		return bad("c13-pulse-average", "pulse average %v, definition gives %v", rec.pulseAverage, st.avg)
	}
	if !v13Close(rec.pulseRMS, st.rms) {
		return bad("c13-pulse-rms", "pulse RMS %v, definition gives %v", rec.pulseRMS, st.rms)
	}
	if !v13PeakOK(rec.peakValue, st.peak, v13Close) {
		return bad("c13-peak", "peak value %v, definition gives %v (or that floored at 0)", rec.peakValue, st.peak)
	}
	var wantC []float64
	var wantR float64
	if loaded {
		wantC, wantR = v13RefModel(q.data, q.signed, q.m)
		x.Logf("  want: coefs=%v residualStdDev=%v", wantC, wantR)
		x.Logf("  got:  coefs=%v residualStdDev=%v", rec.modelCoefs, rec.residualStdDev)
		if len(rec.modelCoefs) != len(wantC) {
			return bad("c13-coef-count", "%d model coefficients, %d projector rows loaded", len(rec.modelCoefs), len(wantC))
		}
		for k := range wantC {
			put(rec.modelCoefs[k])
			if !v13Close(rec.modelCoefs[k], wantC[k]) {
				return bad("c13-coef", "model coefficient %d is %v, projectors x record gives %v", k, rec.modelCoefs[k], wantC[k])
			}
		}
		put(rec.residualStdDev)
		if !v13CloseTight(rec.residualStdDev, wantR) {
			return bad("c13-residual", "residual std dev %v, population std of record - basis x coefs is %v", rec.residualStdDev, wantR)
		}
	}
	// the summary message, decoded per doc/BINARY_FORMATS.md
	msg := messageSummaries(rec)
	x.Steps++
	if len(msg) != 2 || len(msg[0]) != 48 || len(msg[1])%8 != 0 {
		return bad("c13-msg-layout", "summary message has %d frames, header %d bytes", len(msg), len(msg[0]))
	}
	f32 := func(o int) float32 { return math.Float32frombits(binary.LittleEndian.Uint32(msg[0][o:])) }
	mMean, mPeak, mRMS, mAvg, mRes := f32(12), f32(16), f32(20), f32(24), f32(28)
	x.Logf("  msg:  ptMean=%v peak=%v rms=%v avg=%v resid=%v ncoef=%d", mMean, mPeak, mRMS, mAvg, mRes, len(msg[1])/8)
	if !v13Close32(mMean, st.ptMean) {
		return bad("c13-msg-pretrig-mean", "summary message pretrigger mean %v, definition gives %v", mMean, st.ptMean)
	}
	c32 := func(g, w float64) bool { return v13Close32(float32(g), w) }
	if !v13PeakOK(float64(mPeak), st.peak, c32) {
		return bad("c13-msg-peak", "summary message peak %v, definition gives %v", mPeak, st.peak)
	}
	if !v13Close32(mRMS, st.rms) {
		return bad("c13-msg-pulse-rms", "summary message pulse RMS %v, definition gives %v", mRMS, st.rms)
	}
	if !v13Close32(mAvg, st.avg) {
		return bad("c13-msg-pulse-average", "summary message pulse average %v, definition gives %v", mAvg, st.avg)
	}
	if loaded {
		if !v13Close32Tight(mRes, wantR) {
			return bad("c13-msg-residual", "summary message residual std dev %v, definition gives %v", mRes, wantR)
		}
		if len(msg[1]) != 8*len(wantC) {
			return bad("c13-msg-coef-count", "summary message carries %d coefficient bytes for %d projector rows", len(msg[1]), len(wantC))
		}
		for k := range wantC {
			g := math.Float64frombits(binary.LittleEndian.Uint64(msg[1][8*k:]))
			if !v13Close(g, wantC[k]) {
				return bad("c13-msg-coef", "summary message coefficient %d is %v, projectors x record gives %v", k, g, wantC[k])
			}
		}
	}
	return nil, out, st
}

// v13Analyze is one execution of the main families: fresh processor, real SetProjectorsBasis, real AnalyzeData.
func v13Analyze(x *vexp.X, q *v13Run) vexp.Result {
	dsp := NewDataStreamProcessor(3, nil, q.sh.npre, q.sh.nsamp)
	loaded := q.m.nb() > 0
	if loaded {
		P, B := q.m.matrices(q.sh.nsamp)
		x.Steps++
		if err := dsp.SetProjectorsBasis(P, B, q.m.name); err != nil {
			return vexp.Result{Violation: fmt.Sprintf("%v: SetProjectorsBasis rejected matrices of compatible shape: %v", q, err), Class: "c13-compatible-rejected"}
		}
	}
	rec := v13NewRecord(q)
	x.Steps++
	dsp.AnalyzeData([]*DataRecord{rec})
	for i, v := range rec.data {
		if v != q.data[i] {
			return vexp.Result{Violation: fmt.Sprintf("%v: AnalyzeData changed sample %d to %04x", q, i, v), Class: "c13-record-modified"}
		}
	}
	viol, out, st := v13CheckRecord(x, q, rec, loaded)
	res := vexp.Result{Nontrivial: !st.constant, Outcome: hex.EncodeToString(out)}
	if viol != nil {
		res.Violation, res.Class = viol.what, viol.class
	}
	return res
}

// v13Batch: several records through one processor, either in one AnalyzeData call or in successive calls; every
// record is checked only after the last call (so a result that is overwritten by a later record shows).
func v13Batch(x *vexp.X, qs []*v13Run, oneCall bool) vexp.Result {
	q0 := qs[0]
	dsp := NewDataStreamProcessor(3, nil, q0.sh.npre, q0.sh.nsamp)
	loaded := q0.m.nb() > 0
	if loaded {
		P, B := q0.m.matrices(q0.sh.nsamp)
		if err := dsp.SetProjectorsBasis(P, B, q0.m.name); err != nil {
			return vexp.Result{Violation: fmt.Sprintf("%v: SetProjectorsBasis rejected matrices of compatible shape: %v", q0, err), Class: "c13-compatible-rejected"}
		}
	}
	recs := make([]*DataRecord, len(qs))
	for i, q := range qs {
		recs[i] = v13NewRecord(q)
	}
	if oneCall {
		x.Steps++
		dsp.AnalyzeData(recs)
	} else {
		for i := range recs {
			x.Steps++
			dsp.AnalyzeData(recs[i : i+1])
		}
	}
	res := vexp.Result{}
	var outs []string
	for i, q := range qs {
		viol, out, st := v13CheckRecord(x, q, recs[i], loaded)
		if !st.constant {
			res.Nontrivial = true
		}
		outs = append(outs, hex.EncodeToString(out))
		if viol != nil {
			res.Violation = fmt.Sprintf("record %d of %d (one AnalyzeData call: %v): %s", i+1, len(qs), oneCall, viol.what)
			res.Class = "c13-batch:" + viol.class
			return res
		}
	}
	res.Outcome = strings.Join(outs, "/")
	return res
}

// ---------------------------------------------------------------------------------------------
// shape family: every (projector dims, basis dims) pair around the compatible one, on a processor with
// and without a previously loaded model.

func v13Dense(r, c int, seed int) *mat.Dense {
	if r == 0 || c == 0 {
		return &mat.Dense{}
	}
	d := make([]float64, r*c)
	for i := range d {
		d[i] = v13Entries[(i+seed)%5]
	}
	return mat.NewDense(r, c, d)
}

func v13ShapeBody(x *vexp.X, sh v13Shape, signed bool) vexp.Result {
	dsp := NewDataStreamProcessor(3, nil, sh.npre, sh.nsamp)
	prev := &v13Model{name: "none"}
	if x.Choose(2) == 1 {
		prev = v13Models(sh, 0)[3]
		P, B := prev.matrices(sh.nsamp)
		if err := dsp.SetProjectorsBasis(P, B, prev.name); err != nil {
			return vexp.Result{Violation: "compatible model rejected: " + err.Error(), Class: "c13-compatible-rejected"}
		}
	}
	pr := x.Choose(4) // 0 = empty matrix
	pc := sh.nsamp - 1 + x.Choose(3)
	br := sh.nsamp - 1 + x.Choose(3)
	bc := x.Choose(4) // 0 = empty matrix
	if pr == 0 {
		pc = 0
	}
	if bc == 0 {
		br = 0
	}
	P, B := v13Dense(pr, pc, 0), v13Dense(br, bc, 2)
	compatible := pr > 0 && pc == sh.nsamp && br == sh.nsamp && bc == pr
	x.Steps++
	err := dsp.SetProjectorsBasis(P, B, "shape")
	x.Logf("prev=%s projectors %dx%d basis %dx%d on nsamp=%d -> err=%v", prev.name, pr, pc, br, bc, sh.nsamp, err)
	desc := fmt.Sprintf("npre=%d nsamp=%d previous model %s, projectors %dx%d, basis %dx%d", sh.npre, sh.nsamp, prev.name, pr, pc, br, bc)
	if compatible && err != nil {
		return vexp.Result{Violation: desc + ": compatible shapes rejected: " + err.Error(), Class: "c13-compatible-rejected"}
	}
	if !compatible && err == nil {
		return vexp.Result{Violation: desc + ": incompatible shapes accepted without error", Class: "c13-incompatible-accepted"}
	}
	// analysis afterwards uses the accepted model, or still the previous one after a rejection
	cur := prev
	if compatible {
		cur = &v13Model{name: "shape"}
		for k := 0; k < pr; k++ {
			row := make([]float64, sh.nsamp)
			col := make([]float64, sh.nsamp)
			for j := 0; j < sh.nsamp; j++ {
				row[j] = P.At(k, j)
				col[j] = B.At(j, k)
			}
			cur.p = append(cur.p, row)
			cur.b = append(cur.b, col)
		}
	}
	data := make([]RawType, sh.nsamp)
	for i := range data {
		data[i] = v13Alphabet[(i*5+2)%6]
	}
	q := &v13Run{sh: sh, signed: signed, data: data, m: cur}
	rec := v13NewRecord(q)
	x.Steps++
	dsp.AnalyzeData([]*DataRecord{rec})
	viol, out, _ := v13CheckRecord(x, q, rec, cur.nb() > 0)
	res := vexp.Result{Nontrivial: true, Outcome: fmt.Sprintf("err=%v|", err != nil) + hex.EncodeToString(out)}
	if viol != nil {
		res.Violation, res.Class = desc+": "+viol.what, viol.class
	}
	return res
}

// ---------------------------------------------------------------------------------------------
// OFF family: the record is analysed and written through the real SetOFF / PublishData; the file is
// decoded and its float32 values compared with the reference.

func v13OffBody(x *vexp.X, q *v13Run, path string) vexp.Result {
	dsp := NewDataStreamProcessor(3, nil, q.sh.npre, q.sh.nsamp)
	P, B := q.m.matrices(q.sh.nsamp)
	if err := dsp.SetProjectorsBasis(P, B, q.m.name); err != nil {
		return vexp.Result{Violation: fmt.Sprintf("%v: compatible model rejected: %v", q, err), Class: "c13-compatible-rejected"}
	}
	os.Remove(path)
	dsp.SetOFF(3, q.sh.npre, q.sh.nsamp, 1, 1e-3, vT0, 1, 1, 1, 1, 0, 0, 0, path, "verif", "chan3", 3,
		dsp.projectors, dsp.basis, dsp.modelDescription, Pixel{})
	// one PublishData call with 1..3 records: the record itself and rotations of it (different coefficients)
	nrec := 1 + x.Choose(3)
	qs := make([]*v13Run, nrec)
	recs := make([]*DataRecord, nrec)
	for i := range qs {
		d := make([]RawType, len(q.data))
		for j := range d {
			d[j] = q.data[(j+i)%len(d)]
		}
		qs[i] = &v13Run{sh: q.sh, signed: q.signed, data: d, m: q.m}
		recs[i] = v13NewRecord(qs[i])
	}
	dsp.AnalyzeData(recs)
	x.Steps += 3
	if err := dsp.PublishData(recs); err != nil {
		return vexp.Result{Violation: fmt.Sprintf("%v: PublishData: %v", q, err), Class: "c13-off-publish-error"}
	}
	dsp.RemoveOFF()
	f, err := vParseOFF(path)
	if err != nil {
		return vexp.Result{Violation: fmt.Sprintf("%v: OFF file unreadable: %v", q, err), Class: "c13-off-unreadable"}
	}
	if len(f.records) != nrec {
		return vexp.Result{Violation: fmt.Sprintf("%v: OFF file holds %d records, %d written", q, len(f.records), nrec), Class: "c13-off-record-count"}
	}
	res := vexp.Result{Outcome: "off"}
	for ri, q := range qs {
		st := v13StatsCached(q.data, q.sh.npre, q.signed)
		wantC, wantR := v13RefModel(q.data, q.signed, q.m)
		r := f.records[ri]
		x.Logf("record %d of %d: %v", ri+1, nrec, q)
		x.Logf("  want: ptMean=%v ptDelta=%v resid=%v coefs=%v", st.ptMean, st.ptDelta, wantR, wantC)
		x.Logf("  file: ptMean=%v ptDelta=%v resid=%v coefs=%v", r.ptMean, r.ptDelta, r.resid, r.coefs)
		out := make([]byte, 0, 32)
		for _, v := range append([]float32{r.ptMean, r.ptDelta, r.resid}, r.coefs...) {
			out = binary.LittleEndian.AppendUint32(out, math.Float32bits(v))
		}
		res.Outcome += "|" + hex.EncodeToString(out)
		if !st.constant {
			res.Nontrivial = true
		}
		bad := func(class, f string, a ...interface{}) vexp.Result {
			res.Violation, res.Class = fmt.Sprintf("%v: OFF file, record %d of the %d published in one call: ", q, ri+1, nrec)+fmt.Sprintf(f, a...), class
			return res
		}
		if int(r.nsamp) != q.sh.nsamp || int(r.npre) != q.sh.npre {
			return bad("c13-off-lengths", "lengths %d/%d", r.npre, r.nsamp)
		}
		if !v13Close32(r.ptMean, st.ptMean) {
			return bad("c13-off-pretrig-mean", "pretrigger mean %v, definition gives %v", r.ptMean, st.ptMean)
		}
		if !v13Close32(r.ptDelta, st.ptDelta) {
			return bad("c13-off-pretrig-delta", "pretrigger delta %v, least-squares slope x (npre-1) is %v", r.ptDelta, st.ptDelta)
		}
		if !v13Close32Tight(r.resid, wantR) {
			return bad("c13-off-residual", "residual std dev %v, definition gives %v", r.resid, wantR)
		}
		if len(r.coefs) != len(wantC) {
			return bad("c13-off-coef-count", "%d coefficients for %d projector rows", len(r.coefs), len(wantC))
		}
		for k := range wantC {
			if !v13Close32(r.coefs[k], wantC[k]) {
				return bad("c13-off-coef", "coefficient %d is %v, projectors x record gives %v", k, r.coefs[k], wantC[k])
			}
		}
	}
	return res
}

// ---------------------------------------------------------------------------------------------

func v13Pow(b, e int) int {
	r := 1
	for ; e > 0; e-- {
		r *= b
	}
	return r
}

func TestVerifC13(t *testing.T) {
	r := vexp.NewRunner("C13")
	defer r.Finish()
	thorough := r.Thorough()
	type fam struct {
		sh    v13Shape
		level int
	}
	fams := []fam{{v13Shape{3, 4}, 3}, {v13Shape{3, 6}, 1}, {v13Shape{4, 7}, 0}}
	mxAlpha := v13AlphabetSmall
	if thorough {
		fams = []fam{{v13Shape{3, 4}, 3}, {v13Shape{3, 6}, 2}, {v13Shape{4, 7}, 1}, {v13Shape{5, 8}, 0}}
		mxAlpha = v13Alphabet
	}
	bound := "all records over {0,1,7fff,8000,fffe,ffff}, signed and unsigned, for (npre,nsamp) x pattern-built model sets (none / 1 / 2 bases; rows from 9 patterns over entries {-1,0,0.5,1,3}):"
	for _, f := range fams {
		bound += fmt.Sprintf(" (%d,%d) x %d models;", f.sh.npre, f.sh.nsamp, len(v13Models(f.sh, f.level)))
	}
	bound += fmt.Sprintf(" (3,4): every 1-basis projector row (5^4) x 2 basis columns and every basis column x 3 projector rows, all records over a %d-value alphabet;", len(mxAlpha))
	if thorough {
		bound += " (3,4): every 2-basis projector matrix (5^8) with a fixed basis and every 2-basis basis matrix with fixed projectors on 6 records;"
	}
	bound += " all projector/basis shape pairs within +-1 of compatible (and empty matrices) with and without a previous model; (3,4) records x 4 models through the real OFF writer, 1-3 records (rotations) per PublishData call; every pair (thorough: also every triple over {0,1,ffff}) of (3,4) records over a 3-value (thorough 4-value) alphabet x {no model, 4 models} through one processor in one AnalyzeData call and in successive calls, all records checked after the last call"
	r.SetBound(bound)

	// family A: records x pattern models
	for _, f := range fams {
		f := f
		models := v13Models(f.sh, f.level)
		prefix := 1
		for prefix < f.sh.nsamp-1 && v13Pow(6, f.sh.nsamp-prefix)*len(models) > 40000 {
			prefix++
		}
		for _, signed := range []bool{false, true} {
			signed := signed
			for pi := 0; pi < v13Pow(6, prefix); pi++ {
				pi := pi
				r.DFS(fmt.Sprintf("rec/%d,%d/signed=%v/prefix=%d.%d", f.sh.npre, f.sh.nsamp, signed, prefix, pi), -1, func(x *vexp.X) vexp.Result {
					data := make([]RawType, f.sh.nsamp)
					p := pi
					for i := prefix - 1; i >= 0; i-- {
						data[i] = v13Alphabet[p%6]
						p /= 6
					}
					for i := prefix; i < f.sh.nsamp; i++ {
						data[i] = v13Alphabet[x.Choose(6)]
					}
					m := models[x.Choose(len(models))]
					return v13Analyze(x, &v13Run{sh: f.sh, signed: signed, data: data, m: m})
				})
			}
		}
	}

	// family B: exhaustive single-basis matrices on (3,4)
	sh34 := v13Shape{3, 4}
	type mxMode struct {
		name  string
		allP  bool
		fixed int // pattern id of the fixed side
	}
	modes := []mxMode{{"Pall/B=half", true, 4}, {"Pall/B=cyc", true, 6}, {"Ball/P=e0", false, 1}, {"Ball/P=cyc", false, 6}, {"Ball/P=ones", false, 3}}
	for _, signed := range []bool{false, true} {
		signed := signed
		for _, md := range modes {
			md := md
			for e01 := 0; e01 < 25; e01++ {
				e01 := e01
				r.DFS(fmt.Sprintf("mx1/%s/signed=%v/e=%d", md.name, signed, e01), -1, func(x *vexp.X) vexp.Result {
					row := []float64{v13Entries[e01/5], v13Entries[e01%5], v13Entries[x.Choose(5)], v13Entries[x.Choose(5)]}
					data := make([]RawType, 4)
					for i := range data {
						data[i] = mxAlpha[x.Choose(len(mxAlpha))]
					}
					fixed := v13Pattern(md.fixed, 4, 3)
					m := &v13Model{name: fmt.Sprintf("%s row=%v", md.name, row)}
					if md.allP {
						m.p, m.b = [][]float64{row}, [][]float64{fixed}
					} else {
						m.p, m.b = [][]float64{fixed}, [][]float64{row}
					}
					return v13Analyze(x, &v13Run{sh: sh34, signed: signed, data: data, m: m})
				})
			}
		}
	}

	// family C (thorough): exhaustive two-basis matrices on (3,4), 6 representative records
	if thorough {
		reps := [][]RawType{{0, 1, 0x7fff, 0x8000}, {0xffff, 0xfffe, 0, 1}, {1, 1, 1, 0xffff}, {0x8000, 0x8000, 0x7fff, 0x7fff}, {0, 0xffff, 0, 0xffff}, {0x7fff, 1, 0xfffe, 0x8000}}
		for _, signed := range []bool{false, true} {
			signed := signed
			for _, allP := range []bool{true, false} {
				allP := allP
				for e := 0; e < 125; e++ {
					e := e
					r.DFS(fmt.Sprintf("mx2/allP=%v/signed=%v/e=%d", allP, signed, e), -1, func(x *vexp.X) vexp.Result {
						ent := []float64{v13Entries[e/25], v13Entries[e/5%5], v13Entries[e%5]}
						for len(ent) < 8 {
							ent = append(ent, v13Entries[x.Choose(5)])
						}
						data := reps[x.Choose(len(reps))]
						f1, f2 := v13Pattern(6, 4, 3), v13Pattern(1, 4, 3)
						m := &v13Model{name: fmt.Sprintf("allP=%v entries=%v", allP, ent)}
						if allP {
							m.p, m.b = [][]float64{ent[:4], ent[4:]}, [][]float64{f1, f2}
						} else {
							m.p, m.b = [][]float64{f1, f2}, [][]float64{ent[:4], ent[4:]}
						}
						return v13Analyze(x, &v13Run{sh: sh34, signed: signed, data: data, m: m})
					})
				}
			}
		}
	}

	// family D: shapes
	for _, f := range fams {
		f := f
		for _, signed := range []bool{false, true} {
			signed := signed
			r.DFS(fmt.Sprintf("shape/%d,%d/signed=%v", f.sh.npre, f.sh.nsamp, signed), -1, func(x *vexp.X) vexp.Result {
				return v13ShapeBody(x, f.sh, signed)
			})
		}
	}

	// family E: OFF files
	dir := os.Getenv("TMPDIR")
	if dir == "" {
		dir = os.TempDir()
	}
	path := filepath.Join(dir, fmt.Sprintf("v13_%d.off", os.Getpid()))
	defer os.Remove(path)
	all := v13Models(sh34, 3)
	var offModels []*v13Model
	for _, m := range all {
		switch m.name {
		case "P[cyc]/B[cycrev]", "P[half]/B[ones]", "P[cyc,trig3]/B[half,e0]", "P[e0,cyc]/B[cyc,trig3]":
			offModels = append(offModels, m)
		}
	}
	if len(offModels) != 4 {
		panic(fmt.Sprintf("OFF model selection found %d models", len(offModels)))
	}
	// family F: batches of records through one processor
	batchAlpha := []RawType{0, 1, 0xffff}
	if thorough {
		batchAlpha = v13AlphabetSmall
	}
	nrec := v13Pow(len(batchAlpha), 4)
	mkData := func(i int) []RawType {
		d := make([]RawType, 4)
		for k := range d {
			d[k] = batchAlpha[i%len(batchAlpha)]
			i /= len(batchAlpha)
		}
		return d
	}
	batchModels := append([]*v13Model{{name: "none"}}, offModels...)
	for _, signed := range []bool{false, true} {
		signed := signed
		for mi, m := range batchModels {
			m := m
			for _, oneCall := range []bool{true, false} {
				oneCall := oneCall
				r.DFS(fmt.Sprintf("batch2/signed=%v/model=%d/onecall=%v", signed, mi, oneCall), -1, func(x *vexp.X) vexp.Result {
					a, b := x.Choose(nrec), x.Choose(nrec)
					return v13Batch(x, []*v13Run{{sh: sh34, signed: signed, data: mkData(a), m: m}, {sh: sh34, signed: signed, data: mkData(b), m: m}}, oneCall)
				})
				if !thorough {
					continue
				}
				r.DFS(fmt.Sprintf("batch3/signed=%v/model=%d/onecall=%v", signed, mi, oneCall), -1, func(x *vexp.X) vexp.Result {
					// three records over {0,1,ffff}
					pick := func() []RawType {
						d := make([]RawType, 4)
						for k := range d {
							d[k] = []RawType{0, 1, 0xffff}[x.Choose(3)]
						}
						return d
					}
					qs := []*v13Run{{sh: sh34, signed: signed, data: pick(), m: m}, {sh: sh34, signed: signed, data: pick(), m: m}, {sh: sh34, signed: signed, data: pick(), m: m}}
					return v13Batch(x, qs, oneCall)
				})
			}
		}
	}

	for _, signed := range []bool{false, true} {
		signed := signed
		for mi, m := range offModels {
			m := m
			for v0 := 0; v0 < 6; v0++ {
				v0 := v0
				r.DFS(fmt.Sprintf("off/signed=%v/model=%d/first=%d", signed, mi, v0), -1, func(x *vexp.X) vexp.Result {
					data := []RawType{v13Alphabet[v0], v13Alphabet[x.Choose(6)], v13Alphabet[x.Choose(6)], v13Alphabet[x.Choose(6)]}
					return v13OffBody(x, &v13Run{sh: sh34, signed: signed, data: data, m: m}, path)
				})
			}
		}
	}
}
