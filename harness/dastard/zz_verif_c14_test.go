//go:build verif

package dastard

// C14 — published record and summary messages follow doc/BINARY_FORMATS.md.
// Engine A: the cross product of boundary alphabets for every field of a DataRecord is pushed through
// the real messageRecords / messageSummaries; the oracle is a decoder written from the document
// (offsets, widths, little-endian, type codes), which must recover every field exactly.

import (
	"encoding/binary"
	"encoding/hex"
	"fmt"
	"github.com/pebbe/zmq4"
	"hash/fnv"
	"math"
	"os"
	"runtime"
	"strings"
	"testing"
	"time"

	"github.com/usnistgov/dastard/internal/vexp"
)

// ---------------------------------------------------------------------------------------------
// decoders per doc/BINARY_FORMATS.md

// "Triggered data records go into a 2-frame ZMQ message. The first frame contains the header, which is
// 36 bytes long. The second frame is the raw record data ... little-endian"
type v14RecMsg struct {
	channel  uint16  // byte 0 (2 bytes)
	version  uint8   // byte 2 (1 byte), 0 in this version
	dtype    uint8   // byte 3 (1 byte): 2 = int16, 3 = uint16
	npre     uint32  // byte 4 (4 bytes)
	nsamp    uint32  // byte 8 (4 bytes)
	period   float32 // byte 12 (4 bytes)
	vpa      float32 // byte 16 (4 bytes)
	timeNs   int64   // byte 20 (8 bytes)
	frame    int64   // byte 28 (8 bytes)
	samples  []uint16
	hdrBytes int
}

const v14RecHeaderLen = 36

// the summary header table ends with "Byte 40 (8 bytes): trigger frame index": 48 bytes.
const v14SumHeaderLen = 48

func v14DecodeRecord(frames [][]byte) (*v14RecMsg, string, string) {
	if len(frames) != 2 {
		return nil, "c14-rec-frame-count", fmt.Sprintf("record message has %d frames, documented 2", len(frames))
	}
	h := frames[0]
	if len(h) != v14RecHeaderLen {
		return nil, "c14-rec-header-length", fmt.Sprintf("record header is %d bytes, documented %d", len(h), v14RecHeaderLen)
	}
	le := binary.LittleEndian
	m := &v14RecMsg{channel: le.Uint16(h[0:]), version: h[2], dtype: h[3], npre: le.Uint32(h[4:]), nsamp: le.Uint32(h[8:]),
		period: math.Float32frombits(le.Uint32(h[12:])), vpa: math.Float32frombits(le.Uint32(h[16:])),
		timeNs: int64(le.Uint64(h[20:])), frame: int64(le.Uint64(h[28:])), hdrBytes: len(h)}
	width := 0
	switch m.dtype {
	case 2, 3:
		width = 2
	default:
		return m, "c14-rec-data-type", fmt.Sprintf("data type code %d: only 2 (int16) and 3 (uint16) are allowed", m.dtype)
	}
	if len(frames[1]) != width*int(m.nsamp) {
		return m, "c14-rec-payload-length", fmt.Sprintf("second frame is %d bytes, header announces %d samples of %d bytes", len(frames[1]), m.nsamp, width)
	}
	m.samples = make([]uint16, m.nsamp)
	for i := range m.samples {
		m.samples[i] = le.Uint16(frames[1][2*i:])
	}
	return m, "", ""
}

type v14SumMsg struct {
	channel uint16  // byte 0 (2 bytes)
	version uint16  // byte 2 (2 bytes)
	npre    uint32  // byte 4
	nsamp   uint32  // byte 8
	ptMean  float32 // byte 12
	peak    float32 // byte 16
	rms     float32 // byte 20
	avg     float32 // byte 24
	resid   float32 // byte 28
	timeNs  int64   // byte 32 (8 bytes)
	frame   int64   // byte 40 (8 bytes)
	coefs   []float64
}

func v14DecodeSummary(frames [][]byte) (*v14SumMsg, string, string) {
	if len(frames) != 2 {
		return nil, "c14-sum-frame-count", fmt.Sprintf("summary message has %d frames, documented 2", len(frames))
	}
	h := frames[0]
	if len(h) != v14SumHeaderLen {
		return nil, "c14-sum-header-length", fmt.Sprintf("summary header is %d bytes, the documented field table occupies %d", len(h), v14SumHeaderLen)
	}
	le := binary.LittleEndian
	f32 := func(o int) float32 { return math.Float32frombits(le.Uint32(h[o:])) }
	m := &v14SumMsg{channel: le.Uint16(h[0:]), version: le.Uint16(h[2:]), npre: le.Uint32(h[4:]), nsamp: le.Uint32(h[8:]),
		ptMean: f32(12), peak: f32(16), rms: f32(20), avg: f32(24), resid: f32(28),
		timeNs: int64(le.Uint64(h[32:])), frame: int64(le.Uint64(h[40:]))}
	if len(frames[1])%8 != 0 {
		return m, "c14-sum-payload-length", fmt.Sprintf("second frame is %d bytes, not 8 times a number of coefficients", len(frames[1]))
	}
	m.coefs = make([]float64, len(frames[1])/8)
	for i := range m.coefs {
		m.coefs[i] = math.Float64frombits(le.Uint64(frames[1][8*i:]))
	}
	return m, "", ""
}

// ---------------------------------------------------------------------------------------------
// alphabets

var v14Channels = []int{0, 1, 255, 256, 65535}
var v14Presamples = []int{0, 1, 5}
var v14Frames = []FrameIndex{0, 1, 1 << 40, math.MaxInt64, -1}

type v14Time struct {
	t  time.Time
	ns int64 // nanoseconds since 1 Jan 1970 UTC, computed by hand below
}

// days from 1970-01-01 to the given civil date (proleptic Gregorian), independent of package time
func v14Days(y, m, d int) int64 {
	if m <= 2 {
		y--
	}
	era := y / 400
	yoe := y - era*400
	mp := (m + 9) % 12
	doy := (153*mp+2)/5 + d - 1
	doe := yoe*365 + yoe/4 - yoe/100 + doy
	return int64(era*146097+doe) - 719468
}

func v14MakeTime(y, mo, d, h, mi, s, ns int, zoneSec int) v14Time {
	loc := time.UTC
	if zoneSec != 0 {
		loc = time.FixedZone("verif", zoneSec)
	}
	secs := v14Days(y, mo, d)*86400 + int64(h*3600+mi*60+s) - int64(zoneSec)
	return v14Time{t: time.Date(y, time.Month(mo), d, h, mi, s, ns, loc), ns: secs*1000000000 + int64(ns)}
}

var v14Times = []v14Time{
	v14MakeTime(1971, 1, 1, 0, 0, 0, 1, 0),
	v14MakeTime(2026, 9, 28, 12, 34, 56, 789012345, 7*3600),
	v14MakeTime(2200, 3, 1, 23, 59, 59, 999999999, 0),
}

var v14F32 = []float32{0, math.SmallestNonzeroFloat32, 6.4e-7, 1, math.MaxFloat32, float32(math.Inf(1)), float32(math.NaN())}
var v14F32b = []float32{float32(math.Copysign(0, -1)), 1.0 / 65535, -1.5, -math.SmallestNonzeroFloat32, math.MaxFloat32, float32(math.Inf(-1)), math.Float32frombits(0x7fc00001)}

func v14Analysis(thorough bool) []float64 {
	// -1234.5678 is inexact in float32 and all four of its float32 bytes differ (c4 9a 52 2b)
	a := []float64{math.NaN(), math.Inf(1), math.Inf(-1), 0, -1234.5678}
	if thorough {
		a = append(a, 1.5, -65535.25, 1e-50)
	}
	return a
}

func v14CoefSets() [][]float64 {
	many := make([]float64, 64)
	for i := range many {
		many[i] = float64(i)*0.5 - 3 + 1/float64(i+3)
	}
	return [][]float64{nil, {1.5}, {math.NaN(), math.Copysign(0, -1)}, {1e300, math.Inf(-1), 5e-324}, many}
}

func v14Samples(pattern, n int) []RawType {
	d := make([]RawType, n)
	for i := range d {
		switch pattern {
		case 0:
			d[i] = RawType(i*257 + 0x00ff)
		case 1:
			d[i] = 0x8000
			if i%2 == 1 {
				d[i] = 0x7fff
			}
		default:
			d[i] = RawType(0xfffe - 3*i)
		}
	}
	return d
}

// v14Outcome is a printable canonical form of a message: header in hex, payload length and hash.
func v14Outcome(frames [][]byte) string {
	s := ""
	for i, f := range frames {
		if i == 0 {
			s += hex.EncodeToString(f)
			continue
		}
		h := fnv.New64a()
		h.Write(f)
		s += fmt.Sprintf("|%d:%016x", len(f), h.Sum64())
	}
	return s
}

func v14Same32(got, want float32) bool {
	if want != want {
		return got != got
	}
	return math.Float32bits(got) == math.Float32bits(want)
}

func v14Same64(got, want float64) bool {
	if want != want {
		return got != got
	}
	return math.Float64bits(got) == math.Float64bits(want)
}

// v14Narrow is the value a 4-byte float field can carry for a float64 analysis value (IEEE round to nearest).
func v14Narrow(v float64) float32 { return float32(v) }

// ---------------------------------------------------------------------------------------------

func v14CheckRecord(x *vexp.X, rec *DataRecord, wantNs int64) vexp.Result {
	orig := append([]RawType{}, rec.data...)
	frames := messageRecords(rec)
	x.Steps = 1
	oc := v14Outcome(frames)
	res := vexp.Result{Nontrivial: len(rec.data) > 0, Outcome: oc}
	desc := fmt.Sprintf("record{ch=%d signed=%v npre=%d len=%d period=%v(%#08x) voltsPerArb=%v(%#08x) time=%v frame=%d}", rec.channelIndex, rec.signed, rec.presamples,
		len(rec.data), rec.sampPeriod, math.Float32bits(rec.sampPeriod), rec.voltsPerArb, math.Float32bits(rec.voltsPerArb), rec.trigTime.Format(time.RFC3339Nano), rec.trigFrame)
	bad := func(class, f string, a ...interface{}) vexp.Result {
		res.Violation, res.Class = desc+": "+fmt.Sprintf(f, a...), class
		return res
	}
	if len(frames) > 0 {
		x.Logf("header (%d bytes): % x", len(frames[0]), frames[0])
	}
	m, cls, what := v14DecodeRecord(frames)
	if cls != "" {
		return bad(cls, "%s", what)
	}
	x.Logf("decoded: %+v", *m)
	if frames[0][0] != byte(rec.channelIndex) || frames[0][1] != byte(rec.channelIndex>>8) {
		return bad("c14-rec-subscription-prefix", "first two bytes % x are not the little-endian channel number %d", frames[0][:2], rec.channelIndex)
	}
	if int(m.channel) != rec.channelIndex {
		return bad("c14-rec-channel", "bytes 0-1 decode to channel %d", m.channel)
	}
	if m.version != 0 {
		return bad("c14-rec-version", "byte 2 is version %d, documented 0", m.version)
	}
	wantType := uint8(3)
	if rec.signed {
		wantType = 2
	}
	if m.dtype != wantType {
		return bad("c14-rec-data-type", "byte 3 is data type code %d, documented %d for signed=%v 16-bit samples", m.dtype, wantType, rec.signed)
	}
	if int(m.npre) != rec.presamples {
		return bad("c14-rec-presamples", "bytes 4-7 decode to %d samples before trigger", m.npre)
	}
	if int(m.nsamp) != len(rec.data) {
		return bad("c14-rec-nsamples", "bytes 8-11 decode to %d samples in record", m.nsamp)
	}
	if !v14Same32(m.period, rec.sampPeriod) {
		return bad("c14-rec-sample-period", "bytes 12-15 decode to sample period %v (%#08x)", m.period, math.Float32bits(m.period))
	}
	if !v14Same32(m.vpa, rec.voltsPerArb) {
		return bad("c14-rec-volts-per-arb", "bytes 16-19 decode to volts per arb %v (%#08x)", m.vpa, math.Float32bits(m.vpa))
	}
	if m.timeNs != wantNs {
		return bad("c14-rec-trigger-time", "bytes 20-27 decode to %d ns since 1970, the trigger time is %d ns", m.timeNs, wantNs)
	}
	if m.frame != int64(rec.trigFrame) {
		return bad("c14-rec-trigger-frame", "bytes 28-35 decode to frame %d", m.frame)
	}
	for i, v := range m.samples {
		if v != uint16(orig[i]) {
			return bad("c14-rec-payload", "sample %d decodes to %#04x, the record holds %#04x", i, v, orig[i])
		}
	}
	return res
}

func v14CheckSummary(x *vexp.X, rec *DataRecord, wantNs int64) vexp.Result {
	origCoefs := append([]float64{}, rec.modelCoefs...)
	frames := messageSummaries(rec)
	x.Steps = 1
	oc := v14Outcome(frames)
	res := vexp.Result{Nontrivial: len(rec.data) > 0 || len(rec.modelCoefs) > 0, Outcome: oc}
	desc := fmt.Sprintf("summary{ch=%d npre=%d len=%d ptMean=%v peak=%v rms=%v avg=%v resid=%v time=%v frame=%d ncoef=%d}", rec.channelIndex, rec.presamples, len(rec.data),
		rec.pretrigMean, rec.peakValue, rec.pulseRMS, rec.pulseAverage, rec.residualStdDev, rec.trigTime.Format(time.RFC3339Nano), rec.trigFrame, len(rec.modelCoefs))
	bad := func(class, f string, a ...interface{}) vexp.Result {
		res.Violation, res.Class = desc+": "+fmt.Sprintf(f, a...), class
		return res
	}
	if len(frames) > 0 {
		x.Logf("header (%d bytes): % x", len(frames[0]), frames[0])
	}
	m, cls, what := v14DecodeSummary(frames)
	if cls != "" {
		return bad(cls, "%s", what)
	}
	x.Logf("decoded: %+v", *m)
	if frames[0][0] != byte(rec.channelIndex) || frames[0][1] != byte(rec.channelIndex>>8) {
		return bad("c14-sum-subscription-prefix", "first two bytes % x are not the little-endian channel number %d", frames[0][:2], rec.channelIndex)
	}
	if int(m.channel) != rec.channelIndex {
		return bad("c14-sum-channel", "bytes 0-1 decode to channel %d", m.channel)
	}
	if m.version != 0 {
		return bad("c14-sum-version", "bytes 2-3 are version %d, documented 0", m.version)
	}
	if int(m.npre) != rec.presamples {
		return bad("c14-sum-presamples", "bytes 4-7 decode to %d samples before trigger", m.npre)
	}
	if int(m.nsamp) != len(rec.data) {
		return bad("c14-sum-nsamples", "bytes 8-11 decode to %d samples in record", m.nsamp)
	}
	for _, f := range []struct {
		key  string
		name string
		off  int
		got  float32
		want float64
	}{{"pretrig-mean", "pretrigger mean", 12, m.ptMean, rec.pretrigMean}, {"peak", "peak value", 16, m.peak, rec.peakValue}, {"pulse-rms", "pulse RMS", 20, m.rms, rec.pulseRMS},
		{"pulse-average", "pulse average", 24, m.avg, rec.pulseAverage}, {"residual", "residual std dev", 28, m.resid, rec.residualStdDev}} {
		if !v14Same32(f.got, v14Narrow(f.want)) {
			return bad("c14-sum-"+f.key, "bytes %d-%d decode to %s %v, the record holds %v", f.off, f.off+3, f.name, f.got, f.want)
		}
	}
	if m.timeNs != wantNs {
		return bad("c14-sum-trigger-time", "bytes 32-39 decode to %d ns since 1970, the trigger time is %d ns", m.timeNs, wantNs)
	}
	if m.frame != int64(rec.trigFrame) {
		return bad("c14-sum-trigger-frame", "bytes 40-47 decode to frame %d", m.frame)
	}
	if len(m.coefs) != len(origCoefs) {
		return bad("c14-sum-coef-count", "second frame carries %d float64 coefficients, the record holds %d", len(m.coefs), len(origCoefs))
	}
	for i, v := range m.coefs {
		if !v14Same64(v, origCoefs[i]) {
			return bad("c14-sum-coef", "coefficient %d decodes to %v, the record holds %v", i, v, origCoefs[i])
		}
	}
	return res
}

// ---------------------------------------------------------------------------------------------
// socket family: batches of records through the real startSocket goroutine and a real ZMQ PUB socket to a SUB
// client; every record must arrive as its own two-frame message, in order, and decode to itself.

type v14Sock struct {
	pub  chan []*DataRecord
	sub  *zmq4.Socket
	seq  int64
	kind string
}

var v14Socks = map[string]*v14Sock{}
var v14Ctx *zmq4.Context

func v14Infra(f string, a ...interface{}) {
	fmt.Fprintf(os.Stderr, "VERIF-INFRA C14 socket family: "+f+"\n", a...)
	os.Exit(3)
}

func v14GetSock(kind string) *v14Sock {
	if s := v14Socks[kind]; s != nil {
		return s
	}
	var i, n int
	fmt.Sscanf(os.Getenv("VERIF_SHARD"), "%d/%d", &i, &n)
	port := 16500 + 2*i
	conv := messageRecords
	if kind == "summaries" {
		port++
		conv = messageSummaries
	}
	pub, err := startSocket(port, conv)
	if err != nil {
		v14Infra("startSocket(%d): %v", port, err)
	}
	if v14Ctx == nil {
		ctx, err := zmq4.NewContext()
		if err != nil {
			v14Infra("zmq context: %v", err)
		}
		ctx.SetRetryAfterEINTR(true)
		v14Ctx = ctx
	}
	sub, err := v14Ctx.NewSocket(zmq4.SUB)
	if err != nil {
		v14Infra("SUB socket: %v", err)
	}
	sub.SetRcvhwm(0)
	sub.SetLinger(0)
	sub.SetSubscribe("")
	if err := sub.Connect(fmt.Sprintf("tcp://127.0.0.1:%d", port)); err != nil {
		v14Infra("connect: %v", err)
	}
	s := &v14Sock{pub: pub, sub: sub, kind: kind}
	// slow joiner: single-record batches until one gets through, then a marker
	t0 := time.Now()
	for {
		s.seq++
		pub <- []*DataRecord{{channelIndex: 65535, trigFrame: FrameIndex(-s.seq), trigTime: vT0, data: []RawType{}}}
		sub.SetRcvtimeo(20 * time.Millisecond)
		if _, err := sub.RecvMessageBytes(0); err == nil {
			break
		}
		if time.Since(t0) > 30*time.Second {
			v14Infra("the SUB socket never saw a message on port %d", port)
		}
	}
	v14Socks[kind] = s
	s.drainTo(s.marker())
	return s
}

// marker publishes a single-record batch with a unique negative frame number and returns that number
func (s *v14Sock) marker() int64 {
	s.seq++
	s.pub <- []*DataRecord{{channelIndex: 65535, trigFrame: FrameIndex(-s.seq), trigTime: vT0, data: []RawType{}}}
	// let the publishing goroutine take the batches before this goroutine blocks inside the C library's receive
	// call (otherwise it waits for the runtime's monitor thread to hand the processor over: tens of milliseconds)
	for i := 0; i < 4 && len(s.pub) > 0; i++ {
		runtime.Gosched()
	}
	return -s.seq
}

func v14FrameOf(kind string, parts [][]byte) (int64, bool) {
	off := 28
	if kind == "summaries" {
		off = 40
	}
	if len(parts) < 1 || len(parts[0]) < off+8 {
		return 0, false
	}
	return int64(binary.LittleEndian.Uint64(parts[0][off:])), true
}

// drainTo receives messages until the marker arrives and returns the ones before it. In this environment the
// last message handed to the PUB socket now and then (1-2 % of the time) stays put until the next one is
// sent (observed with the unchanged publisher; the messages before it always arrive), and dastard's publisher
// drops a message when zmq_send is interrupted by a signal: a marker that has not arrived after 100 ms is
// therefore followed by another one.
func (s *v14Sock) drainTo(mark int64) [][][]byte {
	var msgs [][][]byte
	marks := map[int64]bool{mark: true}
	s.sub.SetRcvtimeo(100 * time.Millisecond)
	for tries := 0; ; {
		parts, err := s.sub.RecvMessageBytes(0)
		if err != nil {
			if os.Getenv("VERIF_C14_DEBUG") != "" {
				fmt.Fprintf(os.Stderr, "DBG timeout waiting for %v: %v, %d msgs so far, pubchan len %d\n", marks, err, len(msgs), len(s.pub))
			}
			tries++
			if tries > 300 {
				v14Infra("%s: no marker received after %d attempts (%d messages before it): %v", s.kind, tries, len(msgs), err)
			}
			marks[s.marker()] = true
			continue
		}
		if f, ok := v14FrameOf(s.kind, parts); ok && len(parts) == 2 && f < 0 {
			if marks[f] {
				return msgs
			}
			continue // a marker of an earlier execution that arrived late
		}
		msgs = append(msgs, parts)
	}
}

// v14SocketBody: a message lost on the way (see drainTo) makes the attempt inconclusive and it is repeated; what is
// judged is an attempt in which every message arrived, or any attempt with a malformed message.
func v14SocketBody(x *vexp.X, kind string) vexp.Result {
	var recorded []int
	pos := 0
	pick := func(n int) int {
		if pos < len(recorded) { // a further attempt replays the choices of the first
			pos++
			return recorded[pos-1]
		}
		c := x.Choose(n)
		recorded = append(recorded, c)
		pos++
		return c
	}
	var res vexp.Result
	for attempt := 0; attempt < 6; attempt++ {
		var lost bool
		pos = 0
		res, lost = v14SocketAttempt(x, kind, pick)
		if !lost {
			return res
		}
	}
	return res
}

// v14SockCoefs: projectors are configured per channel, so the channels of the socket family differ in their number of
// basis functions: channel 0 has four, channel 1 has no projectors (no coefficients), channel 256 has two.
func v14SockCoefs(ch int, tag int64) []float64 {
	switch ch {
	case 0:
		return []float64{float64(tag), -1.5, math.Inf(1), 0.125}
	case 1:
		return nil
	}
	return []float64{float64(tag), -1.5}
}

func v14SocketAttempt(x *vexp.X, kind string, pick func(int) int) (vexp.Result, bool) {
	s := v14GetSock(kind)
	nb := 1 + pick(2)
	var want []*DataRecord
	var batches [][]*DataRecord
	tag := int64(1000)
	for b := 0; b < nb; b++ {
		n := 1 + pick(3)
		var batch []*DataRecord
		for i := 0; i < n; i++ {
			ch := []int{0, 1, 256}[pick(3)]
			tag++
			rec := &DataRecord{channelIndex: ch, signed: ch == 1, presamples: 1, data: v14Samples(1, 3+i), sampPeriod: 1e-3, voltsPerArb: 0.5,
				trigTime: vT0.Add(time.Duration(tag) * time.Microsecond), trigFrame: FrameIndex(tag), modelCoefs: v14SockCoefs(ch, tag)}
			batch = append(batch, rec)
			want = append(want, rec)
		}
		batches = append(batches, batch)
	}
	for _, b := range batches {
		s.pub <- b
	}
	x.Steps = len(want)
	t0dbg := time.Now()
	msgs := s.drainTo(s.marker())
	if os.Getenv("VERIF_C14_DEBUG") != "" {
		fmt.Fprintf(os.Stderr, "DBG drain %v msgs=%d\n", time.Since(t0dbg), len(msgs))
	}
	desc := fmt.Sprintf("%s port: batches of sizes %v", kind, func() []int {
		var z []int
		for _, b := range batches {
			z = append(z, len(b))
		}
		return z
	}())
	res := vexp.Result{Nontrivial: len(want) > 1, Outcome: fmt.Sprintf("%s %d records -> %d messages", kind, len(want), len(msgs))}
	bad := func(class, f string, a ...interface{}) (vexp.Result, bool) {
		res.Violation, res.Class = desc+": "+fmt.Sprintf(f, a...), class
		return res, false
	}
	for i, m := range msgs {
		if len(m) != 2 {
			return bad("c14-sock-frames", "message %d on the wire has %d frames, every record is documented as one two-frame message (%d records published, %d messages received)", i, len(m), len(want), len(msgs))
		}
	}
	if len(msgs) < len(want) {
		// fewer well-formed messages than records: a send was interrupted (or records are being dropped: then
		// every attempt ends here and the last one is reported)
		res.Violation, res.Class = desc+fmt.Sprintf(": %d records published, only %d messages received in each of 6 attempts", len(want), len(msgs)), "c14-sock-count"
		return res, true
	}
	if len(msgs) != len(want) {
		return bad("c14-sock-count", "%d records published, %d messages received", len(want), len(msgs))
	}
	for i, m := range msgs {
		rec := want[i]
		wantNs := rec.trigTime.UnixNano()
		var r vexp.Result
		if f, _ := v14FrameOf(kind, m); f != int64(rec.trigFrame) {
			return bad("c14-sock-order", "message %d carries frame %d, record %d published has frame %d", i, f, i, rec.trigFrame)
		}
		if kind == "summaries" {
			mm, cls, what := v14DecodeSummary(m)
			if cls != "" {
				return bad(cls, "message %d: %s", i, what)
			}
			same := int(mm.channel) == rec.channelIndex && mm.timeNs == wantNs && len(mm.coefs) == len(rec.modelCoefs)
			for j := 0; same && j < len(mm.coefs); j++ {
				same = v14Same64(mm.coefs[j], rec.modelCoefs[j])
			}
			if !same {
				return bad("c14-sock-content", "message %d decodes to %+v (%d coefficients), record is channel %d time %d with %d coefficients %v", i, *mm, len(mm.coefs), rec.channelIndex, wantNs, len(rec.modelCoefs), rec.modelCoefs)
			}
		} else {
			mm, cls, what := v14DecodeRecord(m)
			if cls != "" {
				return bad(cls, "message %d: %s", i, what)
			}
			same := int(mm.channel) == rec.channelIndex && mm.timeNs == wantNs && len(mm.samples) == len(rec.data)
			for j := 0; same && j < len(mm.samples); j++ {
				same = mm.samples[j] == uint16(rec.data[j])
			}
			if !same {
				return bad("c14-sock-content", "message %d decodes to %+v, record is channel %d time %d samples %v", i, *mm, rec.channelIndex, wantNs, rec.data)
			}
		}
		if m[0][0] != byte(rec.channelIndex) || m[0][1] != byte(rec.channelIndex>>8) {
			return bad("c14-sock-subscription-prefix", "message %d starts with % x, channel is %d", i, m[0][:2], rec.channelIndex)
		}
		_ = r
	}
	return res, false
}

// ---------------------------------------------------------------------------------------------
// sequence family: the converters are called once per record by one publishing goroutine, for records of every
// channel in turn; "every published message" therefore quantifies over messages that follow other messages. One
// execution = a sequence of records whose variable-length parts (samples / coefficients) and channels are chosen
// independently; each message is decoded and compared in full right after its conversion (what the publisher sends
// before it converts the next record). The variable-length alphabets are enumerated longest first: the executions are
// run one after the other in one process, and a converter that keeps something from one message to the next then
// fails first in an execution that shows it on its own (long, ..., shorter), which replays alone.

const v14SeqLen = 3

var v14SeqChannels = []int{0, 65535}

func v14SeqBody(x *vexp.X, kind string, lens []int, coefSets [][]float64) vexp.Result {
	var sizes []int
	var outcome string
	tm := v14Times[1]
	varied := false
	for i := 0; i < v14SeqLen; i++ {
		ch := v14SeqChannels[x.Choose(len(v14SeqChannels))]
		rec := &DataRecord{channelIndex: ch, presamples: i, sampPeriod: 1e-3, voltsPerArb: 0.5, trigTime: tm.t, trigFrame: FrameIndex(100 + i),
			pretrigMean: 1.5, peakValue: -1234.5678, pulseRMS: float64(i), pulseAverage: math.Inf(1), residualStdDev: math.NaN()}
		var r vexp.Result
		if kind == "summaries" {
			ci := len(coefSets) - 1 - x.Choose(len(coefSets)) // longest first, see below
			rec.modelCoefs = append([]float64(nil), coefSets[ci]...)
			rec.data = make([]RawType, 5)
			sizes = append(sizes, len(rec.modelCoefs))
			r = v14CheckSummary(x, rec, tm.ns)
		} else {
			n := lens[len(lens)-1-x.Choose(len(lens))]
			rec.signed = x.Choose(2) == 1
			rec.data = v14Samples(i, n)
			rec.modelCoefs = []float64{1, 2}
			sizes = append(sizes, n)
			r = v14CheckRecord(x, rec, tm.ns)
		}
		varied = varied || sizes[i] != sizes[0]
		outcome += r.Outcome + ";"
		if r.Violation != "" {
			r.Class = "c14-seq-" + strings.TrimPrefix(r.Class, "c14-")
			r.Violation = fmt.Sprintf("message %d of a sequence of %s whose variable parts have %v elements so far: %s", i+1, kind, sizes, r.Violation)
			r.Outcome = outcome
			x.Steps = i + 1
			return r
		}
	}
	x.Steps = v14SeqLen
	return vexp.Result{Nontrivial: varied, Outcome: outcome}
}

func TestVerifC14(t *testing.T) {
	r := vexp.NewRunner("C14")
	defer r.Finish()
	thorough := r.Thorough()
	for _, tm := range v14Times { // the hand-computed epoch offsets must agree with the calendar
		if tm.t.Unix()*1000000000+int64(tm.t.Nanosecond()) != tm.ns {
			panic(fmt.Sprintf("harness error: %v is not %d ns after the epoch", tm.t, tm.ns))
		}
	}
	lens := []int{0, 1, 5, 300}
	if thorough {
		lens = append(lens, 70000)
	}
	analysis := v14Analysis(thorough)
	coefSets := v14CoefSets()
	r.SetBound(fmt.Sprintf("records: channel {0,1,255,256,65535} x signed x presamples {0,1,5} x length %v x 3 sample patterns x 7 sample periods x 7 volts-per-arb (zero, -0, denormal, max, +-Inf, NaN) "+
		"x 3 trigger times (1971, 2026 in a +7h zone, 2200) x 5 frame numbers (0,1,2^40,2^63-1,-1); summaries: the same channels, presamples, lengths, times and frames "+
		"x %d values (NaN, +-Inf, 0, exact and inexact float32) for each of the 5 analysis fields x coefficient sets of 0,1,2,3,64 float64 (incl. NaN, -0, Inf, 1e300, denormal); socket family: 1-2 batches of 1-3 records over channels {0,1,256} (4, 0 and 2 coefficients, 3-5 samples) through the real startSocket goroutine and ZMQ PUB socket "+
		"(pulse-record and summary converters) to a SUB client; sequence family: %d consecutive messages from one converter, each with channel {0,65535} x (records: length %v x signed; summaries: the 5 coefficient sets), every message decoded in full",
		lens, len(analysis), v14SeqLen, lens))

	for _, kind := range []string{"records", "summaries"} {
		kind := kind
		r.DFS("socket/"+kind, -1, func(x *vexp.X) vexp.Result { return v14SocketBody(x, kind) })
	}
	for _, kind := range []string{"records", "summaries"} {
		kind := kind
		r.DFS("seq/"+kind, -1, func(x *vexp.X) vexp.Result { return v14SeqBody(x, kind, lens, coefSets) })
	}
	for _, ch := range v14Channels {
		ch := ch
		for _, signed := range []bool{false, true} {
			signed := signed
			for _, npre := range v14Presamples {
				npre := npre
				for _, n := range lens {
					n := n
					r.DFS(fmt.Sprintf("rec/ch=%d/signed=%v/npre=%d/len=%d", ch, signed, npre, n), -1, func(x *vexp.X) vexp.Result {
						pattern := 0
						if n > 0 {
							pattern = x.Choose(3)
						}
						rec := &DataRecord{channelIndex: ch, signed: signed, presamples: npre, data: v14Samples(pattern, n)}
						rec.sampPeriod = v14F32[x.Choose(len(v14F32))]
						rec.voltsPerArb = v14F32b[x.Choose(len(v14F32b))]
						tm := v14Times[x.Choose(len(v14Times))]
						rec.trigTime = tm.t
						rec.trigFrame = v14Frames[x.Choose(len(v14Frames))]
						// analysis values must not leak into the record message
						rec.pretrigMean, rec.peakValue, rec.modelCoefs = 1.5, math.NaN(), []float64{1, 2}
						return v14CheckRecord(x, rec, tm.ns)
					})
				}
			}
		}
	}
	for _, ch := range v14Channels {
		ch := ch
		for _, npre := range v14Presamples {
			npre := npre
			for _, n := range lens {
				n := n
				if n > 300 {
					continue // the summary carries only the length
				}
				for ci := range coefSets {
					ci := ci
					r.DFS(fmt.Sprintf("sum/ch=%d/npre=%d/len=%d/coefs=%d", ch, npre, n, ci), -1, func(x *vexp.X) vexp.Result {
						rec := &DataRecord{channelIndex: ch, signed: ci%2 == 1, presamples: npre, data: make([]RawType, n), sampPeriod: 1e-3, voltsPerArb: 1}
						rec.pretrigMean = analysis[x.Choose(len(analysis))]
						rec.peakValue = analysis[x.Choose(len(analysis))]
						rec.pulseRMS = analysis[x.Choose(len(analysis))]
						rec.pulseAverage = analysis[x.Choose(len(analysis))]
						rec.residualStdDev = analysis[x.Choose(len(analysis))]
						rec.pretrigDelta = -7.25
						tm := v14Times[x.Choose(len(v14Times))]
						rec.trigTime = tm.t
						rec.trigFrame = v14Frames[x.Choose(len(v14Frames))]
						rec.modelCoefs = append([]float64(nil), coefSets[ci]...)
						return v14CheckSummary(x, rec, tm.ns)
					})
				}
			}
		}
	}
}
