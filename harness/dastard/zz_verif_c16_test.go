//go:build verif

package dastard

// C16 — status replay and configuration persistence are complete (parts a and b; the crash-safety
// part c lives in package main of cmd/dastard, harness/cmd_dastard/zz_verif_c16c_test.go).
//
// (a) The REAL RunClientUpdater runs in this process with its ZMQ PUB socket bound to a per-worker
//     port; the harness is a ZMQ SUB client subscribed to everything. Every sequence of status updates
//     over the alphabet below is pushed through clientMessageChan, followed by SENDALL, and the replay
//     is compared with "the most recent message of every topic published through this updater".
// (b) The REAL saveState writes enumerated values of every structure that start-up reads back; a fresh
//     viper reads the file and the same viper.UnmarshalKey calls that RunRPCServer / PrepareRun make
//     (and the real PrepareRun itself, for the trigger states) decode it; every exported field is compared.

import (
	"encoding/json"
	"fmt"
	"hash/fnv"
	"math"
	"net"
	"net/http"
	"net/rpc"
	"os"
	"path/filepath"
	"reflect"
	"regexp"
	"runtime"
	"sort"
	"strings"
	"testing"
	"time"

	"github.com/pebbe/zmq4"
	"github.com/spf13/viper"
	"github.com/usnistgov/dastard/internal/vexp"
)

func v16Infra(format string, a ...interface{}) {
	fmt.Fprintf(os.Stderr, "VERIF-INFRA C16: "+format+"\n", a...)
	os.Exit(3)
}

// =============================================================================================
// part (a): SENDALL replay

// An update whose state cannot be JSON-encoded is never published, so by the statement it is not a
// "status update"; dastard has no such state (all published structures are ints, bools, strings,
// finite floats). What the updater does with one is recorded as an observation, not judged.
const v16UnencodableIsViolation = false

const v16SeqPerGen = 100 // sequences pushed through one updater before it is replaced by a fresh one

type v16Updater struct {
	gen     int
	port    int
	ch      chan ClientUpdate
	abort   chan struct{}
	done    chan struct{}
	sub     *zmq4.Socket
	nseq    int
	nrecv   int
	lastErr string
	model   map[string]string // topic -> most recent message observed live from this updater
}

var v16U *v16Updater
var v16Gen int
var v16DrainerLatched bool
var v16Ctx *zmq4.Context

func v16BasePort() int {
	var i, n int
	fmt.Sscanf(os.Getenv("VERIF_SHARD"), "%d/%d", &i, &n)
	return 15500 + 3*i
}

func (u *v16Updater) send(cu ClientUpdate) {
	select {
	case u.ch <- cu:
	case <-time.After(10 * time.Second):
		v16Infra("updater generation %d does not take messages from clientMessageChan (tag %s)", u.gen, cu.tag)
	}
}

// recv returns the next 2-part message, or ok=false after the timeout.
func (u *v16Updater) recv(timeout time.Duration) (topic, body string, ok bool) {
	u.sub.SetRcvtimeo(timeout)
	t0 := time.Now()
	parts, err := u.sub.RecvMessageBytes(0)
	u.lastErr = fmt.Sprintf("%v after %v (timeout %v)", err, time.Since(t0), timeout)
	if err != nil {
		return "", "", false
	}
	u.nrecv++
	if len(parts) != 2 {
		v16Infra("status message with %d parts (want 2): %q", len(parts), parts)
	}
	return string(parts[0]), string(parts[1]), true
}

func v16Start() *v16Updater {
	v16Gen++
	u := &v16Updater{gen: v16Gen, port: v16BasePort() + v16Gen%3, model: map[string]string{}}
	// the previous generation's socket on this port (three generations ago) closes asynchronously
	deadline := time.Now().Add(10 * time.Second)
	for {
		l, err := net.Listen("tcp4", fmt.Sprintf("0.0.0.0:%d", u.port))
		if err == nil {
			l.Close()
			break
		}
		if time.Now().After(deadline) {
			v16Infra("port %d is not free: %v", u.port, err)
		}
		time.Sleep(20 * time.Millisecond)
	}
	// Our updater must be the only reader. The common TestMain's drainer goroutine ranges over the
	// channel it finds in the global when it first RUNS, which under load can be after this point:
	// make sure it has latched onto the original channel (a send beyond the buffer capacity completes
	// only when somebody has received) before the global is replaced.
	if !v16DrainerLatched {
		old := clientMessageChan
		for i := 0; i <= cap(old); i++ {
			select {
			case old <- ClientUpdate{"ALIVE", 0}:
			case <-time.After(10 * time.Second):
				v16Infra("the common drainer goroutine does not read the original clientMessageChan")
			}
		}
		v16DrainerLatched = true
	}
	clientMessageChan = make(chan ClientUpdate, 10)
	u.ch = clientMessageChan
	u.abort = make(chan struct{})
	u.done = make(chan struct{})
	go func() {
		defer close(u.done)
		RunClientUpdater(u.port, u.abort)
	}()
	// the client side lives in its own ZMQ context (retrying after EINTR: the Go runtime sends signals),
	// so that the publisher's context is exactly as dastard configures it
	if v16Ctx == nil {
		ctx, err := zmq4.NewContext()
		if err != nil {
			v16Infra("zmq context: %v", err)
		}
		ctx.SetRetryAfterEINTR(true)
		v16Ctx = ctx
	}
	sub, err := v16Ctx.NewSocket(zmq4.SUB)
	if err != nil {
		v16Infra("zmq SUB socket: %v", err)
	}
	sub.SetRcvhwm(0)
	sub.SetLinger(0)
	sub.SetSubscribe("")
	if err := sub.Connect(fmt.Sprintf("tcp://127.0.0.1:%d", u.port)); err != nil {
		v16Infra("zmq connect: %v", err)
	}
	u.sub = sub
	// handshake (slow joiner): NEWDASTARD announcements are published but never remembered
	t0 := time.Now()
	for n := 0; ; n++ {
		u.send(ClientUpdate{"NEWDASTARD", fmt.Sprintf("hs-%d-%d", u.gen, n)})
		if _, _, ok := u.recv(20 * time.Millisecond); ok {
			break
		}
		if time.Since(t0) > 20*time.Second {
			v16Infra("handshake: the SUB socket never saw a message from updater generation %d on port %d", u.gen, u.port)
		}
	}
	done := fmt.Sprintf("hs-done-%d", u.gen)
	u.send(ClientUpdate{"NEWDASTARD", done})
	for {
		_, body, ok := u.recv(10 * time.Second)
		if !ok {
			v16Infra("handshake generation %d port %d: end marker not received (%d messages received; last receive: %s; %d updates still queued)", u.gen, u.port, u.nrecv, u.lastErr, len(u.ch))
		}
		if body == `"`+done+`"` {
			break
		}
	}
	return u
}

func (u *v16Updater) stop() {
	close(u.abort)
	select {
	case <-u.done:
	case <-time.After(10 * time.Second):
		v16Infra("updater generation %d did not return after abort", u.gen)
	}
	u.sub.Close()
}

func v16StopUpdater() {
	if v16U != nil {
		v16U.stop()
		v16U = nil
	}
}

func v16GetUpdater(fresh bool) *v16Updater {
	if v16U != nil && (fresh || v16U.nseq >= v16SeqPerGen) {
		v16StopUpdater()
	}
	if v16U == nil {
		v16U = v16Start()
	}
	return v16U
}

type v16Sym struct {
	name  string
	topic string // suffix (prefixed per sequence) or the exact tag
	exact bool
	mk    func(pos int) interface{}
}

func v16PP(ws *WritingState) **WritingState { return &ws }

func v16Alphabet(thorough bool) []v16Sym {
	stA := ServerStatus{Running: true, SourceName: "Triangles", Nchannels: 4, Nsamples: 1024, Npresamp: 256, SamplePeriod: 10 * time.Microsecond, ChanGroups: []GroupIndex{{0, 4}}}
	stB := stA
	stB.Nsamples, stB.Npresamp = 512, 128
	trA := []FullTriggerState{{ChannelIndices: []int{0, 1}, TriggerState: TriggerState{AutoTrigger: true, AutoDelay: 250 * time.Millisecond}}}
	trB := []FullTriggerState{{ChannelIndices: []int{0, 1}, TriggerState: TriggerState{EdgeTrigger: true, EdgeRising: true, EdgeLevel: 100}}}
	a := []v16Sym{
		{"STATUS=a", "STATUS", false, func(int) interface{} { return stA }},
		{"STATUS=b", "STATUS", false, func(int) interface{} { return stB }},
		{"TRIGGER=a", "TRIGGER", false, func(int) interface{} { return trA }},
		{"TRIGGER=b", "TRIGGER", false, func(int) interface{} { return trB }},
		{"WRITING=a", "WRITING", false, func(int) interface{} { return v16PP(&WritingState{BasePath: "/data/a"}) }},
		{"WRITING=b", "WRITING", false, func(int) interface{} { return v16PP(&WritingState{BasePath: "/data/b", Active: true}) }},
		// a no-save topic under its real name (value differs at every position)
		{"ALIVE", "ALIVE", true, func(pos int) interface{} { return Heartbeat{Running: true, Time: float64(pos + 1), DataMB: 0.5} }},
		// the event announcement, published but deliberately never remembered
		{"NEWDASTARD", "NEWDASTARD", true, func(int) interface{} { return "new Dastard is running" }},
		// a no-publish topic
		{"CURRENTTIME", "CURRENTTIME", true, func(int) interface{} { return "Mon Jan  2 15:04:05 MST 2006" }},
		// a state that json.Marshal rejects (see v16UnencodableIsViolation)
		{"STATUS=unencodable", "STATUS", false, func(int) interface{} { return math.NaN() }},
	}
	if thorough {
		a = append(a, v16Sym{"TRIGGERRATE", "TRIGGERRATE", true, func(pos int) interface{} {
			return TriggerRateMessage{HiTime: vT0, Duration: time.Second, CountsSeen: []int{pos, 2}}
		}})
	}
	return a
}

type v16Msg struct{ topic, body string }

// v16RunSeq pushes one sequence through the updater and judges live traffic and replay.
// It returns (class, text) of the first problem, or "".
func v16RunSeq(x *vexp.X, u *v16Updater, alpha []v16Sym, seq []int, prefix string, obs map[string]int64) (class, text string, nontrivial bool, outcome string) {
	u.nseq++
	var expectLive []v16Msg
	unenc := map[string]bool{}
	touched := map[string]bool{}
	for pos, s := range seq {
		sym := alpha[s]
		tag := sym.topic
		if !sym.exact {
			tag = prefix + sym.topic
		}
		state := sym.mk(pos)
		touched[tag] = true
		u.send(ClientUpdate{tag, state})
		msg, err := json.Marshal(state)
		if err != nil {
			unenc[tag] = true
			continue
		}
		if _, nopub := nopublishMessages[tag]; !nopub {
			expectLive = append(expectLive, v16Msg{tag, string(msg)})
		}
	}
	pre, end := "pre-"+prefix, "end-"+prefix
	u.send(ClientUpdate{"NEWDASTARD", pre})
	u.send(ClientUpdate{"SENDALL", 0})
	u.send(ClientUpdate{"NEWDASTARD", end})
	var live, replay []v16Msg
	phase := 0
	for {
		topic, body, ok := u.recv(10 * time.Second)
		if !ok {
			v16Infra("sequence %s generation %d: end marker not received (live %d, replay %d messages so far; last receive: %s)", prefix, u.gen, len(live), len(replay), u.lastErr)
		}
		if topic == "NEWDASTARD" && body == `"`+pre+`"` {
			phase = 1
			continue
		}
		if topic == "NEWDASTARD" && body == `"`+end+`"` {
			if phase != 1 {
				v16Infra("sequence %s: end marker before the pre-SENDALL marker", prefix)
			}
			break
		}
		if phase == 0 {
			live = append(live, v16Msg{topic, body})
		} else {
			replay = append(replay, v16Msg{topic, body})
		}
	}
	x.Logf("live   : %v", live)
	x.Logf("replay : %d messages; own: %v", len(replay), v16Own(replay, prefix))

	// 1. live traffic: every publishable update, once, in order
	if !reflect.DeepEqual(live, expectLive) {
		return "c16a-live-publish-mismatch", fmt.Sprintf("live messages %v, expected %v", live, expectLive), true, ""
	}
	// 2. the reference: most recent message per topic (NEWDASTARD is an event, not a status)
	perTopic := map[string]map[string]bool{}
	for _, m := range live {
		if m.topic == "NEWDASTARD" {
			continue
		}
		u.model[m.topic] = m.body
		if perTopic[m.topic] == nil {
			perTopic[m.topic] = map[string]bool{}
		}
		perTopic[m.topic][m.body] = true
	}
	for _, bodies := range perTopic {
		if len(bodies) > 1 {
			nontrivial = true
		}
	}
	// 3. the replay: exactly one message per topic ever published, equal to the most recent one
	got := map[string][]string{}
	for _, m := range replay {
		got[m.topic] = append(got[m.topic], m.body)
	}
	topics := make([]string, 0, len(u.model))
	for t := range u.model {
		topics = append(topics, t)
	}
	sort.Strings(topics)
	for _, t := range topics {
		bodies := got[t]
		switch {
		case len(bodies) == 0:
			return "c16a-replay-missing-topic", fmt.Sprintf("topic %s was published (last message %s) but is not in the SENDALL replay", t, u.model[t]), true, ""
		case len(bodies) > 1:
			return "c16a-replay-duplicate-topic", fmt.Sprintf("topic %s appears %d times in the SENDALL replay: %v", t, len(bodies), bodies), true, ""
		case bodies[0] != u.model[t]:
			if bodies[0] == "" && unenc[t] && !v16UnencodableIsViolation {
				obs["obs_a_unencodable_update_blanks_replay"]++
				x.Logf("observation: after an update of %s whose state json.Marshal rejects, SENDALL replays the topic with an EMPTY body instead of the most recent published message %s", t, u.model[t])
				u.model[t] = "" // the updater now holds the blank; later sequences of this generation do not own this topic
				continue
			}
			return "c16a-replay-stale-message", fmt.Sprintf("topic %s: replay has %q, most recent published message is %q", t, bodies[0], u.model[t]), true, ""
		}
	}
	for t, bodies := range got {
		if _, ok := u.model[t]; !ok {
			return "c16a-replay-unpublished-topic", fmt.Sprintf("SENDALL replay contains topic %s (%v) which was never published as status", t, bodies), true, ""
		}
	}
	var own []string
	for _, o := range v16Own(replay, prefix) {
		if t := o[:strings.Index(o, "=")]; touched[prefix+t] || touched[t] {
			own = append(own, o)
		}
	}
	return "", "", nontrivial, fmt.Sprint(own)
}

// v16Own: the replayed messages that belong to this sequence (own prefix, or real-name topics), canonical.
func v16Own(replay []v16Msg, prefix string) []string {
	var out []string
	for _, m := range replay {
		if strings.HasPrefix(m.topic, prefix) {
			out = append(out, strings.TrimPrefix(m.topic, prefix)+"="+v16Short(m.body))
		} else if !v16PrefixRe.MatchString(m.topic) {
			out = append(out, m.topic+"="+v16Short(m.body))
		}
	}
	sort.Strings(out)
	return out
}

var v16PrefixRe = regexp.MustCompile(`^q[0-9a-z]*_`)

func v16Short(s string) string {
	h := fnv.New32a()
	h.Write([]byte(s))
	return fmt.Sprintf("%08x", h.Sum32())
}

func v16ExecSeq(x *vexp.X, r *vexp.Runner, alpha []v16Sym, seq []int) vexp.Result {
	var sb strings.Builder
	sb.WriteString("q")
	names := make([]string, len(seq))
	for i, s := range seq {
		sb.WriteByte("0123456789abcdefghijklmnopqrstuvwxyz"[s])
		names[i] = alpha[s].name
	}
	sb.WriteString("_")
	prefix := sb.String()
	desc := "updates [" + strings.Join(names, ", ") + "] then SENDALL"
	x.Steps = len(seq) + 1
	obs := map[string]int64{}
	u := v16GetUpdater(false)
	class, text, nontrivial, outcome := v16RunSeq(x, u, alpha, seq, prefix, obs)
	if class != "" {
		// confirm on a fresh updater that has seen nothing else (rules out a dropped ZMQ message)
		x.Logf("first attempt: %s: %s -- repeating on a fresh updater", class, text)
		u = v16GetUpdater(true)
		obs = map[string]int64{}
		class2, text2, _, _ := v16RunSeq(x, u, alpha, seq, prefix, obs)
		v16StopUpdater() // its model may be out of step after a failure
		if class2 == "" {
			r.Count("a_violation_not_confirmed_on_fresh_updater", 1)
			r.Note("part a: a discrepancy (" + class + ") was not confirmed when the sequence was repeated alone on a fresh updater; treated as message loss in the test transport")
			return vexp.Result{Nontrivial: nontrivial, Outcome: "unconfirmed", Desc: desc}
		}
		return vexp.Result{Violation: desc + ": " + text2, Class: class2, Nontrivial: true, Desc: desc}
	}
	for k, v := range obs {
		r.Count(k, v)
	}
	return vexp.Result{Nontrivial: nontrivial, Outcome: outcome, Desc: desc}
}

// =============================================================================================
// part (b): persistence round trip

// v16Flat lists every exported leaf of v as path -> canonical text. nil and empty slices are the same
// thing; unexported fields, mutexes and the paths in skip are left out.
func v16Flat(path string, v reflect.Value, out map[string]string, skip map[string]bool) {
	for v.Kind() == reflect.Ptr || v.Kind() == reflect.Interface {
		if v.IsNil() {
			out[path] = "nil"
			return
		}
		v = v.Elem()
	}
	switch v.Kind() {
	case reflect.Struct:
		t := v.Type()
		for i := 0; i < t.NumField(); i++ {
			f := t.Field(i)
			if f.PkgPath != "" || f.Type.String() == "sync.Mutex" || skip[f.Name] {
				continue
			}
			p := f.Name
			if path != "" {
				p = path + "." + f.Name
			}
			v16Flat(p, v.Field(i), out, skip)
		}
	case reflect.Slice, reflect.Array:
		out[path+".len"] = fmt.Sprint(v.Len())
		for i := 0; i < v.Len(); i++ {
			v16Flat(fmt.Sprintf("%s[%d]", path, i), v.Index(i), out, skip)
		}
	case reflect.Float64, reflect.Float32:
		out[path] = fmt.Sprintf("%b", v.Float()) // exact
	case reflect.Int64:
		out[path] = fmt.Sprint(v.Int()) // durations as nanoseconds
	default:
		out[path] = fmt.Sprintf("%#v", v.Interface())
	}
}

var v16IndexRe = regexp.MustCompile(`\[[0-9]+\]`)

// v16Diff compares what was saved with what start-up decoded. It returns the class suffix (first
// differing path without indices) and a text listing every differing path.
func v16Diff(saved, read interface{}, skip map[string]bool) (cls, text string) {
	a, b := map[string]string{}, map[string]string{}
	v16Flat("", reflect.ValueOf(saved), a, skip)
	v16Flat("", reflect.ValueOf(read), b, skip)
	keys := map[string]bool{}
	for k := range a {
		keys[k] = true
	}
	for k := range b {
		keys[k] = true
	}
	var ks []string
	for k := range keys {
		ks = append(ks, k)
	}
	sort.Strings(ks)
	var diffs []string
	for _, k := range ks {
		if a[k] != b[k] {
			if cls == "" {
				cls = v16IndexRe.ReplaceAllString(k, "[]")
			}
			diffs = append(diffs, fmt.Sprintf("%s: saved %s, read back %s", k, a[k], b[k]))
		}
	}
	return cls, strings.Join(diffs, "; ")
}

// the topics that the next start-up reads, with the tag they are published under
const (
	v16kStatus = iota
	v16kTrigger
	v16kWriting
	v16kSimPulse
	v16kTriangle
	v16kLancero
	v16kAbaco
	v16kRoach
	v16kMapFile
	v16nKinds
)

var v16Tags = [v16nKinds]string{"STATUS", "TRIGGER", "WRITING", "SIMPULSE", "TRIANGLE", "LANCERO", "ABACO", "ROACH", "TESMAPFILE"}

// v16Config is one value of every persistent structure (Go values, as the harness built them).
type v16Config struct {
	status   ServerStatus
	trigger  []FullTriggerState
	writing  *WritingState
	simpulse SimPulseSourceConfig
	triangle TriangleSourceConfig
	lancero  LanceroSourceConfig
	abaco    AbacoSourceConfig
	roach    RoachSourceConfig
	mapfile  string
}

func v16Baseline(n int) *v16Config {
	return &v16Config{
		status: ServerStatus{Running: n%2 == 0, SourceName: fmt.Sprintf("Lancero%d", n), Nchannels: 8 + n, Nsamples: 1000 + n, Npresamp: 250 + n,
			SamplePeriod: time.Duration(1280+n) * time.Nanosecond, ChanGroups: []GroupIndex{{1 + n, 8}}, ChannelsWithProjectors: []int{n}},
		trigger: []FullTriggerState{{ChannelIndices: []int{0, 1, 2}, TriggerState: TriggerState{AutoTrigger: true, AutoDelay: time.Duration(100+n) * time.Millisecond,
			LevelLevel: RawType(4000 + n), EdgeLevel: int32(100 + n), EdgeRising: true}}},
		writing:  &WritingState{BasePath: fmt.Sprintf("/data/base%d", n), FilenamePattern: "x_chan%d.ljh", WriteLJH22: true},
		simpulse: SimPulseSourceConfig{Nchan: 4 + n, SampleRate: 200000, Pedestal: 1000, Amplitudes: []float64{10000, 5000 + float64(n)}, Nsamp: 16000},
		triangle: TriangleSourceConfig{Nchan: 4 + n, SampleRate: 10000, Min: 100, Max: RawType(200 + n)},
		lancero: LanceroSourceConfig{FiberMask: 0xbeef, CardDelay: []int{1, 1 + n}, ActiveCards: []int{0, 1}, FirstRow: 1, ChanSepCards: 1000,
			DastardOutput: LanceroDastardOutputJSON{Nsamp: 4, ClockMHz: 125, AvailableCards: []int{0, 1}, Lsync: 40 + n}},
		abaco: AbacoSourceConfig{ActiveCards: []int{1}, AvailableCards: []int{1, 2}, HostPortUDP: []string{fmt.Sprintf("localhost:%d", 4000+n)},
			AbacoUnwrapOptions: AbacoUnwrapOptions{RescaleRaw: true, Unwrap: true, ResetAfter: 20000 + n, PulseSign: 1}},
		roach:   RoachSourceConfig{HostPort: []string{fmt.Sprintf("roach:%d", 60000+n)}, Rates: []float64{40000}, AbacoUnwrapOptions: AbacoUnwrapOptions{RescaleRaw: true, PulseSign: -1}},
		mapfile: fmt.Sprintf("/maps/map%d.txt", n),
	}
}

// publish puts the values into an updater's lastMessages map exactly as the broadcasting code hands
// them to RunClientUpdater: STATUS by value, TRIGGER as a slice, WRITING as a pointer to a
// *WritingState (broadcastWritingState: `&state` with state a *WritingState), the source
// configurations as pointers to the RPC argument, TESMAPFILE as a string.
func (c *v16Config) publish(m map[string]interface{}, kinds ...int) {
	for _, k := range kinds {
		switch k {
		case v16kStatus:
			m["STATUS"] = c.status
		case v16kTrigger:
			m["TRIGGER"] = c.trigger
		case v16kWriting:
			ws := c.writing
			m["WRITING"] = &ws
		case v16kSimPulse:
			m["SIMPULSE"] = &c.simpulse
		case v16kTriangle:
			m["TRIANGLE"] = &c.triangle
		case v16kLancero:
			m["LANCERO"] = &c.lancero
		case v16kAbaco:
			m["ABACO"] = &c.abaco
		case v16kRoach:
			m["ROACH"] = &c.roach
		case v16kMapFile:
			m["TESMAPFILE"] = c.mapfile
		}
	}
}

var v16AllKinds = []int{v16kStatus, v16kTrigger, v16kWriting, v16kSimPulse, v16kTriangle, v16kLancero, v16kAbaco, v16kRoach, v16kMapFile}

// v16NoSave puts the topics that must never reach the file into the map (the updater remembers them
// for SENDALL like any other topic), plus persistent topics that no start-up code reads.
func v16NoSave(m map[string]interface{}, n int) {
	m["ALIVE"] = Heartbeat{Running: true, Time: float64(n)}
	m["TRIGGERRATE"] = TriggerRateMessage{HiTime: vT0, Duration: time.Second, CountsSeen: []int{n, 2}}
	m["CHANNELNAMES"] = []string{"chan0", "chan1"}
	m["NUMBERWRITTEN"] = struct{ NumberWritten []int }{[]int{n}}
	m["TESMAP"] = "no map loaded"
	m["EXTERNALTRIGGER"] = struct{ NumberObservedInLastSecond int }{n}
	m["GROUPTRIGGER"] = GroupTriggerState{Connections: map[int][]int{1: {2, 3 + n}, 0: {1}}}
	m["MIX"] = []float64{0.5, float64(n)}
	m["STATELABEL"] = fmt.Sprintf("label %d", n)
}

var v16NoSaveKeys = []string{"alive", "triggerrate", "channelnames", "numberwritten", "tesmap", "externaltrigger", "newdastard"}
var v16OtherPersistentKeys = []string{"grouptrigger", "mix", "statelabel", "currenttime"}

type v16Store struct{ dir, file string }

// viper fsyncs every file it writes; on the build disk that dominates the run time with 16 workers.
// The property is about process kills, not power loss, so the files may live on tmpfs.
var v16TmpBaseCache *string

func v16TmpBase() string {
	if v16TmpBaseCache == nil {
		b := v16TmpBaseProbe()
		v16TmpBaseCache = &b
	}
	return *v16TmpBaseCache
}

func v16TmpBaseProbe() string {
	if fi, err := os.Stat("/dev/shm"); err == nil && fi.IsDir() {
		if d, err := os.MkdirTemp("/dev/shm", "c16probe"); err == nil {
			os.Remove(d)
			return "/dev/shm"
		}
	}
	return ""
}

func v16NewStore() *v16Store {
	dir, err := os.MkdirTemp(v16TmpBase(), "c16b")
	if err != nil {
		v16Infra("MkdirTemp: %v", err)
	}
	s := &v16Store{dir: dir, file: filepath.Join(dir, "config.yaml")}
	// start-up (makeFileExist) creates an empty file before viper reads it
	if err := os.WriteFile(s.file, nil, 0664); err != nil {
		v16Infra("create config: %v", err)
	}
	return s
}

func (s *v16Store) close() { os.RemoveAll(s.dir) }

// boot is a process start: a fresh viper reads the file.
func (s *v16Store) boot() error {
	viper.Reset()
	viper.SetConfigFile(s.file)
	return viper.ReadInConfig()
}

// v16StartupDecode makes the viper.UnmarshalKey calls of RunRPCServer (same keys, same pre-set
// defaults in the targets) and of PrepareRun ("trigger").
func v16StartupDecode(kinds []int) (c *v16Config, errs []string) {
	c = &v16Config{writing: &WritingState{}}
	chk := func(key string, err error) {
		if err != nil {
			errs = append(errs, key+": "+err.Error())
		}
	}
	want := map[int]bool{}
	for _, k := range kinds {
		want[k] = true
	}
	if want[v16kSimPulse] {
		c.simpulse.SampleRate = 1000.0
		chk("simpulse", viper.UnmarshalKey("simpulse", &c.simpulse))
	}
	if want[v16kTriangle] {
		c.triangle.SampleRate = 1000.0
		chk("triangle", viper.UnmarshalKey("triangle", &c.triangle))
	}
	if want[v16kLancero] {
		chk("lancero", viper.UnmarshalKey("lancero", &c.lancero))
	}
	if want[v16kAbaco] {
		c.abaco.AbacoUnwrapOptions.Unwrap = true
		c.abaco.AbacoUnwrapOptions.ResetAfter = 20000
		chk("abaco", viper.UnmarshalKey("abaco", &c.abaco))
	}
	if want[v16kRoach] {
		chk("roach", viper.UnmarshalKey("roach", &c.roach))
	}
	if want[v16kStatus] {
		c.status.ChanGroups = make([]GroupIndex, 0) // NewSourceControl
		chk("status", viper.UnmarshalKey("status", &c.status))
	}
	if want[v16kWriting] {
		chk("writing", viper.UnmarshalKey("writing", c.writing))
	}
	if want[v16kMapFile] {
		chk("tesmapfile", viper.UnmarshalKey("tesmapfile", &c.mapfile))
	}
	if want[v16kTrigger] {
		var fts []FullTriggerState
		chk("trigger", viper.UnmarshalKey("trigger", &fts))
		c.trigger = fts
	}
	return
}

// v16RealStartup runs the real RunRPCServer (non-blocking form, port 0) against the viper that has just read the
// file and returns what it configured, as it announces it to clients: the SIMPULSE / TRIANGLE / LANCERO / ABACO /
// ROACH / STATUS / WRITING updates it sends while starting. The listener and the heartbeat goroutine it
// leaves behind cannot be stopped from outside (they are leaked, a few hundred per worker).
func v16RealStartup() (c *v16Config, seen map[int]bool, panicMsg string) {
	c = &v16Config{writing: &WritingState{}}
	seen = map[int]bool{}
	orig := clientMessageChan
	ch := make(chan ClientUpdate, 256)
	clientMessageChan = ch
	// RunRPCServer registers its RPC handler on the default HTTP mux (from the goroutine it starts), which can
	// be done once per mux: every call gets a fresh one, and the call is over when the registration is there.
	mux := http.NewServeMux()
	http.DefaultServeMux = mux
	defer func() {
		if panicMsg != "" {
			return
		}
		req, _ := http.NewRequest("CONNECT", rpc.DefaultRPCPath, nil)
		for i := 0; ; i++ {
			if _, pat := mux.Handler(req); pat != "" {
				return
			}
			if i > 1000000 {
				v16Infra("RunRPCServer's listener goroutine never registered its handler")
			}
			runtime.Gosched()
			if i%1000 == 999 {
				time.Sleep(time.Millisecond)
			}
		}
	}()
	func() {
		defer func() {
			clientMessageChan = orig
			if e := recover(); e != nil {
				panicMsg = fmt.Sprint(e)
			}
		}()
		RunRPCServer(0, false)
	}()
	for {
		select {
		case u := <-ch:
			switch st := u.state.(type) {
			case *SimPulseSourceConfig:
				c.simpulse, seen[v16kSimPulse] = *st, true
			case *TriangleSourceConfig:
				c.triangle, seen[v16kTriangle] = *st, true
			case *LanceroSourceConfig:
				c.lancero, seen[v16kLancero] = *st, true
			case *AbacoSourceConfig:
				c.abaco, seen[v16kAbaco] = *st, true
			case *RoachSourceConfig:
				c.roach, seen[v16kRoach] = *st, true
			case ServerStatus:
				c.status, seen[v16kStatus] = st, true
			case *WritingState:
				if u.tag == "WRITING" {
					c.writing, seen[v16kWriting] = st, true
				}
			}
		default:
			return
		}
	}
}

// v16Announceable: a source configuration reaches the file only through the SIMPULSE / TRIANGLE update that
// the Configure...Source RPC sends after the source's Configure has returned. A value on which Configure panics
// takes the RPC goroutine down before that, so it can never have been saved: outside "all values of the
// persisted structures".
func v16Announceable(c *v16Config) (ok bool) {
	defer func() {
		if recover() != nil {
			ok = false
		}
	}()
	sp, tr := c.simpulse, c.triangle
	NewSimPulseSource().Configure(&sp)
	NewTriangleSource().Configure(&tr)
	return true
}

func v16IntSet(v []int) string {
	m := map[int]bool{}
	for _, x := range v {
		m[x] = true
	}
	var k []int
	for x := range m {
		k = append(k, x)
	}
	sort.Ints(k)
	return fmt.Sprint(k)
}

func v16StrSet(v []string) string {
	m := map[string]bool{}
	for _, x := range v {
		m[x] = true
	}
	var k []string
	for x := range m {
		k = append(k, x)
	}
	sort.Strings(k)
	return fmt.Sprint(k)
}

// v16CompareReal judges what the real start-up configured against what was saved: the part of each structure
// that is the user's choice (lists that Configure de-duplicates and sorts are compared as sets; what Configure
// computes from the machine -- available cards, the Lancero firmware table -- is left out), with the
// normalisations start-up documents (Nchan 0 -> 1; Npresamp <= 0 -> 400; Nsamples <= Npresamp -> 2 Npresamp).
func v16CompareReal(saved, got *v16Config, seen map[int]bool, kinds []int, panicMsg string) (cls, text string) {
	if panicMsg != "" {
		return "c16b-startup-panics", "the next start-up (RunRPCServer) panics on the saved configuration: " + panicMsg
	}
	for _, k := range kinds {
		if k == v16kTrigger || k == v16kMapFile {
			continue
		}
		if !seen[k] {
			return "c16b-startup-skips-" + strings.ToLower(v16Tags[k]), "start-up did not configure/announce " + v16Tags[k] + " although the file holds it"
		}
		var a, b interface{}
		switch k {
		case v16kSimPulse:
			w := saved.simpulse
			if w.Nchan == 0 {
				w.Nchan = 1
			}
			a, b = w, got.simpulse
		case v16kTriangle:
			w := saved.triangle
			if w.Nchan == 0 {
				w.Nchan = 1
			}
			a, b = w, got.triangle
		case v16kLancero:
			type proj struct {
				FiberMask                              uint32
				CardDelay                              []int
				ActiveCards                            string
				ShouldAutoRestart                      bool
				FirstRow, ChanSepCards, ChanSepColumns int
			}
			mk := func(l LanceroSourceConfig) proj {
				return proj{l.FiberMask, l.CardDelay, fmt.Sprint(l.ActiveCards), l.ShouldAutoRestart, l.FirstRow, l.ChanSepCards, l.ChanSepColumns}
			}
			a, b = mk(saved.lancero), mk(got.lancero)
		case v16kAbaco:
			type proj struct {
				Active, Hosts string
				U             AbacoUnwrapOptions
			}
			mk := func(c AbacoSourceConfig) proj {
				return proj{v16IntSet(c.ActiveCards), v16StrSet(c.HostPortUDP), c.AbacoUnwrapOptions}
			}
			a, b = mk(saved.abaco), mk(got.abaco)
		case v16kRoach:
			a, b = saved.roach, got.roach
		case v16kStatus:
			type proj struct{ Npresamp, Nsamples int }
			w := proj{saved.status.Npresamp, saved.status.Nsamples}
			if w.Npresamp <= 0 {
				w.Npresamp = 400
			}
			if w.Nsamples <= w.Npresamp {
				w.Nsamples = 2 * w.Npresamp
			}
			a, b = w, proj{got.status.Npresamp, got.status.Nsamples}
		case v16kWriting:
			a, b = struct{ BasePath string }{saved.writing.BasePath}, struct{ BasePath string }{got.writing.BasePath}
		}
		if c, t := v16Diff(a, b, nil); c != "" || t != "" {
			return "c16b-realstartup-" + strings.ToLower(v16Tags[k]) + ":" + c, "run 2 (real RunRPCServer): " + v16Tags[k] + " as configured at start-up differs from what was saved: " + t
		}
	}
	return "", ""
}

// what PrepareRun deliberately does not restore
var v16TriggerSkip = map[string]bool{"EdgeMulti": true, "EMTState": true}

// v16Compare judges every structure start-up reads. focus names the kind the execution enumerates
// (its class is reported first).
func v16Compare(saved, read *v16Config, kinds []int, stage string) (cls, text string) {
	type pair struct {
		kind int
		name string
		a, b interface{}
		skip map[string]bool
	}
	pairs := []pair{
		{v16kStatus, "status", saved.status, read.status, nil},
		{v16kTrigger, "trigger", saved.trigger, read.trigger, v16TriggerSkip},
		// RunRPCServer uses the output base path only
		{v16kWriting, "writing", struct{ BasePath string }{saved.writing.BasePath}, struct{ BasePath string }{read.writing.BasePath}, nil},
		{v16kSimPulse, "simpulse", saved.simpulse, read.simpulse, nil},
		{v16kTriangle, "triangle", saved.triangle, read.triangle, nil},
		{v16kLancero, "lancero", saved.lancero, read.lancero, nil},
		{v16kAbaco, "abaco", saved.abaco, read.abaco, nil},
		{v16kRoach, "roach", saved.roach, read.roach, nil},
		{v16kMapFile, "tesmapfile", saved.mapfile, read.mapfile, nil},
	}
	want := map[int]bool{}
	for _, k := range kinds {
		want[k] = true
	}
	for _, p := range pairs {
		if !want[p.kind] {
			continue
		}
		if c, t := v16Diff(p.a, p.b, p.skip); c != "" || t != "" {
			return "c16b-roundtrip-" + p.name + ":" + c, stage + ": " + p.name + " differs after the round trip: " + t
		}
	}
	return "", ""
}

// v16PrepareRunCheck runs the real PrepareRun on a 4-channel source against the viper that has just
// read the file and compares every channel's trigger state with the saved list.
func v16PrepareRunCheck(saved []FullTriggerState, stage string) (cls, text string) {
	const nchan = 4
	src := vNewSource(nchan, 100, 400)
	defer src.close()
	def := TriggerState{AutoDelay: 250 * time.Millisecond, EdgeLevel: 100, EdgeRising: true, LevelLevel: 4000}
	for ch := 0; ch < nchan; ch++ {
		want := def
		for _, f := range saved { // a later entry naming the channel wins
			for _, ci := range f.ChannelIndices {
				if ci == ch {
					want = f.TriggerState
					want.EdgeMulti = false // deliberately not restored (issue #271)
				}
			}
		}
		got := src.ds.processors[ch].TriggerState
		if c, t := v16Diff(want, got, map[string]bool{"EMTState": true}); t != "" {
			return "c16b-preparerun-trigger:" + c, fmt.Sprintf("%s: channel %d trigger state after the real PrepareRun differs from the saved one: %s", stage, ch, t)
		}
	}
	return "", ""
}

// v16RoundTrip is one execution of part (b): run 1 saves v1 (every topic), run 2 starts from the file,
// re-publishes only the topics in `kinds` with the values of v2 and saves, run 3 starts from the file.
// lean: only the topics in `kinds` (and one no-save topic) exist at all — used for the large trigger
// family, whose cost is otherwise dominated by encoding and decoding the unrelated topics.
func v16RoundTrip(x *vexp.X, v1, v2 *v16Config, kinds []int, withPrepareRun bool, lean bool, realStartup ...bool) vexp.Result {
	all := v16AllKinds
	if lean {
		all = kinds
	}
	s := v16NewStore()
	defer s.close()
	defer viper.Reset()
	fail := func(cls, text string) vexp.Result {
		b, _ := os.ReadFile(s.file)
		x.Logf("config file:\n%s", b)
		return vexp.Result{Violation: text, Class: cls, Nontrivial: true}
	}
	tmp, bak := filepath.Join(s.dir, "config.tmp.yaml"), s.file+".bak"

	// ---- run 1
	if err := s.boot(); err != nil {
		v16Infra("boot on empty file: %v", err)
	}
	last := map[string]interface{}{}
	v1.publish(last, all...)
	if lean {
		last["ALIVE"] = Heartbeat{Running: true, Time: 1}
	} else {
		v16NoSave(last, 1)
	}
	saveState(last)
	x.Steps++
	main1, err := os.ReadFile(s.file)
	if err != nil || len(main1) == 0 {
		return fail("c16b-save-wrote-nothing", fmt.Sprintf("after saveState the configuration file is missing or empty (err=%v)", err))
	}
	if _, err := os.Stat(tmp); err == nil {
		return fail("c16b-tmp-left-behind", "after a complete saveState the temporary file still exists")
	}
	if withPrepareRun {
		// the same process restarts its source: PrepareRun reads "trigger" from the viper saveState has just filled
		if c, t := v16PrepareRunCheck(v1.trigger, "same run, after save"); t != "" {
			return fail(c+"(in-process)", t)
		}
	}

	// ---- run 2: start-up reads v1
	if err := s.boot(); err != nil {
		return fail("c16b-startup-cannot-read-config", "the next start-up cannot read the saved file: "+err.Error())
	}
	read, errs := v16StartupDecode(all)
	if len(errs) > 0 {
		return fail("c16b-startup-decode-error", "UnmarshalKey failed on the saved file: "+strings.Join(errs, "; "))
	}
	if c, t := v16Compare(v1, read, all, "run 2"); t != "" {
		return fail(c, t)
	}
	if len(realStartup) > 0 && realStartup[0] && v16Announceable(v1) {
		got, seen, pm := v16RealStartup()
		x.Steps++
		if c, t := v16CompareReal(v1, got, seen, all, pm); t != "" {
			return fail(c, t)
		}
	}
	for _, k := range v16NoSaveKeys {
		if viper.IsSet(k) {
			return fail("c16b-nosave-topic-in-file", "no-save topic "+k+" is in the configuration file")
		}
	}
	for _, k := range v16OtherPersistentKeys {
		if !viper.IsSet(k) && !(lean && k != "currenttime") {
			return fail("c16b-persistent-topic-missing", "persistent topic "+k+" is not in the configuration file")
		}
	}
	if withPrepareRun {
		if c, t := v16PrepareRunCheck(v1.trigger, "run 2"); t != "" {
			return fail(c, t)
		}
	}
	// run 2 publishes new values for some topics (its updater's map starts empty) and saves
	last = map[string]interface{}{}
	v2.publish(last, kinds...)
	if lean {
		last["ALIVE"] = Heartbeat{Running: true, Time: 2}
	} else {
		v16NoSave(last, 2)
	}
	saveState(last)
	x.Steps++
	if b, err := os.ReadFile(bak); err != nil || string(b) != string(main1) {
		return fail("c16b-backup-not-previous-version", fmt.Sprintf("after the second save the .bak file is not the previous configuration file (err=%v)", err))
	}

	// ---- run 3: the changed topics have the new values, the others still the old ones
	want := *v1
	for _, k := range kinds {
		switch k {
		case v16kStatus:
			want.status = v2.status
		case v16kTrigger:
			want.trigger = v2.trigger
		case v16kWriting:
			want.writing = v2.writing
		case v16kSimPulse:
			want.simpulse = v2.simpulse
		case v16kTriangle:
			want.triangle = v2.triangle
		case v16kLancero:
			want.lancero = v2.lancero
		case v16kAbaco:
			want.abaco = v2.abaco
		case v16kRoach:
			want.roach = v2.roach
		case v16kMapFile:
			want.mapfile = v2.mapfile
		}
	}
	if err := s.boot(); err != nil {
		return fail("c16b-startup-cannot-read-config", "start-up after the second save cannot read the file: "+err.Error())
	}
	read, errs = v16StartupDecode(all)
	if len(errs) > 0 {
		return fail("c16b-startup-decode-error", "UnmarshalKey failed after the second save: "+strings.Join(errs, "; "))
	}
	if c, t := v16Compare(&want, read, all, "run 3 (after a second save with changed values)"); t != "" {
		return fail(c+"(second-save)", t)
	}
	for _, k := range v16NoSaveKeys {
		if viper.IsSet(k) {
			return fail("c16b-nosave-topic-in-file", "no-save topic "+k+" is in the configuration file after the second save")
		}
	}
	if withPrepareRun {
		if c, t := v16PrepareRunCheck(want.trigger, "run 3"); t != "" {
			return fail(c+"(second-save)", t)
		}
	}
	b3, _ := os.ReadFile(s.file)
	return vexp.Result{Outcome: v16Short(string(main1)) + v16Short(string(b3))}
}

// ---- value tables

var v16Durations = []time.Duration{0, 500 * time.Microsecond, 1234567 * time.Nanosecond, 250 * time.Millisecond, 2500 * time.Millisecond, time.Hour + time.Minute + time.Nanosecond}

type v16Levels struct {
	veto, level RawType
	edge, emt   int32
	nmono       int
}

var v16LevelSets = []v16Levels{
	{0, 0, 0, 0, 0},
	{math.MaxUint16, math.MaxUint16, math.MaxInt32, math.MaxInt32, 1 << 40},
	{1, 4000, -100, -1, -1},
	{100, 1, math.MinInt32, 7, 3},
}

var v16ChanLists = [][]int{{0}, {0, 1, 2, 3}, {3, 1}, {}, {2, 9}}

var v16BasePaths = []string{"", "/data", "/data/with spaces/in it", "/données/µcal/日本", "relative/path", " leading", "trailing ", "true", "123", "null", "~",
	"a: b #c", "line1\nline2", "C:\\data\\x", "'quoted'", "\"dq\"", "{x}", "- item", "1e3", "0x10", "/tmp/%s/%d"}

func v16TrigState(bits int, nbits int, compatAll int, d time.Duration, lv v16Levels) TriggerState {
	b := func(i int) bool { return bits>>uint(i)&1 == 1 }
	ts := TriggerState{AutoTrigger: b(0), LevelTrigger: b(1), LevelRising: b(2), EdgeTrigger: b(3), EdgeRising: b(4), EdgeFalling: b(5), EdgeMulti: b(6),
		AutoDelay: d, AutoVetoRange: lv.veto, LevelLevel: lv.level, EdgeLevel: lv.edge}
	c := &ts.EMTBackwardCompatibleRPCFields
	if nbits > 7 {
		c.EdgeMultiNoise, c.EdgeMultiMakeShortRecords, c.EdgeMultiMakeContaminatedRecords, c.EdgeMultiDisableZeroThreshold = b(7), b(8), b(9), b(10)
	} else {
		v := compatAll == 1
		c.EdgeMultiNoise, c.EdgeMultiMakeShortRecords, c.EdgeMultiMakeContaminatedRecords, c.EdgeMultiDisableZeroThreshold = v, v, v, v
	}
	c.EdgeMultiLevel, c.EdgeMultiVerifyNMonotone = lv.emt, lv.nmono
	return ts
}

func v16Nontrivial(v interface{}) bool {
	return !reflect.DeepEqual(v, reflect.Zero(reflect.TypeOf(v)).Interface())
}

func TestVerifC16(t *testing.T) {
	r := vexp.NewRunner("C16")
	defer r.Finish()
	thorough := r.Thorough()

	alpha := v16Alphabet(thorough)
	maxLen := 4
	if thorough {
		maxLen = 5
	}
	names := make([]string, len(alpha))
	for i, s := range alpha {
		names[i] = s.name
	}
	trigBits := 7
	if thorough {
		trigBits = 11
	}
	r.SetBound(fmt.Sprintf("part a: all update sequences of length 0..%d over {%s} through the real RunClientUpdater, then SENDALL, observed by a ZMQ SUB client; "+
		"part b: real saveState -> fresh viper -> start-up UnmarshalKey calls (and the real PrepareRun for trigger states) for ServerStatus (7 length pairs x 5 periods x 4 group lists x 2 x 2 x 3 x 2), "+
		"trigger lists (2^%d flag combinations x %d delays x %d level sets x %d channel lists x 3 list shapes), %d base paths x 2, and tables of SimPulse/Triangle/Lancero/Abaco/Roach configurations and map file names; "+
		"every execution saves twice (second save with changed values) and restarts after each; "+
		"part c (package main of cmd/dastard): kill at every crash point of saveState x 4 directory pre-states x 2 boot paths x 1..%d saves, recovery by the real setupViper",
		maxLen, strings.Join(names, ", "), trigBits, len(v16Durations), len(v16LevelSets), len(v16ChanLists), len(v16BasePaths), maxLen-2))

	// ------------------------------------------------------------------ part (a)
	// cases: sequences of length < 3 in one case per length; longer ones by their first two symbols
	na := len(alpha)
	for L := 0; L <= maxLen; L++ {
		L := L
		if L < 3 {
			r.DFS(fmt.Sprintf("a/len=%d", L), -1, func(x *vexp.X) vexp.Result {
				seq := make([]int, L)
				for i := range seq {
					seq[i] = x.Choose(na)
				}
				return v16ExecSeq(x, r, alpha, seq)
			})
			continue
		}
		for s0 := 0; s0 < na; s0++ {
			for s1 := 0; s1 < na; s1++ {
				s0, s1 := s0, s1
				r.DFS(fmt.Sprintf("a/len=%d/%s,%s", L, alpha[s0].name, alpha[s1].name), -1, func(x *vexp.X) vexp.Result {
					seq := make([]int, L)
					seq[0], seq[1] = s0, s1
					for i := 2; i < L; i++ {
						seq[i] = x.Choose(na)
					}
					return v16ExecSeq(x, r, alpha, seq)
				})
			}
		}
	}
	// the updater's own timers call saveState -> viper.Set from its goroutine: it must be gone before
	// part (b) uses the global viper
	v16StopUpdater()

	// ------------------------------------------------------------------ part (b)
	base1, base2 := v16Baseline(1), v16Baseline(2)

	// ServerStatus
	lenPairs := [][2]int{{1024, 256}, {2, 1}, {0, 0}, {-5, -1}, {100, 100}, {100, 200}, {1 << 20, 1 << 19}}
	periods := []time.Duration{0, 10 * time.Microsecond, 1280 * time.Nanosecond, 1500 * time.Microsecond, 3 * time.Second}
	groups := [][]GroupIndex{nil, {}, {{0, 4}}, {{1, 8}, {9, 8}}}
	projs := [][]int{nil, {0, 3}}
	srcNames := []string{"", "Lancero", "Sim Pulses ü: #1"}
	for lpp := 0; lpp < len(lenPairs)*len(periods); lpp++ {
		lp, p := lpp/len(periods), lpp%len(periods)
		r.DFS(fmt.Sprintf("b/status/nsamples=%d,npresamp=%d/period=%v", lenPairs[lp][0], lenPairs[lp][1], periods[p]), -1, func(x *vexp.X) vexp.Result {
			mk := func(lp, p, g, pj, run, sn, nc int) ServerStatus {
				return ServerStatus{Running: run == 1, SourceName: srcNames[sn], Nchannels: 8 * nc, Nsamples: lenPairs[lp][0], Npresamp: lenPairs[lp][1],
					SamplePeriod: periods[p], ChanGroups: groups[g], ChannelsWithProjectors: projs[pj]}
			}
			g, pj, run, sn, nc := x.Choose(len(groups)), x.Choose(len(projs)), x.Choose(2), x.Choose(len(srcNames)), x.Choose(2)
			v1, v2 := *base1, *base2
			v1.status = mk(lp, p, g, pj, run, sn, nc)
			v2.status = mk((lp+1)%len(lenPairs), (p+1)%len(periods), (g+1)%len(groups), 1-pj, 1-run, (sn+1)%len(srcNames), 1-nc)
			res := v16RoundTrip(x, &v1, &v2, []int{v16kStatus, v16kWriting}, false, false, g+pj+run+sn+nc == 0)
			res.Nontrivial = res.Nontrivial || v16Nontrivial(v1.status)
			res.Desc = fmt.Sprintf("STATUS %+v", v1.status)
			return res
		})
	}

	// trigger states
	for di := range v16Durations {
		for li := range v16LevelSets {
			for ci := range v16ChanLists {
				di, li, ci := di, li, ci
				r.DFS(fmt.Sprintf("b/trigger/delay=%v/levels=%d/chans=%v", v16Durations[di], li, v16ChanLists[ci]), -1, func(x *vexp.X) vexp.Result {
					bits := 0
					for i := 0; i < trigBits; i++ {
						bits |= x.Choose(2) << uint(i)
					}
					compat := 0
					if trigBits == 7 {
						compat = x.Choose(2)
					}
					shape := x.Choose(3)
					ts := v16TrigState(bits, trigBits, compat, v16Durations[di], v16LevelSets[li])
					focus := FullTriggerState{ChannelIndices: v16ChanLists[ci], TriggerState: ts}
					other := FullTriggerState{ChannelIndices: []int{1}, TriggerState: TriggerState{LevelTrigger: true, LevelLevel: 1234, AutoDelay: 7 * time.Millisecond}}
					var list []FullTriggerState
					switch shape {
					case 0:
						list = []FullTriggerState{focus}
					case 1:
						list = []FullTriggerState{focus, other}
					case 2:
						list = []FullTriggerState{other, focus}
					}
					ts2 := v16TrigState(^bits&(1<<uint(trigBits)-1), trigBits, 1-compat, v16Durations[(di+1)%len(v16Durations)], v16LevelSets[(li+1)%len(v16LevelSets)])
					v1, v2 := *base1, *base2
					v1.trigger = list
					v2.trigger = []FullTriggerState{{ChannelIndices: v16ChanLists[(ci+1)%len(v16ChanLists)], TriggerState: ts2}}
					res := v16RoundTrip(x, &v1, &v2, []int{v16kTrigger}, true, true)
					res.Nontrivial = res.Nontrivial || (len(focus.ChannelIndices) > 0 && v16Nontrivial(ts))
					res.Desc = fmt.Sprintf("TRIGGER %+v", list)
					return res
				})
			}
		}
	}

	// output base path
	r.DFS("b/writing", -1, func(x *vexp.X) vexp.Result {
		i, act := x.Choose(len(v16BasePaths)), x.Choose(2)
		v1, v2 := *base1, *base2
		v1.writing = &WritingState{BasePath: v16BasePaths[i], Active: act == 1, Paused: act == 1, FilenamePattern: "p_%s.%s", WriteOFF: act == 1,
			ExperimentStateFilename: "/x/experiment_state.txt", ExperimentStateLabel: "START", ExperimentStateLabelUnixNano: 1614834367500000000}
		v2.writing = &WritingState{BasePath: v16BasePaths[(i+1)%len(v16BasePaths)], Active: act == 0}
		res := v16RoundTrip(x, &v1, &v2, []int{v16kWriting, v16kMapFile}, false, false, true)
		res.Nontrivial = res.Nontrivial || v16BasePaths[i] != ""
		res.Desc = fmt.Sprintf("WRITING BasePath=%q", v16BasePaths[i])
		return res
	})

	// source configurations
	sims := []SimPulseSourceConfig{
		{Nchan: 4, SampleRate: 200000, Pedestal: 1000, Amplitudes: []float64{10000, 5000.5}, Nsamp: 16000},
		{Nchan: 1, SampleRate: 1e-3, Pedestal: -3.25, Amplitudes: []float64{}, Nsamp: 0},
		{},
		{Nchan: -1, SampleRate: 1e300, Pedestal: 65535.99999, Amplitudes: []float64{0, -1, 1e-9}, Nsamp: 1 << 40},
		{Nchan: 3, SampleRate: 0.1 + 0.2, Pedestal: math.SmallestNonzeroFloat64, Amplitudes: []float64{math.MaxFloat64, 1.0 / 3.0}, Nsamp: -7},
	}
	tris := []TriangleSourceConfig{{4, 10000, 100, 200}, {1, 1000, 0, 65535}, {}, {-2, 12345.678, 65535, 0}}
	lans := []LanceroSourceConfig{
		{FiberMask: 0xbeef, CardDelay: []int{1, 1}, ActiveCards: []int{0, 2}, ShouldAutoRestart: true, FirstRow: 1, ChanSepCards: 1000, ChanSepColumns: 100,
			DastardOutput: LanceroDastardOutputJSON{Nsamp: 4, ClockMHz: 125, AvailableCards: []int{0, 1, 2}, Lsync: 40, Settle: 10, SequenceLength: 32, PropagationDelay: 1, BAD16CardDelay: 2}},
		{},
		{FiberMask: 0xffffffff, CardDelay: []int{}, ActiveCards: []int{}, FirstRow: -1, ChanSepCards: -1, ChanSepColumns: 0, DastardOutput: LanceroDastardOutputJSON{AvailableCards: []int{}, Nsamp: -1}},
		{FiberMask: 1, CardDelay: []int{0}, ActiveCards: []int{3}, FirstRow: 0, DastardOutput: LanceroDastardOutputJSON{ClockMHz: 1 << 31, Lsync: 1 << 40}},
	}
	intLists := [][]int{nil, {}, {1, 3}}
	strLists := [][]string{nil, {}, {"localhost:4000", "10.0.0.1:5000", "[::1]:6000"}}
	resets := []int{0, 20000, -1}
	signs := []int{1, -1, 0}
	mkUnwrap := func(bits, ra, ps, inv int) AbacoUnwrapOptions {
		return AbacoUnwrapOptions{RescaleRaw: bits&1 == 1, Unwrap: bits&2 == 2, Bias: bits&4 == 4, ResetAfter: resets[ra], PulseSign: signs[ps], InvertChan: intLists[inv]}
	}
	maps := []string{"no map file", "", "/path/with space/map.txt", "/maps/µ.txt", "true", "0"}

	r.DFS("b/simpulse", -1, func(x *vexp.X) vexp.Result {
		i := x.Choose(len(sims))
		v1, v2 := *base1, *base2
		v1.simpulse, v2.simpulse = sims[i], sims[(i+1)%len(sims)]
		res := v16RoundTrip(x, &v1, &v2, []int{v16kSimPulse}, false, false, true)
		res.Nontrivial = res.Nontrivial || v16Nontrivial(sims[i])
		res.Desc = fmt.Sprintf("SIMPULSE %+v", sims[i])
		return res
	})
	r.DFS("b/triangle", -1, func(x *vexp.X) vexp.Result {
		i := x.Choose(len(tris))
		v1, v2 := *base1, *base2
		v1.triangle, v2.triangle = tris[i], tris[(i+1)%len(tris)]
		res := v16RoundTrip(x, &v1, &v2, []int{v16kTriangle}, false, false, true)
		res.Nontrivial = res.Nontrivial || v16Nontrivial(tris[i])
		res.Desc = fmt.Sprintf("TRIANGLE %+v", tris[i])
		return res
	})
	r.DFS("b/lancero", -1, func(x *vexp.X) vexp.Result {
		i := x.Choose(len(lans))
		v1, v2 := *base1, *base2
		v1.lancero, v2.lancero = lans[i], lans[(i+1)%len(lans)]
		res := v16RoundTrip(x, &v1, &v2, []int{v16kLancero}, false, false, true)
		res.Nontrivial = res.Nontrivial || v16Nontrivial(lans[i])
		res.Desc = fmt.Sprintf("LANCERO %+v", lans[i])
		return res
	})
	for bits := 0; bits < 8; bits++ {
		bits := bits
		r.DFS(fmt.Sprintf("b/abaco/flags=%d", bits), -1, func(x *vexp.X) vexp.Result {
			ra, ps, inv, ac, hp := x.Choose(3), x.Choose(3), x.Choose(3), x.Choose(3), x.Choose(3)
			v1, v2 := *base1, *base2
			v1.abaco = AbacoSourceConfig{ActiveCards: intLists[ac], AvailableCards: intLists[(ac+2)%3], HostPortUDP: strLists[hp], AbacoUnwrapOptions: mkUnwrap(bits, ra, ps, inv)}
			v2.abaco = AbacoSourceConfig{ActiveCards: intLists[(ac+1)%3], AvailableCards: intLists[ac], HostPortUDP: strLists[(hp+1)%3], AbacoUnwrapOptions: mkUnwrap(7-bits, (ra+1)%3, (ps+1)%3, (inv+1)%3)}
			nz := 0
			for _, c := range []int{ps, inv, ac, hp} {
				if c != 0 {
					nz++
				}
			}
			res := v16RoundTrip(x, &v1, &v2, []int{v16kAbaco}, false, false, nz <= 1)
			res.Nontrivial = res.Nontrivial || v16Nontrivial(v1.abaco)
			res.Desc = fmt.Sprintf("ABACO %+v", v1.abaco)
			return res
		})
		r.DFS(fmt.Sprintf("b/roach/flags=%d", bits), -1, func(x *vexp.X) vexp.Result {
			ra, ps, inv, hp, rt := x.Choose(3), x.Choose(3), x.Choose(3), x.Choose(3), x.Choose(3)
			rates := [][]float64{nil, {}, {40000, 0.1 + 0.2, -1}}
			v1, v2 := *base1, *base2
			v1.roach = RoachSourceConfig{HostPort: strLists[hp], Rates: rates[rt], AbacoUnwrapOptions: mkUnwrap(bits, ra, ps, inv)}
			v2.roach = RoachSourceConfig{HostPort: strLists[(hp+1)%3], Rates: rates[(rt+1)%3], AbacoUnwrapOptions: mkUnwrap(7-bits, (ra+1)%3, (ps+1)%3, (inv+1)%3)}
			nz := 0
			for _, c := range []int{ps, inv, hp, rt} {
				if c != 0 {
					nz++
				}
			}
			res := v16RoundTrip(x, &v1, &v2, []int{v16kRoach}, false, false, nz <= 1)
			res.Nontrivial = res.Nontrivial || v16Nontrivial(v1.roach)
			res.Desc = fmt.Sprintf("ROACH %+v", v1.roach)
			return res
		})
	}
	r.DFS("b/tesmapfile", -1, func(x *vexp.X) vexp.Result {
		i := x.Choose(len(maps))
		v1, v2 := *base1, *base2
		v1.mapfile, v2.mapfile = maps[i], maps[(i+1)%len(maps)]
		res := v16RoundTrip(x, &v1, &v2, []int{v16kMapFile}, false, false)
		res.Nontrivial = res.Nontrivial || maps[i] != ""
		res.Desc = fmt.Sprintf("TESMAPFILE %q", maps[i])
		return res
	})
	// every topic changes in the second run
	r.DFS("b/all-topics-change", -1, func(x *vexp.X) vexp.Result {
		n := x.Choose(4)
		res := v16RoundTrip(x, v16Baseline(n), v16Baseline(n+5), v16AllKinds, true, false)
		res.Nontrivial = true
		res.Desc = fmt.Sprintf("all topics, baseline %d then %d", n, n+5)
		return res
	})
}
