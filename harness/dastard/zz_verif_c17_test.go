//go:build verif

package dastard

// C17 — a running acquisition is free of data races.
// Engine B built with the race detector. The scheduler's hand-off uses plain memory and runtime-internal
// atomics inside //go:norace functions, so it adds no happens-before edges: every explored interleaving
// is judged by the program's own synchronisation. Reports are read back after every execution.

import (
	"encoding/json"
	"fmt"
	"os"
	"path/filepath"
	"runtime"
	"strings"
	"sync"
	"testing"
	"time"

	"github.com/usnistgov/dastard/internal/vexp"
	"github.com/usnistgov/dastard/internal/vhook"
	"github.com/usnistgov/dastard/packets"
)

var v17OrigCMC chan ClientUpdate

type v17Scenario struct {
	name  string
	run   func(x *vexp.X, sc *v17Scenario) (*vhook.Sched, func())
	bound int
}

// the status consumer does what RunClientUpdater does with every update: it serialises the state
func v17StatusConsumer(ch chan ClientUpdate, stop chan struct{}) {
	for {
		select {
		case u := <-ch:
			if u.tag == "TRIGGERRATE" {
				vAdd32(&v17RateMsgs, 1)
			}
			json.Marshal(u.state)
		case <-stop:
			return
		}
	}
}

// the record consumers do what the ZMQ publisher goroutines do: build the wire messages
func v17RecordConsumer(ch chan []*DataRecord, summaries bool, stop chan struct{}) {
	for {
		select {
		case recs := <-ch:
			for _, r := range recs {
				if summaries {
					messageSummaries(r)
				} else {
					messageRecords(r)
				}
			}
		case <-stop:
			return
		}
	}
}

// pipeline: one client drives a running source through trigger, group-trigger, write-control and raw-block
// requests while blocks with pulses are processed, records written and published, status published.
func v17Pipeline(x *vexp.X, sc *v17Scenario) (*vhook.Sched, func()) {
	src := v11New("idle", 0)
	src.pulses = true
	src.keepPub = true
	ctl := v11NewControl(src)
	dir := filepath.Join(os.Getenv("TMPDIR"), "c17")
	os.RemoveAll(dir)
	os.MkdirAll(dir, 0755)
	stop := make(chan struct{})
	status := make(chan ClientUpdate, 64)
	ctl.clientUpdates = status
	ctl.mapServer.clientUpdates = status
	if v17OrigCMC == nil {
		v17OrigCMC = clientMessageChan
	}
	clientMessageChan = status // TRIGGERRATE, DATADROP, NUMBERWRITTEN come from the processing goroutines
	PubRecordsChan = make(chan []*DataRecord, 64)
	PubSummariesChan = make(chan []*DataRecord, 64)
	go v17StatusConsumer(status, stop)
	go v17RecordConsumer(PubRecordsChan, false, stop)
	go v17RecordConsumer(PubSummariesChan, true, stop)
	env := &v11Env{sc: ctl, src: src, dir: dir, npre: 4, nsam: 12}
	client := func() {
		if err := v11Start(ctl, src); err != nil {
			panic("harness: Start failed: " + err.Error())
		}
		var ok bool
		// two record-length changes in a row (the second one's "no change?" test reads what the first one set), back to 4/12
		ctl.ConfigurePulseLengths(SizeObject{Nsamp: 14, Npre: 5}, &ok)
		ctl.ConfigurePulseLengths(SizeObject{Nsamp: 12, Npre: 4}, &ok)
		ctl.ConfigureTriggers(&FullTriggerState{ChannelIndices: []int{0}, TriggerState: TriggerState{EdgeTrigger: true, EdgeRising: true, EdgeLevel: 100}}, &ok)
		ctl.AddGroupTriggerCoupling(GroupTriggerState{Connections: map[int][]int{0: {1}}}, &ok)
		ctl.WriteControl(&WriteControlConfig{Request: "START", Path: env.dir, WriteLJH22: true, WriteLJH3: true}, &ok)
		for i := 0; i < 2; i++ {
			src.demandBlock()
			// read-only requests are served by the client's thread while the block is being processed
			zero, comment := 0, ""
			ctl.ReadComment(&zero, &comment)
			<-src.doneCh
		}
		var name string
		ctl.StoreRawDataBlock(30, &name)
		c := "comment"
		ctl.WriteComment(&c, &ok)
		ctl.SetExperimentStateLabel(&StateLabelConfig{Label: "x", WaitForError: true}, &ok)
		for i := 0; i < 2; i++ {
			src.demandBlock()
			<-src.doneCh
		}
		// the first raw block has been filled (its writer goroutine was released): ask for another one straight away
		ctl.StoreRawDataBlock(20, &name)
		src.demandBlock()
		<-src.doneCh
		d := ""
		ctl.SendAllStatus(&d, &ok)
		ctl.WriteControl(&WriteControlConfig{Request: "STOP"}, &ok)
		ctl.ConfigurePulseLengths(SizeObject{Nsamp: 16, Npre: 6}, &ok)
		ctl.SendAllStatus(&d, &ok)
		ctl.Stop(&d, &ok)
	}
	s := vhook.Run(x, vhook.Options{MaxSteps: 1500, Names: []string{"client"}, DelayBound: true}, client)
	return s, func() {
		close(stop)
		clientMessageChan = v17OrigCMC // drained by TestMain's goroutine
		if src.numberWrittenTicker != nil {
			src.numberWrittenTicker.Stop()
			src.writingState.externalTriggerTicker.Stop()
			src.writingState.dataDropTicker.Stop()
		}
	}
}

// free-running pipeline: as in a real run, the data blocks arrive at the source's own pace, not the client's (a
// feeder thread, scheduled like any other, asks the scripted producer for them), while one client reconfigures the triggers (edge-multi,
// whose search state the per-channel goroutines update in every block, edge, auto), couples channels, starts and stops
// writing and asks for status.
func v17FreeRun(x *vexp.X, sc *v17Scenario) (*vhook.Sched, func()) {
	src := v11New("idle", 0)
	src.pulses = true
	src.keepPub = true
	ctl := v11NewControl(src)
	dir := filepath.Join(os.Getenv("TMPDIR"), "c17")
	os.RemoveAll(dir)
	os.MkdirAll(dir, 0755)
	stop := make(chan struct{})
	status := make(chan ClientUpdate, 64)
	ctl.clientUpdates = status
	ctl.mapServer.clientUpdates = status
	if v17OrigCMC == nil {
		v17OrigCMC = clientMessageChan
	}
	clientMessageChan = status
	PubRecordsChan = make(chan []*DataRecord, 64)
	PubSummariesChan = make(chan []*DataRecord, 64)
	go v17StatusConsumer(status, stop)
	go v17RecordConsumer(PubRecordsChan, false, stop)
	go v17RecordConsumer(PubSummariesChan, true, stop)
	emt := func(contaminated bool) *FullTriggerState {
		return &FullTriggerState{ChannelIndices: []int{0}, TriggerState: TriggerState{EdgeMulti: true,
			EMTBackwardCompatibleRPCFields: EMTBackwardCompatibleRPCFields{EdgeMultiMakeContaminatedRecords: contaminated,
				EdgeMultiDisableZeroThreshold: true, EdgeMultiLevel: 100, EdgeMultiVerifyNMonotone: 1}}}
	}
	started, quit := make(chan struct{}), make(chan struct{})
	// The client lets at least one block go by after each group of requests (waitBlock), as an operator does. Nothing
	// but its requests may flow from the client to the data path, or the race detector would see the client's own
	// writes ordered before the next block: so every wait has a channel of its own, used for exactly one send (by the
	// feeder) and one receive (by the client) -- a channel that is used again orders the earlier receive before the
	// later send -- and the number of the wait in progress is passed through a store the detector does not see.
	var ticks [16]chan struct{}
	for i := range ticks {
		ticks[i] = make(chan struct{}, 1)
	}
	var waiting uint32 // index+1 of the wait in progress (race-invisible accesses only)
	// the feeder stands for the hardware: it makes the source deliver blocks, one after the other, whatever the client does
	feeder := func() {
		vhook.PSC(922, []interface{}{started}, []bool{false}, false)
		select {
		case <-started:
			vhook.C(0)
		}
		var sent [len(ticks)]bool
		for {
			src.demandBlock()
			vhook.PSC(923, []interface{}{src.doneCh, quit}, []bool{false, false}, false)
			select {
			case <-src.doneCh:
				vhook.C(0)
			case <-quit:
				vhook.C(1)
				return
			}
			if w := runtime.VerifLoad32(&waiting); w > 0 && !sent[w-1] {
				sent[w-1] = true
				ticks[w-1] <- struct{}{}
			}
		}
	}
	nwait := 0
	waitBlock := func() {
		c := ticks[nwait]
		nwait++
		runtime.VerifStore32(&waiting, uint32(nwait))
		vhook.PSC(924, []interface{}{c}, []bool{false}, false)
		select {
		case <-c:
			vhook.C(0)
		}
	}
	client := func() {
		if err := v11Start(ctl, src); err != nil {
			panic("harness: Start failed: " + err.Error())
		}
		close(started)
		var ok bool
		if err := ctl.ConfigureTriggers(emt(false), &ok); err != nil {
			panic("harness: ConfigureTriggers(edge-multi) failed: " + err.Error())
		}
		waitBlock()
		ctl.ConfigureTriggers(&FullTriggerState{ChannelIndices: []int{1}, TriggerState: TriggerState{AutoTrigger: true, AutoDelay: 10 * time.Millisecond}}, &ok)
		ctl.AddGroupTriggerCoupling(GroupTriggerState{Connections: map[int][]int{0: {1}}}, &ok)
		ctl.WriteControl(&WriteControlConfig{Request: "START", Path: dir, WriteLJH22: true}, &ok)
		waitBlock()
		zero, comment := 0, ""
		ctl.ReadComment(&zero, &comment)
		// a model for channel 0, then its replacement while records are being analysed with it
		pbo := &ProjectorsBasisObject{ChannelIndex: 0, ProjectorsBase64: v11B64(v11Matrix(2, 12)), BasisBase64: v11B64(v11Matrix(12, 2)), ModelDescription: "m"}
		if err := ctl.ConfigureProjectorsBasis(pbo, &ok); err != nil {
			panic("harness: ConfigureProjectorsBasis failed: " + err.Error())
		}
		waitBlock()
		ctl.ConfigureTriggers(emt(true), &ok)
		waitBlock()
		ctl.ConfigureProjectorsBasis(pbo, &ok)
		waitBlock()
		d := ""
		ctl.SendAllStatus(&d, &ok)
		ctl.ConfigureTriggers(&FullTriggerState{ChannelIndices: []int{0}, TriggerState: TriggerState{EdgeTrigger: true, EdgeRising: true, EdgeLevel: 100}}, &ok)
		waitBlock()
		close(quit)
		ctl.WriteControl(&WriteControlConfig{Request: "STOP"}, &ok)
		ctl.Stop(&d, &ok)
	}
	s := vhook.Run(x, vhook.Options{MaxSteps: 1500, Names: []string{"client", "feeder"}, DelayBound: true}, client, feeder)
	return s, func() {
		close(stop)
		clientMessageChan = v17OrigCMC
		v17Work = fmt.Sprintf("blocks=%d", runtime.VerifLoad32(&src.processed))
		if src.numberWrittenTicker != nil {
			src.numberWrittenTicker.Stop()
			src.writingState.externalTriggerTicker.Stop()
			src.writingState.dataDropTicker.Stop()
		}
	}
}

// v17RateMsgs counts the TRIGGERRATE messages the status consumer has taken (race-invisible accesses only)
var v17RateMsgs uint32

// data timeline: the blocks of a running source need not be contiguous in data time. A source that drops data or
// stalls delivers a block whose frame number and time stamp lie seconds after the previous block's end, so that one
// pass of the core loop covers several of the broker's one-second reporting periods and hands the status thread
// several messages in a row (in the other scenarios every block covers 24 ms and follows the previous one directly:
// at most one periodic message per pass). Here blocks 1 and 3 come after 3.5 s and 2.2 s of lost data time.
func v17Timeline(x *vexp.X, sc *v17Scenario) (*vhook.Sched, func()) {
	src := v11New("idle", 0)
	src.pulses = true
	src.keepPub = true
	src.gapBefore = map[int]time.Duration{1: 3500 * time.Millisecond, 3: 2200 * time.Millisecond}
	ctl := v11NewControl(src)
	stop := make(chan struct{})
	status := make(chan ClientUpdate, 64)
	ctl.clientUpdates = status
	ctl.mapServer.clientUpdates = status
	if v17OrigCMC == nil {
		v17OrigCMC = clientMessageChan
	}
	clientMessageChan = status
	PubRecordsChan = make(chan []*DataRecord, 64)
	PubSummariesChan = make(chan []*DataRecord, 64)
	runtime.VerifStore32(&v17RateMsgs, 0)
	go v17StatusConsumer(status, stop)
	go v17RecordConsumer(PubRecordsChan, false, stop)
	go v17RecordConsumer(PubSummariesChan, true, stop)
	client := func() {
		if err := v11Start(ctl, src); err != nil {
			panic("harness: Start failed: " + err.Error())
		}
		var ok bool
		ctl.ConfigureTriggers(&FullTriggerState{ChannelIndices: []int{0}, TriggerState: TriggerState{EdgeTrigger: true, EdgeRising: true, EdgeLevel: 100}}, &ok)
		ctl.AddGroupTriggerCoupling(GroupTriggerState{Connections: map[int][]int{0: {1}}}, &ok)
		for i := 0; i < 4; i++ {
			src.demandBlock()
			<-src.doneCh
		}
		d := ""
		ctl.SendAllStatus(&d, &ok)
		ctl.Stop(&d, &ok)
	}
	s := vhook.Run(x, vhook.Options{MaxSteps: 1500, Names: []string{"client"}, DelayBound: true}, client)
	return s, func() {
		// the source has stopped: let the status consumer take what is still queued, then count
		for t0 := time.Now(); len(status) > 0 && time.Since(t0) < time.Second; {
			runtime.Gosched()
		}
		close(stop)
		clientMessageChan = v17OrigCMC
		// 5.7 s of data time in four blocks: at least five reporting periods end, at least two of them within one block
		v17Work = fmt.Sprintf("blocks=%d rate-messages>=5:%v", runtime.VerifLoad32(&src.processed), runtime.VerifLoad32(&v17RateMsgs) >= 5)
		if src.numberWrittenTicker != nil {
			src.numberWrittenTicker.Stop()
			src.writingState.externalTriggerTicker.Stop()
			src.writingState.dataDropTicker.Stop()
		}
	}
}

// life cycle: Start, two concurrent Stop callers, scripted producer (as C10 S1)
func v17LifeCycle(x *vexp.X, sc *v17Scenario) (*vhook.Sched, func()) {
	src := v10New("normal", 1, "")
	queued := make(chan func())
	started := make(chan struct{})
	s := vhook.Run(x, vhook.Options{MaxSteps: 600, Names: []string{"starter", "stopper"}},
		func() {
			if err := Start(src, queued, 3, 6); err != nil {
				panic("harness: Start failed: " + err.Error())
			}
			close(started)
			src.Stop()
		},
		func() {
			<-started
			src.Stop()
		})
	return s, func() {
		if src.numberWrittenTicker != nil {
			src.numberWrittenTicker.Stop()
		}
	}
}

// self-test: an unsynchronised pair that the scheduler strictly serialises must still be reported, and a
// mutex-protected pair must not (run with VERIF_SELFTEST=1; the reports are harness-only by construction)
var v17Shared, v17Guarded int

func v17SelfTest(x *vexp.X, sc *v17Scenario) (*vhook.Sched, func()) {
	var mu sync.Mutex
	s := vhook.Run(x, vhook.Options{Names: []string{"a", "b"}},
		func() { vhook.P(990); v17Shared++; mu.Lock(); v17Guarded++; mu.Unlock() },
		func() { vhook.P(991); v17Shared++; mu.Lock(); v17Guarded++; mu.Unlock() })
	return s, func() {}
}

// ---- Abaco pipeline: fake packet producer, real Sample/Start/readerMainLoop/getNextBlock/distributeData/
// CoreLoop/ProcessSegments. The reader's ticker is a seam (text patch): ticks are sent by a driver thread.
type vTicker struct{ C chan time.Time }

func (t *vTicker) Stop() {}

var v17Ticks chan time.Time

// vTickAlways stands in for the once-per-second / once-per-ten-seconds tickers of PrepareRun: its channel is
// closed, so that every pass through ProcessSegments / HandleExternalTriggers / HandleDataDrop takes the
// "ticker fired" branch (the periodic NUMBERWRITTEN and EXTERNALTRIGGER messages, the file flushes) — which an
// execution lasting milliseconds would otherwise never reach. Deterministic, unlike a fast real ticker.
func vTickAlways(d time.Duration) *time.Ticker {
	c := make(chan time.Time)
	close(c)
	return &time.Ticker{C: c}
}

func vNewTicker(d time.Duration) *vTicker { return &vTicker{C: v17Ticks} }

// seams for the simulated sources (C10 build): a timer that has already fired / a data ticker that is ready, but
// only vSimTicks times per execution (real time would space the blocks out; an always-ready tick would make
// "produce blocks for ever" the canonical schedule), and a heartbeat ticker (1 s) that never fires.
var vClosedTimeChan = func() chan time.Time { c := make(chan time.Time); close(c); return c }()
var vSimTicks int

func vAfter(d time.Duration) <-chan time.Time {
	if vSimTicks > 0 {
		vSimTicks--
		return vClosedTimeChan
	}
	return nil
}

func vSimTicker(d time.Duration) *vTicker {
	if d >= time.Second {
		return &vTicker{C: nil}
	}
	c := make(chan time.Time, vSimTicks)
	for i := 0; i < vSimTicks; i++ {
		c <- time.Time{}
	}
	return &vTicker{C: c}
}

type v17Abaco struct {
	*AbacoSource
	done chan struct{}
}

func (a *v17Abaco) ProcessSegments(b *dataBlock) error {
	err := a.AbacoSource.ProcessSegments(b)
	select {
	case a.done <- struct{}{}:
	default:
	}
	return err
}

// v17ExtTrigPackets: external-trigger packets as the Abaco firmware sends them (payload label "value,active,t", no
// channel offset): the first three packets of the repository's testData/timer_packets.bin, decoded anew per call.
func v17ExtTrigPackets() []*packets.Packet {
	dir := os.Getenv("VERIF_REPO_DIR")
	if dir == "" {
		dir = "/repo"
	}
	f, err := os.Open(filepath.Join(dir, "testData", "timer_packets.bin"))
	if err != nil {
		panic("harness: " + err.Error())
	}
	defer f.Close()
	var out []*packets.Packet
	for i := 0; i < 3; i++ {
		p, err := packets.ReadPacket(f)
		if err != nil || !p.IsExternalTrigger() {
			panic(fmt.Sprintf("harness: packet %d of timer_packets.bin: err=%v", i, err))
		}
		out = append(out, p)
	}
	return out
}

// v17NewAbaco builds a real AbacoSource fed by a scripted packet producer (two groups, one lagging, one lost
// packet) and returns it with the clock thread that stands in for the reader's ticker.
func v17NewAbaco() (*v17Abaco, func(started chan struct{}) func()) {
	l := &v03Layout{name: "c17", groups: []v03Group{{0, 1}, {1, 2}}, frames: 2}
	as, _ := NewAbacoSource()
	prod := &v03Producer{done: make(chan struct{})}
	for _, g := range l.groups {
		for sn := v03Base; sn < v03Base+v03NSampled; sn++ {
			prod.sampled = append(prod.sampled, v03Packet(l, g, sn))
		}
	}
	// three reads: everything / group 1 lags and loses a packet / the rest
	mk := func(g, k int) *packets.Packet { return v03Packet(l, l.groups[g], v03Base+v03NSampled+k) }
	ext := v17ExtTrigPackets() // external-trigger packets arrive interleaved with the data packets
	prod.batches = [][]*packets.Packet{{mk(0, 0), ext[0], mk(0, 1), mk(1, 0)}, {mk(0, 2), mk(1, 1), ext[1], mk(1, 3)}, {mk(0, 3), mk(1, 4), mk(0, 4), ext[2]}}
	as.producers = []PacketProducer{prod}
	as.unwrapOpts = AbacoUnwrapOptions{}
	v17Ticks = make(chan time.Time)
	src := &v17Abaco{AbacoSource: as, done: make(chan struct{}, 16)}
	clock := func(started chan struct{}) func() {
		return func() {
			<-started
			for i := 0; i < 4; i++ {
				vhook.PSC(920, []interface{}{v17Ticks, src.abortSelf}, []bool{true, false}, false)
				select {
				case v17Ticks <- time.Time{}:
					vhook.C(0)
				case <-src.abortSelf:
					vhook.C(1)
					return
				}
			}
		}
	}
	return src, clock
}

func (a *v17Abaco) stopTickers() {
	if a.numberWrittenTicker != nil {
		a.numberWrittenTicker.Stop()
		a.writingState.externalTriggerTicker.Stop()
		a.writingState.dataDropTicker.Stop()
	}
}

func v17AbacoPipeline(x *vexp.X, sc *v17Scenario) (*vhook.Sched, func()) {
	src, clock := v17NewAbaco()
	queued := make(chan func())
	started := make(chan struct{})
	s := vhook.Run(x, vhook.Options{MaxSteps: 1500, Names: []string{"control", "clock"}, DelayBound: true},
		func() {
			if err := Start(src, queued, 3, 6); err != nil {
				panic("harness: Abaco Start failed: " + err.Error())
			}
			close(started)
			<-src.done // at least one block has been processed
			src.Stop()
		},
		clock(started))
	return s, src.stopTickers
}

// ---- Lancero pipeline: scripted card (the C04 one), real StartRun/launchLanceroReader/getNextBlock worker/
// ConfigureMixFraction/distributeData/CoreLoop/ProcessSegments. Sample() is bypassed (sampleCard needs hardware
// pacing): the geometry is set directly, as in C04. The reader's ticker is the same seam as for Abaco.
type v17Lancero struct {
	*LanceroSource
	done   chan struct{}
	blocks int // processed blocks (written by the core loop only; read after the execution)
	nsamp  int
}

// v17Work describes what the last execution got done (part of the outcome: shows the scenario is not vacuous)
var v17Work string

func (l *v17Lancero) Sample() error { return nil }

func (l *v17Lancero) ProcessSegments(b *dataBlock) error {
	err := l.LanceroSource.ProcessSegments(b)
	l.blocks++
	l.nsamp += len(b.segments[0].rawData)
	select {
	case l.done <- struct{}{}:
	default:
	}
	return err
}

func v17NewLancero() (*v17Lancero, *v04Card) {
	g := v04Geom{2, 2}
	words := g.ncols * g.nrows
	frameSize := 4 * words
	sc := &v04Script{g: g, mixAt: -1}
	sc.ext = make([][]bool, v04Frames)
	for f := range sc.ext {
		sc.ext[f] = make([]bool, g.nrows)
	}
	sc.ext[4][1], sc.ext[9][0] = true, true
	// one word is lost at the start of the third read (frame 7, word 1): the reader re-aligns and reports a drop
	sc.gapA = 7*frameSize + 4
	sc.gapB = sc.gapA + 4
	for i, nf := range []int{3, 7, 11, 15, 20} { // start-up read, then one read per tick
		extra := 0
		if i == 1 {
			extra = 4 // the read before the loss ends one word into frame 7, so that frame 7 starts the next read
		}
		sc.avail = append(sc.avail, nf*frameSize+extra)
	}
	card, _ := sc.build()
	ls := &LanceroSource{}
	ls.name = "Lancero"
	ls.nsamp = 1
	dev := &LanceroDevice{devnum: 0, card: card, ncols: g.ncols, nrows: g.nrows, frameSize: frameSize, clockMHz: 125, lsync: 1250 / g.nrows}
	ls.devices = map[int]*LanceroDevice{0: dev}
	ls.active = []*LanceroDevice{dev}
	ls.ncards = 1
	ls.firstRowChanNum = 1
	ls.nchan = 2 * words
	ls.sampleRate = 1e5
	ls.samplePeriod = 10 * time.Microsecond
	ls.updateChanOrderMap()
	ls.mixRequests = make(chan *MixFractionObject)
	ls.currentMix = make(chan []float64)
	return &v17Lancero{LanceroSource: ls, done: make(chan struct{}, 16)}, card
}

func v17LanceroPipeline(x *vexp.X, sc *v17Scenario) (*vhook.Sched, func()) {
	src, _ := v17NewLancero()
	v17Ticks = make(chan time.Time)
	queued := make(chan func())
	started := make(chan struct{})
	var mix []float64
	s := vhook.Run(x, vhook.Options{MaxSteps: 1500, Names: []string{"control", "clock"}, DelayBound: true},
		func() {
			if err := Start(src, queued, 3, 6); err != nil {
				panic("harness: Lancero Start failed: " + err.Error())
			}
			close(started)
			<-src.done // a block has been processed
			var err error
			if mix, err = src.ConfigureMixFraction(&MixFractionObject{ChannelIndices: []int{1, 3}, MixFractions: []float64{0.5, 0.25}}); err != nil {
				panic("harness: ConfigureMixFraction failed: " + err.Error())
			}
			<-src.done
			src.Stop()
		},
		func() {
			<-started
			for i := 0; i < 6; i++ {
				vhook.PSC(921, []interface{}{v17Ticks, src.abortSelf}, []bool{true, false}, false)
				select {
				case v17Ticks <- time.Time{}:
					vhook.C(0)
				case <-src.abortSelf:
					vhook.C(1)
					return
				}
			}
		})
	return s, func() {
		v17Work = fmt.Sprintf("blocks=%d samples=%d mix=%v", src.blocks, src.nsamp, mix)
		if src.numberWrittenTicker != nil {
			src.numberWrittenTicker.Stop()
			src.writingState.externalTriggerTicker.Stop()
			src.writingState.dataDropTicker.Stop()
		}
	}
}

func v17Run(x *vexp.X, sc *v17Scenario) vexp.Result {
	vhook.NewRaceReports() // discard anything reported outside an execution
	v17Work = ""
	s, cleanup := sc.run(x, sc)
	out := s.Outcome()
	surv := s.Release(3 * time.Second)
	if !out.Deadlock && !out.Horizon {
		s.WaitDrivers()
	}
	cleanup()
	reps := vhook.NewRaceReports()
	if out.Pruned {
		// an abandoned duplicate still ran to its end: its reports count, the execution does not
	}
	for _, r := range reps {
		if r.Repo {
			return vexp.Result{Violation: fmt.Sprintf("%s: the race detector reports a data race in this interleaving:\n%s\nschedule: %s", sc.name, r.Text, s.TraceString()), Class: r.Class}
		}
	}
	if out.Pruned {
		return vexp.Result{Skip: true}
	}
	if out.PanicClass != "" {
		return vexp.Result{Violation: sc.name + ": panic: " + out.PanicText, Class: out.PanicClass}
	}
	if out.Deadlock {
		return vexp.Result{Violation: fmt.Sprintf("%s: deadlock %v\nschedule: %s", sc.name, out.Blocked, s.TraceString()), Class: "deadlock"}
	}
	_ = surv
	nh := 0
	for _, r := range reps {
		if !r.Repo {
			nh++
		}
	}
	if os.Getenv("VERIF_SELFTEST") != "" {
		for _, r := range reps {
			fmt.Fprintf(os.Stderr, "SELFTEST-REPORT %s\n", r.Class)
		}
	}
	return vexp.Result{Nontrivial: out.Preempt > 0, Outcome: fmt.Sprintf("steps=%d harness-only-reports=%d %s", out.Steps/50, nh, v17Work)}
}

func TestVerifC17(t *testing.T) {
	r := vexp.NewRunner("C17")
	r.CrashTrace = true
	defer r.Finish()
	if !strings.Contains(os.Getenv("GORACE"), "log_path") {
		panic("VERIF-INFRA C17 must run with GORACE=log_path=... (race build)")
	}
	pb := 1
	if r.Thorough() {
		pb = 2
	}
	r.SetBound(fmt.Sprintf("race-detector build; all interleavings (all select alternatives) with at most %d preemptions (life cycle) / at most as many scheduling deviations of any kind (thread choice or select alternative) from the canonical schedule (delay bounding, pipeline) of: (pipeline) one client issuing record-length, trigger, group-trigger, write-control, raw-block (two in a row), comment (write and read), state-label, send-all and stop requests against a running two-channel source with pulses, LJH2.2+LJH3 writing, group trigger, record/summary/status consumers; (free-running pipeline) the same source delivering blocks at the pace of an independent feeder thread (the client lets at least one block go by after each group of requests, with nothing but its requests flowing from it to the data path) while the client configures edge-multi / auto / edge triggers, couples channels, starts and stops LJH2.2 writing, reads the comment, loads and replaces a projector model and asks for all status; (pipeline, data timeline) the same source with edge trigger and group coupling delivering four blocks of which the second and the fourth come after 3.5 s and 2.2 s of lost data time (frame number and time stamp jump ahead together), so that one pass of the core loop ends several of the broker's one-second reporting periods and queues several TRIGGERRATE messages for the status consumer, then send-all and stop; (life cycle) Start with two concurrent Stop callers; (Abaco pipeline) real Start/readerMainLoop/getNextBlock/distributeData/CoreLoop with a scripted packet producer (two groups, one lagging, one lost packet, external-trigger packets in between), clock thread and Stop; (Lancero pipeline) real StartRun/launchLanceroReader/getNextBlock/ConfigureMixFraction/distributeData/CoreLoop with a scripted card (2x2 geometry, 20 frames in 5 reads, external-trigger bits, one lost word so that the reader re-aligns), clock thread, one mix request and Stop", pb))
	scs := []*v17Scenario{
		{name: "pipeline", run: v17Pipeline, bound: pb}, // delay-bounded (see vhook.Options.DelayBound)
		{name: "pipeline-freerun", run: v17FreeRun, bound: pb},
		{name: "pipeline-timeline", run: v17Timeline, bound: pb},
		{name: "lifecycle", run: v17LifeCycle, bound: pb},
		{name: "abaco-pipeline", run: v17AbacoPipeline, bound: pb},
		{name: "lancero-pipeline", run: v17LanceroPipeline, bound: pb},
	}
	if os.Getenv("VERIF_SELFTEST") != "" {
		scs = []*v17Scenario{{name: "selftest", run: v17SelfTest, bound: 1}}
	}
	for _, sc := range scs {
		sc := sc
		r.DFSSharded(sc.name, sc.bound, 2, func(x *vexp.X) vexp.Result { return v17Run(x, sc) })
	}
}
