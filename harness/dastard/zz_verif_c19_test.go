//go:build verif

package dastard

// C19 — channel identity is unique and consistent everywhere it is reported.
// Engine A (DFS): every source configuration of the bound is pushed through the real
// PrepareChannels / PrepareRun (Lancero: geometry set directly, since sampleCard needs hardware;
// Abaco: the real Sample() over fake PacketProducers that hand out packets built with the real
// packets package; Triangle/SimPulse: real Configure+Sample; Roach: nchan set directly, since
// samplePacket needs a UDP socket). For the small configurations of every source layout the real
// WriteControl START / PublishData / STOP is driven into a temp dir for every file-type set out of
// LJH22, LJH3, OFF (OFF with projectors loaded on all streams, OFF alone also on every other stream),
// the run directory must hold one file per (stream, type) that wrote, and every LJH22 / LJH3 / OFF
// header is decoded with the independent decoders and compared with the reported identity.
// Every source type is also prepared twice on the same object without a Stop in between (family D).
// Family F drives one SourceControl through its RPC handlers (Configure*Source, Start, Stop) for two (thorough: three)
// sources in turn and compares what the clients are told after each Start (STATUS, CHANNELNAMES, channels.json)
// with the identity of the source that is running.
// Lancero, sampled (family E and a twicer of family D): the cards are scripted lancero.Lanceroer values and
// the source is started the way Start does it - the real Configure (rows, line period, NSAMP from a
// cringeGlobals file), the real Sample with sampleCard on each active card (it paces itself on the card's
// time stamps, which the script supplies), PrepareChannels, PrepareRun - so the number of data streams and
// the per-card geometry are what the real Sample finds in the cards' streams; cards differ in their columns.

import (
	"encoding/json"
	"fmt"
	"os"
	"path/filepath"
	"sort"
	"strconv"
	"strings"
	"testing"
	"time"

	"github.com/usnistgov/dastard/internal/vexp"
	"github.com/usnistgov/dastard/lancero"
	"github.com/usnistgov/dastard/packets"
	"gonum.org/v1/gonum/mat"
)

const (
	v19npre  = 3
	v19nsamp = 6
)

// v19Truth is the ground truth of one data stream, known to the harness from the configuration.
type v19Truth struct {
	pixel  [3]int // physical origin (card or group position, column, row); partners share it
	prefix string // expected name prefix
	// geometry the row/column code has to decode to; rows<0 = only generic consistency is demanded
	row, col, rows, cols int
}

func v19Close(ds *AnySource) {
	if ds.numberWrittenTicker != nil {
		ds.numberWrittenTicker.Stop()
	}
	if ds.writingState.externalTriggerTicker != nil {
		ds.writingState.externalTriggerTicker.Stop()
	}
	if ds.writingState.dataDropTicker != nil {
		ds.writingState.dataDropTicker.Stop()
	}
}

// v19Private gives every processor a private publish channel.
func v19Private(ds *AnySource) []chan []*DataRecord {
	var out []chan []*DataRecord
	for _, dsp := range ds.processors {
		c := make(chan []*DataRecord, 16)
		dsp.PubRecordsChan = c
		dsp.PubSummariesChan = nil
		out = append(out, c)
	}
	return out
}

// v19Identity checks the identity tables of a prepared source against the ground truth.
func v19Identity(x *vexp.X, ds *AnySource, truth []v19Truth) (string, string) {
	n := len(truth)
	names := ds.ChannelNames()
	if ds.Nchan() != n || len(names) != n || len(ds.chanNumbers) != n || len(ds.rowColCodes) != n || len(ds.processors) != n || len(ds.subframeOffsets) != n {
		return fmt.Sprintf("the configuration has %d data streams, but Nchan()=%d, %d names, %d numbers, %d row/column codes, %d subframe offsets, %d processors",
			n, ds.Nchan(), len(names), len(ds.chanNumbers), len(ds.rowColCodes), len(ds.subframeOffsets), len(ds.processors)), "identity-table-length"
	}
	for i := range truth {
		rc := ds.rowColCodes[i]
		x.Logf("   stream %2d: name=%-8s number=%3d rowcol=(row %d of %d, col %d of %d) subframeOffset=%d  [truth: origin %v]", i, names[i], ds.chanNumbers[i],
			rc.row(), rc.rows(), rc.col(), rc.cols(), ds.subframeOffsets[i], truth[i].pixel)
	}
	x.Logf("   groups: %v", ds.ChanGroups())
	// what the processors (records, files) carry equals what the source reports
	for i, dsp := range ds.processors {
		if dsp.channelIndex != i || dsp.Name != names[i] || dsp.ChannelNumber != ds.chanNumbers[i] {
			return fmt.Sprintf("processor %d carries (index %d, name %q, number %d) but the source reports (index %d, name %q, number %d)",
				i, dsp.channelIndex, dsp.Name, dsp.ChannelNumber, i, names[i], ds.chanNumbers[i]), "processor-identity-differs"
		}
	}
	// names distinct (hence (name,index) pairs distinct)
	seenName := map[string]int{}
	for i, nm := range names {
		if j, ok := seenName[nm]; ok {
			return fmt.Sprintf("streams %d and %d are both named %q", j, i, nm), "duplicate-name"
		}
		seenName[nm] = i
	}
	// the name is prefix + number
	for i, nm := range names {
		if want := truth[i].prefix + strconv.Itoa(ds.chanNumbers[i]); nm != want {
			return fmt.Sprintf("stream %d is named %q but its channel number is %d (expected name %q)", i, nm, ds.chanNumbers[i], want), "name-number-mismatch"
		}
	}
	// partners share one number; different origins never collide
	numOf := map[[3]int]int{}
	for i, t := range truth {
		if nn, ok := numOf[t.pixel]; ok && nn != ds.chanNumbers[i] {
			return fmt.Sprintf("stream %d (%q) and its partner from the same (card,col,row)=%v have channel numbers %d and %d", i, names[i], t.pixel, ds.chanNumbers[i], nn), "partners-differ"
		}
		numOf[t.pixel] = ds.chanNumbers[i]
	}
	owner := map[int][3]int{}
	for px, nn := range numOf {
		if o, ok := owner[nn]; ok {
			a, b := o, px
			if fmt.Sprint(b) < fmt.Sprint(a) {
				a, b = b, a
			}
			return fmt.Sprintf("channel number %d is used by two different (card,col,row): %v and %v", nn, a, b), "number-collision"
		}
		owner[nn] = px
	}
	// groups cover exactly the numbers in use, without overlap
	covered := map[int]int{}
	groups := ds.ChanGroups()
	for gi, g := range groups {
		for c := g.Firstchan; c < g.Firstchan+g.Nchan; c++ {
			if gj, ok := covered[c]; ok {
				return fmt.Sprintf("channel number %d lies in group %v and in group %v", c, groups[gj], g), "groups-overlap"
			}
			covered[c] = gi
		}
	}
	var used []int
	for nn := range owner {
		used = append(used, nn)
	}
	sort.Ints(used)
	for _, nn := range used {
		if _, ok := covered[nn]; !ok {
			return fmt.Sprintf("channel number %d is in use but no reported group covers it; groups %v", nn, groups), "groups-miss-number"
		}
	}
	var cov []int
	for c := range covered {
		cov = append(cov, c)
	}
	sort.Ints(cov)
	for _, c := range cov {
		if _, ok := owner[c]; !ok {
			return fmt.Sprintf("reported groups %v cover channel number %d, which no stream has; numbers in use %v", groups, c, used), "groups-cover-unused-number"
		}
	}
	// row/column codes
	seenRC := map[[2]int]int{}
	for i, t := range truth {
		rc := ds.rowColCodes[i]
		if t.rows >= 0 {
			if rc.row() != t.row || rc.col() != t.col || rc.rows() != t.rows || rc.cols() != t.cols {
				return fmt.Sprintf("stream %d (%q): row/column code decodes to row %d of %d, column %d of %d; true geometry is row %d of %d, column %d of %d",
					i, names[i], rc.row(), rc.rows(), rc.col(), rc.cols(), t.row, t.rows, t.col, t.cols), "rowcol-wrong"
			}
			continue
		}
		// generic: one rows x cols grid holding every stream exactly once
		if rc.rows() != ds.rowColCodes[0].rows() || rc.cols() != ds.rowColCodes[0].cols() || rc.rows()*rc.cols() != n ||
			rc.row() < 0 || rc.row() >= rc.rows() || rc.col() < 0 || rc.col() >= rc.cols() {
			return fmt.Sprintf("stream %d (%q): row/column code (row %d of %d, column %d of %d) is not a position in one grid holding the %d streams",
				i, names[i], rc.row(), rc.rows(), rc.col(), rc.cols(), n), "rowcol-wrong"
		}
		k := [2]int{rc.row(), rc.col()}
		if j, ok := seenRC[k]; ok {
			return fmt.Sprintf("streams %d and %d share row %d, column %d", j, i, k[0], k[1]), "rowcol-wrong"
		}
		seenRC[k] = i
	}
	return "", ""
}

var v19Seq int

func v19HeaderInt(h map[string]string, prefix string) (int, bool) {
	for k, v := range h {
		if k == prefix || strings.HasPrefix(k, prefix+" (") {
			n, err := strconv.Atoi(strings.TrimSpace(v))
			return n, err == nil
		}
	}
	return 0, false
}

// v19FileSets are the file-type sets a START can ask for (bit 1 LJH22, 2 LJH3, 4 OFF).
const v19NMasks = 7

func v19MaskName(m int) string {
	var p []string
	if m&1 != 0 {
		p = append(p, "LJH22")
	}
	if m&2 != 0 {
		p = append(p, "LJH3")
	}
	if m&4 != 0 {
		p = append(p, "OFF")
	}
	return strings.Join(p, "+")
}

// v19ProjSets: which streams get projectors before an OFF-writing START. Streams alternate
// error/feedback in a Lancero source, so "odd"/"even" are "feedback only"/"error only" there.
var v19ProjSets = []string{"all streams", "odd stream indices", "even stream indices"}

func v19HasProj(sel, i int) bool {
	return sel == 0 || (sel == 1 && i%2 == 1) || (sel == 2 && i%2 == 0)
}

// v19ChooseFiles lets the environment pick the file-type set; OFF is written with projectors on all
// streams, and an OFF-only START also with projectors on every other stream only (streams without
// projectors then write nothing).
func v19ChooseFiles(x *vexp.X, nstreams int) (mask, projSel int) {
	mask = 1 + x.Choose(v19NMasks)
	if mask == 4 && nstreams >= 2 { // with one stream only "all" and "even" exist, and they are the same
		projSel = x.Choose(len(v19ProjSets))
	}
	return
}

func v19JSONString(m map[string]interface{}, keys ...string) (string, bool) {
	var cur interface{} = m
	for _, k := range keys {
		mm, ok := cur.(map[string]interface{})
		if !ok {
			return "", false
		}
		cur = mm[k]
	}
	s, ok := cur.(string)
	return s, ok
}

// v19Files drives START (file-type set mask; projectors loaded on the streams projSel selects when
// OFF is in the set) / one record per stream / STOP on the real code, and then reads the run
// directory: every (stream, file type) that wrote a record has a file of its own, and every file
// header carries the identity the source reports for that stream.
func v19Files(x *vexp.X, ds *AnySource, pub []chan []*DataRecord, mask, projSel int) (string, string) {
	v19Seq++
	base := filepath.Join(os.Getenv("TMPDIR"), fmt.Sprintf("c19_%d", v19Seq))
	os.MkdirAll(base, 0755)
	defer os.RemoveAll(base)
	names := append([]string{}, ds.ChannelNames()...)
	n := len(names)
	hasProj := make([]bool, n)
	if mask&4 != 0 {
		for i, dsp := range ds.processors {
			if !v19HasProj(projSel, i) {
				continue
			}
			// coefficient 0 = first sample, coefficient 1 = sum of the samples
			proj := mat.NewDense(2, dsp.NSamples, nil)
			basis := mat.NewDense(dsp.NSamples, 2, nil)
			proj.Set(0, 0, 1)
			for j := 0; j < dsp.NSamples; j++ {
				proj.Set(1, j, 1)
				basis.Set(j, 1, 1.0/float64(dsp.NSamples))
			}
			x.Steps++
			if err := ds.ConfigureProjectorsBases(i, proj, basis, "verif C19"); err != nil {
				return fmt.Sprintf("ConfigureProjectorsBases(stream %d %q) failed: %v", i, names[i], err), "projectors-error"
			}
			hasProj[i] = true
		}
		x.Logf("   files %s, projectors on %s", v19MaskName(mask), v19ProjSets[projSel])
	} else {
		x.Logf("   files %s", v19MaskName(mask))
	}
	x.Steps++
	if err := ds.WriteControl(&WriteControlConfig{Request: "START", Path: base, WriteLJH22: mask&1 != 0, WriteLJH3: mask&2 != 0, WriteOFF: mask&4 != 0}); err != nil {
		return "WriteControl START failed: " + err.Error(), "start-error"
	}
	stopped := false
	defer func() {
		if !stopped {
			ds.WriteControl(&WriteControlConfig{Request: "STOP"})
		}
	}()
	pattern := ds.ComputeWritingState().FilenamePattern
	const tag = 4242
	stamp := func(i int) time.Time { return vT0.Add(time.Duration(i) * time.Millisecond) }
	for i, dsp := range ds.processors {
		data := make([]RawType, dsp.NSamples)
		for j := range data {
			data[j] = RawType(100*i + j)
		}
		rec := &DataRecord{data: data, trigFrame: FrameIndex(tag), trigTime: stamp(i),
			channelIndex: i, presamples: dsp.NPresamples, sampPeriod: 0.001, voltsPerArb: 1}
		recs := []*DataRecord{rec}
		dsp.AnalyzeData(recs)
		x.Steps++
		if err := dsp.DataPublisher.PublishData(recs); err != nil {
			return fmt.Sprintf("PublishData(stream %d %q) failed: %v", i, names[i], err), "publish-error"
		}
		for len(pub[i]) > 0 {
			<-pub[i]
		}
	}
	x.Steps++
	if err := ds.WriteControl(&WriteControlConfig{Request: "STOP"}); err != nil {
		return "WriteControl STOP failed: " + err.Error(), "stop-error"
	}
	stopped = true

	// which (stream, type) pairs wrote a record
	type ftype struct {
		ext string
		bit int
	}
	ftypes := []ftype{{"ljh", 1}, {"ljh3", 2}, {"off", 4}}
	writes := func(i int, t ftype) bool { return mask&t.bit != 0 && (t.bit != 4 || hasProj[i]) }
	// the run directory: as many files of each type as streams that wrote one; no two streams share a file
	dir := filepath.Dir(pattern)
	ents, _ := os.ReadDir(dir)
	onDisk := map[string][]string{}
	for _, e := range ents {
		ext := strings.TrimPrefix(filepath.Ext(e.Name()), ".")
		onDisk[ext] = append(onDisk[ext], e.Name())
	}
	x.Logf("   run directory holds %d .ljh, %d .ljh3 and %d .off files for %d streams", len(onDisk["ljh"]), len(onDisk["ljh3"]), len(onDisk["off"]), n)
	fileOf := map[string]string{}
	for _, t := range ftypes {
		nw := 0
		for i := range names {
			if !writes(i, t) {
				continue
			}
			nw++
			fn := fmt.Sprintf(pattern, names[i], t.ext)
			if who, ok := fileOf[fn]; ok {
				return fmt.Sprintf("%s and stream %d (%s) write to the same file %s", who, i, t.ext, filepath.Base(fn)), "file-name-shared"
			}
			fileOf[fn] = fmt.Sprintf("stream %d (%s)", i, t.ext)
		}
		sort.Strings(onDisk[t.ext])
		if len(onDisk[t.ext]) < nw {
			return fmt.Sprintf("%d streams each wrote one record with %s writing on, but the run directory holds only %d .%s files %v: streams share an output file",
				nw, strings.ToUpper(t.ext), len(onDisk[t.ext]), t.ext, onDisk[t.ext]), "file-name-shared"
		}
		if len(onDisk[t.ext]) != nw {
			return fmt.Sprintf("%d streams each wrote one record with %s writing on, but the run directory holds %d .%s files %v",
				nw, strings.ToUpper(t.ext), len(onDisk[t.ext]), t.ext, onDisk[t.ext]), "file-count"
		}
		for i := range names {
			if !writes(i, t) {
				continue
			}
			fn := fmt.Sprintf(pattern, names[i], t.ext)
			if _, err := os.Stat(fn); err != nil {
				return fmt.Sprintf("stream %d (%q) wrote a record with %s writing on, but there is no file %s; the run directory holds %v",
					i, names[i], strings.ToUpper(t.ext), filepath.Base(fn), onDisk[t.ext]), "file-not-named-for-stream"
			}
		}
	}

	type want struct {
		key  string
		want int
	}
	if mask&1 != 0 {
		for i := range names {
			fn := fmt.Sprintf(pattern, names[i], "ljh")
			f, err := vParseLJH22(fn)
			if err != nil {
				return fmt.Sprintf("stream %d: %v", i, err), "file-malformed"
			}
			rc := ds.rowColCodes[i]
			if got := f.header["channel name"]; got != names[i] {
				return fmt.Sprintf("%s: header Channel name %q, reported name of stream %d is %q", filepath.Base(fn), got, i, names[i]), "header-identity"
			}
			if got := f.header["data source"]; got != ds.name {
				return fmt.Sprintf("%s: header Data source %q, source is %q", filepath.Base(fn), got, ds.name), "header-identity"
			}
			for _, w := range []want{{"channel", ds.chanNumbers[i]}, {"channelindex", i}, {"number of rows", rc.rows()}, {"number of columns", rc.cols()},
				{"row number", rc.row()}, {"column number", rc.col()}, {"subframe divisions", ds.subframeDivisions}, {"subframe offset", ds.subframeOffsets[i]},
				{"number of channels", n}} {
				got, ok := v19HeaderInt(f.header, w.key)
				if !ok || got != w.want {
					return fmt.Sprintf("%s: header field %q is %d (present=%v), the source reports %d for stream %d (%q)", filepath.Base(fn), w.key, got, ok, w.want, i, names[i]), "header-identity"
				}
			}
			if len(f.records) != 1 || f.records[0].subframe != int64(tag*ds.subframeDivisions+ds.subframeOffsets[i]) || len(f.records[0].data) == 0 || int(f.records[0].data[0]) != 100*i {
				return fmt.Sprintf("%s: expected exactly the one record of stream %d (subframe count %d), file holds %d records", filepath.Base(fn), i, tag*ds.subframeDivisions+ds.subframeOffsets[i], len(f.records)), "file-wrong-record"
			}
		}
	}
	if mask&4 != 0 {
		for i := range names {
			if !hasProj[i] {
				continue
			}
			fn := fmt.Sprintf(pattern, names[i], "off")
			f, err := vParseOFF(fn)
			if err != nil {
				return fmt.Sprintf("stream %d: %v", i, err), "file-malformed"
			}
			rc := ds.rowColCodes[i]
			if got, ok := v19JSONString(f.header, "ChannelName"); !ok || got != names[i] {
				return fmt.Sprintf("%s: OFF header ChannelName %q (present=%v), reported name of stream %d is %q", filepath.Base(fn), got, ok, i, names[i]), "off-header-identity"
			}
			if got, ok := v19JSONString(f.header, "CreationInfo", "SourceName"); !ok || got != ds.name {
				return fmt.Sprintf("%s: OFF header CreationInfo.SourceName %q (present=%v), source is %q", filepath.Base(fn), got, ok, ds.name), "off-header-identity"
			}
			for _, w := range []struct {
				path []string
				want int
			}{{[]string{"ChannelIndex"}, i}, {[]string{"ChannelNumberMatchingName"}, ds.chanNumbers[i]},
				{[]string{"ReadoutInfo", "NumberOfRows"}, rc.rows()}, {[]string{"ReadoutInfo", "NumberOfColumns"}, rc.cols()},
				{[]string{"ReadoutInfo", "RowNum"}, rc.row()}, {[]string{"ReadoutInfo", "ColumnNum"}, rc.col()},
				{[]string{"ReadoutInfo", "NumberOfChans"}, n}, {[]string{"ReadoutInfo", "SubframeDivisions"}, ds.subframeDivisions},
				{[]string{"ReadoutInfo", "SubframeOffset"}, ds.subframeOffsets[i]}} {
				got, ok := vJSONInt(f.header, w.path...)
				if !ok || got != w.want {
					return fmt.Sprintf("%s: OFF header %s is %d (present=%v), the source reports %d for stream %d (%q)", filepath.Base(fn), strings.Join(w.path, "."), got, ok, w.want, i, names[i]), "off-header-identity"
				}
			}
			if len(f.records) != 1 || f.records[0].frame != tag || f.records[0].timestamp != stamp(i).UnixNano() || len(f.records[0].coefs) != 2 || f.records[0].coefs[0] != float32(100*i) {
				return fmt.Sprintf("%s: expected exactly the one record of stream %d (first coefficient %d), file holds %d records %+v", filepath.Base(fn), i, 100*i, len(f.records), f.records), "file-wrong-record"
			}
		}
	}
	if mask&2 != 0 {
		rowcol := ""
		for i := range names {
			fn := fmt.Sprintf(pattern, names[i], "ljh3")
			f, err := vParseLJH3(fn)
			if err != nil {
				return fmt.Sprintf("stream %d: %v", i, err), "file-malformed"
			}
			rc := ds.rowColCodes[i]
			for _, w := range []want{{"NumberOfRows", rc.rows()}, {"NumberOfColumns", rc.cols()}, {"SubframeDivisions", ds.subframeDivisions}, {"SubframeOffset", ds.subframeOffsets[i]}} {
				got, ok := vJSONInt(f.header, "TDM", w.key)
				if !ok || got != w.want {
					return fmt.Sprintf("%s: LJH3 header TDM.%s is %d (present=%v), the source reports %d for stream %d", filepath.Base(fn), w.key, got, ok, w.want, i), "ljh3-header-identity"
				}
			}
			if len(f.records) != 1 || f.records[0].frame != tag || len(f.records[0].data) == 0 || int(f.records[0].data[0]) != 100*i {
				return fmt.Sprintf("%s: expected exactly the one record of stream %d, file holds %d records", filepath.Base(fn), i, len(f.records)), "file-wrong-record"
			}
			row, ok1 := vJSONInt(f.header, "TDM", "Row")
			col, ok2 := vJSONInt(f.header, "TDM", "Column")
			if rowcol == "" && (!ok1 || !ok2 || row != rc.row() || col != rc.col()) {
				rowcol = fmt.Sprintf("%s: LJH3 header says TDM.Row=%d TDM.Column=%d, stream %d (%q) is row %d, column %d according to its row/column code",
					filepath.Base(fn), row, col, i, names[i], rc.row(), rc.col())
			}
		}
		if rowcol != "" { // reported last so that it cannot mask any other check
			return rowcol, "ljh3-header-row-column"
		}
	}
	return "", ""
}

func v19Outcome(kind string, ds *AnySource) string {
	return fmt.Sprintf("%s|names=%v|nums=%v|groups=%v", kind, ds.chanNames, ds.chanNumbers, ds.groupKeysSorted)
}

// ---------------------------------------------------------------------------------------------
// A. Lancero

type v19Card struct{ devnum, ncols, nrows int }

// v19Literal numbers the channels by the literal reading of the configuration comments: FirstRow is
// the number of the first row, ChanSepColumns the distance between the first rows of consecutive
// columns (0 = sequential), ChanSepCards the distance between cards (0 = sequential). byDevnum
// selects whether "card k" means the device number or the position in the active list.
func v19Literal(cards []v19Card, first, sepCols, sepCards int, byDevnum bool) (map[[3]int]int, bool) {
	nums := map[[3]int]int{}
	next := first
	for k, c := range cards {
		colsep := sepCols
		if colsep == 0 {
			colsep = c.nrows
		}
		base := next
		if sepCards != 0 {
			base = first + k*sepCards
			if byDevnum {
				base = first + c.devnum*sepCards
			}
		}
		for col := 0; col < c.ncols; col++ {
			for row := 0; row < c.nrows; row++ {
				v := base + col*colsep + row
				nums[[3]int{k, col, row}] = v
				if v+1 > next {
					next = v + 1
				}
			}
		}
	}
	seen := map[int]bool{}
	for _, v := range nums {
		if seen[v] {
			return nums, true
		}
		seen[v] = true
	}
	return nums, false
}

func v19LanceroReject(err error) string {
	s := err.Error()
	switch {
	case strings.Contains(s, "ChanSepCards=") && strings.Contains(s, "non-negative"):
		return "negative-sepcards"
	case strings.Contains(s, "chanSepColumns=") && strings.Contains(s, "non-negative"):
		return "negative-sepcols"
	case strings.Contains(s, "exceeds ChanSepColumns"):
		return "rows-exceed-sepcols"
	case strings.Contains(s, "exceeds ChanSepCards"):
		return "card-exceeds-sepcards"
	}
	return "other"
}

type v19LanceroCase struct {
	cards []v19Card
	first int
	// sampled: the cards are scripted lancero.Lanceroer values that stream frames of their geometry, and the
	// source gets its stream count and per-card geometry from the real Configure and Sample (family E);
	// otherwise the geometry is written into the devices and LanceroSource.nchan directly (family A)
	sampled bool
}

func (c v19LanceroCase) id() string {
	var s []string
	for _, k := range c.cards {
		s = append(s, fmt.Sprintf("%d:%dx%d", k.devnum, k.ncols, k.nrows))
	}
	if c.sampled {
		return fmt.Sprintf("lancero-sampled/cards=%s/first=%d", strings.Join(s, ","), c.first)
	}
	return fmt.Sprintf("lancero/cards=%s/first=%d", strings.Join(s, ","), c.first)
}

// v19SampCard is a scripted Lancero card for the sampling phase of a Start (sampleCard): between
// StartCollector and StopCollector it streams whole frames of ncols x nrows words (error, feedback; the
// frame bit set in the words of row 0), beginning one word into a frame, at 20 frames per second of the
// CARD's time stamps. sampleCard measures its 200 ms on those time stamps, not on the wall clock, so a
// session is 5 frames in three driver reads: an empty one (sampleCard ignores the data of its first read),
// one that ends two words after the second frame start, and the rest.
type v19SampCard struct {
	ncols, nrows int
	stream       []byte
	avail        []int
	call         int
	released     int
}

const v19SampFrameRate = 20 // frames per second of the card's time stamps
const v19SampFrames = 5     // frames per sampling session (250 ms)

func v19NewSampCard(ncols, nrows int) *v19SampCard {
	c := &v19SampCard{}
	c.setGeometry(ncols, nrows)
	return c
}

// setGeometry makes the SAME card object stream another geometry from the next sampling session on.
func (c *v19SampCard) setGeometry(ncols, nrows int) {
	c.ncols, c.nrows = ncols, nrows
	words := ncols * nrows
	c.stream = c.stream[:0]
	for w := 1; w <= v19SampFrames*words; w++ { // word w of the stream is word w%words of frame w/words
		f, r, col := w/words, (w%words)/ncols, (w%words)%ncols
		e := uint16(int16((f*31+r*7+col*3)%200 - 100))
		fb := uint16(0x1000 + (f*16+r*4+col)<<2)
		if r == 0 {
			fb |= 1
		}
		c.stream = append(c.stream, byte(e), byte(e>>8), byte(fb), byte(fb>>8))
	}
	fs := 4 * words
	c.avail = []int{0, 2*fs + 4, v19SampFrames * fs}
	c.call, c.released = 0, 0
}

// String keeps spew.Sdump(card) in sampleCard short.
func (c *v19SampCard) String() string { return fmt.Sprintf("v19SampCard(%dx%d)", c.ncols, c.nrows) }

func (c *v19SampCard) ChangeRingBuffer(int, int) error                { return nil }
func (c *v19SampCard) Close() error                                   { return nil }
func (c *v19SampCard) StartAdapter(int, int) error                    { return nil }
func (c *v19SampCard) StopAdapter() error                             { return nil }
func (c *v19SampCard) CollectorConfigure(int, int, uint32, int) error { return nil }
func (c *v19SampCard) StartCollector(bool) error                      { c.call, c.released = 0, 0; return nil }
func (c *v19SampCard) StopCollector() error                           { return nil }
func (c *v19SampCard) InspectAdapter() uint32                         { return 0 }
func (c *v19SampCard) Wait() (time.Time, time.Duration, error)        { return vT0, 0, nil }
func (c *v19SampCard) ReleaseBytes(n int) error {
	c.released += n
	return nil
}
func (c *v19SampCard) AvailableBuffer() ([]byte, time.Time, error) {
	if c.call >= len(c.avail) {
		// the session is over after 250 ms of card time; a sampler that still reads gets an error, not an endless loop
		return nil, time.Time{}, fmt.Errorf("scripted card: read %d of a sampling session of %d reads", c.call+1, len(c.avail))
	}
	a := c.avail[c.call]
	c.call++
	if a < c.released {
		a = c.released
	}
	fs := 4 * c.ncols * c.nrows
	t := vT0.Add(time.Duration(a) * (time.Second / v19SampFrameRate) / time.Duration(fs))
	return c.stream[c.released:a], t, nil
}

var _ lancero.Lanceroer = (*v19SampCard)(nil)

// v19Globals writes the cringeGlobals file of this process (number of rows = sequence length, the line period
// that goes with v19SampFrameRate, NSAMP 1) and points Configure at it; the returned function undoes that.
func v19Globals(seqln int) func() {
	saved := cringeGlobalsPath
	cringeGlobalsPath = filepath.Join(os.TempDir(), fmt.Sprintf("v19_cringeGlobals_%d.json", os.Getpid()))
	lsync := int(125e6/(v19SampFrameRate*float64(seqln)) + 0.5)
	globals := fmt.Sprintf(`{"SETT":1,"seqln":%d,"lsync":%d,"testpattern":0,"propagationdelay":1,"NSAMP":1,"carddelay":1,"XPT":0}`, seqln, lsync)
	if err := os.WriteFile(cringeGlobalsPath, []byte(globals), 0644); err != nil {
		panic(err)
	}
	path := cringeGlobalsPath
	return func() {
		os.Remove(path)
		cringeGlobalsPath = saved
	}
}

// v19SampledStart does on ls what Start does before PrepareChannels: the real Configure (active cards in the
// order of `cards`, separations, FirstRow; rows of every card = the sequence length in cringeGlobals = the rows
// of the first card) and the real Sample. The devices of ls must carry v19SampCard cards.
func v19SampledStart(x *vexp.X, ls *LanceroSource, cards []v19Card, first, sepCols, sepCards int) (step string, err error) {
	defer v19Globals(cards[0].nrows)()
	var active []int
	for _, c := range cards {
		active = append(active, c.devnum)
		ls.devices[c.devnum].card.(*v19SampCard).setGeometry(c.ncols, c.nrows)
	}
	x.Steps++
	if err := ls.Configure(&LanceroSourceConfig{FiberMask: 0xffff, CardDelay: []int{1}, ActiveCards: active,
		FirstRow: first, ChanSepColumns: sepCols, ChanSepCards: sepCards}); err != nil {
		return "Configure", err
	}
	x.Steps++
	if err := ls.Sample(); err != nil {
		return "Sample", err
	}
	return "", nil
}

// v19SampledSource is a LanceroSource as NewLanceroSource builds it on a machine with the given card numbers.
func v19SampledSource(devnums []int) *LanceroSource {
	ls := &LanceroSource{}
	ls.name = "Lancero"
	ls.nsamp = 1
	ls.channelsPerPixel = 2
	ls.devices = map[int]*LanceroDevice{}
	for _, d := range devnums {
		ls.devices[d] = &LanceroDevice{devnum: d, card: v19NewSampCard(1, 2)}
		ls.ncards++
	}
	return ls
}

// v19SampledPrepareChannels runs the real PrepareChannels on a source that the real Sample has just accepted.
// A configuration that PrepareChannels rejects is rejected by Start, and nothing is demanded of it. Otherwise the
// number of data streams Sample reported must be the number the active cards deliver: PrepareChannels sizes the
// identity tables by that count and fills them by walking the cards' geometry, so too small a count makes it
// panic (reported as what it is: a wrong stream count), too large a count leaves nameless streams behind.
func v19SampledPrepareChannels(ls *LanceroSource, nstreams int) (err error) {
	defer func() {
		e := recover()
		if e == nil && err != nil {
			return // rejected
		}
		if ls.Nchan() != nstreams {
			msg := fmt.Sprintf("Sample accepted the cards and reports %d data streams, but the active cards deliver %d (2 per column and row of every card)", ls.Nchan(), nstreams)
			if e != nil {
				msg += fmt.Sprintf("; PrepareChannels panics: %v", e)
			}
			err = v19PrepViolation{class: "lancero-sampled-stream-count", msg: msg}
		} else if e != nil {
			class, text := vexp.PanicInfo(e)
			err = v19PrepViolation{class: class, msg: "PrepareChannels: " + text}
		}
	}()
	return ls.PrepareChannels()
}

func v19StreamsOf(cards []v19Card) int {
	n := 0
	for _, c := range cards {
		n += 2 * c.ncols * c.nrows
	}
	return n
}

func v19LanceroBody(r *vexp.Runner, lc v19LanceroCase, fileLimit int) func(x *vexp.X) vexp.Result {
	return func(x *vexp.X) vexp.Result {
		maxRows, nstreams := 0, 0
		for _, c := range lc.cards {
			if c.nrows > maxRows {
				maxRows = c.nrows
			}
			nstreams += 2 * c.ncols * c.nrows
		}
		sepCols := []int{-1, 0, maxRows - 1, maxRows, maxRows + 3}[x.Choose(5)]
		span := 0 // channel numbers one card needs
		for _, c := range lc.cards {
			cs := c.nrows
			if sepCols > 0 {
				cs = sepCols
			}
			if cs*c.ncols > span {
				span = cs * c.ncols
			}
		}
		sepCards := []int{-1, 0, span - 1, span, span + 10}[x.Choose(5)]
		x.Logf("Lancero cards (devnum:cols x rows) %s ; FirstRow=%d ChanSepColumns=%d ChanSepCards=%d", lc.id(), lc.first, sepCols, sepCards)

		var ls *LanceroSource
		if lc.sampled {
			var devnums []int
			for _, c := range lc.cards {
				devnums = append(devnums, c.devnum)
			}
			ls = v19SampledSource(devnums)
			if step, err := v19SampledStart(x, ls, lc.cards, lc.first, sepCols, sepCards); err != nil {
				x.Logf("%s rejects: %v", step, err)
				return vexp.Result{Outcome: "lancero-sampled|rejected-by-" + step}
			}
			x.Logf("Configure and Sample accept: Nchan()=%d, sample rate %g", ls.Nchan(), ls.sampleRate)
		} else {
			ls = &LanceroSource{}
			ls.name = "Lancero"
			ls.sampleRate = 1000
			ls.samplePeriod = vPeriod
			ls.nchan = nstreams
			for _, c := range lc.cards {
				ls.active = append(ls.active, &LanceroDevice{devnum: c.devnum, ncols: c.ncols, nrows: c.nrows})
			}
			ls.firstRowChanNum, ls.chanSepColumns, ls.chanSepCards = lc.first, sepCols, sepCards
		}
		_, collideDev := v19Literal(lc.cards, lc.first, sepCols, sepCards, true)
		litPos, collidePos := v19Literal(lc.cards, lc.first, sepCols, sepCards, false)
		x.Steps++
		var err error
		if lc.sampled {
			err = v19SampledPrepareChannels(ls, nstreams)
			if pv, ok := err.(v19PrepViolation); ok {
				return vexp.Result{Nontrivial: true, Class: pv.class, Violation: lc.id() + fmt.Sprintf(" sepCols=%d sepCards=%d: ", sepCols, sepCards) + pv.msg}
			}
		} else {
			err = ls.PrepareChannels()
		}
		if err != nil {
			x.Logf("PrepareChannels rejects: %v (literal scheme collides: by device number %v, by position %v)", err, collideDev, collidePos)
			if !collideDev && !collidePos && sepCols >= 0 && sepCards >= 0 {
				r.Count("lancero_rejected_although_literal_scheme_is_collision_free", 1)
			}
			if lc.sampled {
				return vexp.Result{Outcome: "lancero-sampled|rejected:" + v19LanceroReject(err)}
			}
			return vexp.Result{Outcome: "lancero|rejected:" + v19LanceroReject(err)}
		}
		x.Logf("PrepareChannels accepts")
		res := vexp.Result{Nontrivial: nstreams >= 2}
		x.Steps++
		if err := ls.PrepareRun(v19npre, v19nsamp); err != nil {
			res.Violation, res.Class = "PrepareRun failed after PrepareChannels accepted: "+err.Error(), "preparerun-error"
			return res
		}
		ds := &ls.AnySource
		defer v19Close(ds)
		pub := v19Private(ds)
		var truth []v19Truth
		for k, c := range lc.cards {
			for col := 0; col < c.ncols; col++ {
				for row := 0; row < c.nrows; row++ {
					t := v19Truth{pixel: [3]int{k, col, row}, row: row, col: col, rows: c.nrows, cols: c.ncols}
					t.prefix = "err"
					truth = append(truth, t)
					t.prefix = "chan"
					truth = append(truth, t)
				}
			}
		}
		res.Outcome = v19Outcome("lancero", ds)
		if lc.sampled {
			res.Outcome = v19Outcome("lancero-sampled", ds)
		}
		if v, c := v19Identity(x, ds, truth); v != "" {
			res.Violation, res.Class = lc.id()+fmt.Sprintf(" sepCols=%d sepCards=%d: ", sepCols, sepCards)+v, "lancero-"+c
			return res
		}
		// the converse clause: what was accepted must not collide under the literal reading either
		if collideDev || collidePos {
			res.Violation = fmt.Sprintf("%s sepCols=%d sepCards=%d was accepted, but numbering rows from FirstRow with these separations makes two (card,col,row) share a number (by device number: %v, by position: %v)",
				lc.id(), sepCols, sepCards, collideDev, collidePos)
			res.Class = "lancero-colliding-separations-accepted"
			return res
		}
		// observations that are not part of the property (counted in the evidence only)
		same := true
		for i, t := range truth {
			if litPos[t.pixel] != ds.chanNumbers[i] {
				same = false
			}
		}
		if !same {
			r.Count("lancero_numbers_differ_from_position_based_literal_scheme", 1)
		}
		if !sort.SliceIsSorted(ds.groupKeysSorted, func(i, j int) bool { return ds.groupKeysSorted[i].Firstchan < ds.groupKeysSorted[j].Firstchan }) {
			r.Count("lancero_groups_not_sorted", 1)
		}
		for i, t := range truth {
			if ds.subframeOffsets[i] != t.row {
				r.Count("lancero_subframe_offset_differs_from_row", 1)
				x.Logf("   note: stream %d (%s) is row %d but has subframe offset %d", i, ds.chanNames[i], t.row, ds.subframeOffsets[i])
				break
			}
		}
		if nstreams <= fileLimit {
			mask, projSel := 7, 0 // sampled: all three file types at once (the file-type sets are enumerated by family A on the same tables)
			if !lc.sampled {
				mask, projSel = v19ChooseFiles(x, nstreams)
			}
			if v, c := v19Files(x, ds, pub, mask, projSel); v != "" {
				res.Violation, res.Class = lc.id()+fmt.Sprintf(" sepCols=%d sepCards=%d: ", sepCols, sepCards)+v, c
				return res
			}
			r.Count("executions_with_files", 1)
		}
		if lc.sampled {
			r.Count("executions_lancero_sampled_accepted", 1)
		}
		return res
	}
}

// ---------------------------------------------------------------------------------------------
// B. Abaco

type v19Producer struct{ pk []*packets.Packet }

func (p *v19Producer) ReadAllPackets() ([]*packets.Packet, error)             { return nil, nil }
func (p *v19Producer) samplePackets(time.Duration) ([]*packets.Packet, error) { return p.pk, nil }
func (p *v19Producer) start() error                                           { return nil }
func (p *v19Producer) discardStale() error                                    { return nil }
func (p *v19Producer) stop() error                                            { return nil }

// v19Packets interleaves 3 packets of 4 frames per group; 4000 ticks of a 1 GHz clock apart, so every
// group measures exactly the same sample rate (1 MHz).
func v19Packets(groups []GroupIndex) []*packets.Packet {
	var out []*packets.Packet
	const frames = 4
	for k := 0; k < 3; k++ {
		for gi, g := range groups {
			p := packets.NewPacket(10, 20, uint32(100*(gi+1)+k), g.Firstchan)
			if err := p.NewData(make([]int16, frames*g.Nchan), []int16{int16(g.Nchan)}); err != nil {
				panic(err)
			}
			p.SetTimestamp(packets.MakeTimestamp(0, uint32(1000+k*frames*1000), 1e9))
			out = append(out, p)
		}
	}
	return out
}

func v19Overlap(gs []GroupIndex) bool {
	for i := range gs {
		for j := i + 1; j < len(gs); j++ {
			if gs[i].Firstchan < gs[j].Firstchan+gs[j].Nchan && gs[j].Firstchan < gs[i].Firstchan+gs[i].Nchan {
				return true
			}
		}
	}
	return false
}

func v19AbacoRun(r *vexp.Runner, x *vexp.X, layout []GroupIndex, split int, fileLimit int) vexp.Result {
	if split >= len(layout) {
		x.Logf("Abaco groups (Firstchan,Nchan) in arrival order %v on a single producer", layout)
	} else {
		x.Logf("Abaco groups (Firstchan,Nchan) in arrival order %v ; first %d group(s) on producer 0, the rest on producer 1", layout, split)
	}
	as := v19AbacoNew()
	as.producers = v19AbacoProducers(layout, split)
	nstreams := 0
	for _, g := range layout {
		nstreams += g.Nchan
	}
	overlap := v19Overlap(layout)
	x.Steps++
	if err := as.Sample(); err != nil {
		x.Logf("Sample rejects: %v", err)
		if !overlap {
			return vexp.Result{Outcome: "abaco|rejected-without-overlap"}
		}
		return vexp.Result{Outcome: "abaco|rejected:overlap"}
	}
	res := vexp.Result{Nontrivial: nstreams >= 2}
	x.Steps++
	if err := as.PrepareChannels(); err != nil {
		x.Logf("PrepareChannels rejects: %v", err)
		return vexp.Result{Outcome: "abaco|rejected-by-PrepareChannels"}
	}
	x.Logf("Sample and PrepareChannels accept (sample rate %g)", as.sampleRate)
	x.Steps++
	if err := as.PrepareRun(v19npre, v19nsamp); err != nil {
		res.Violation, res.Class = "PrepareRun failed after the layout was accepted: "+err.Error(), "preparerun-error"
		return res
	}
	ds := &as.AnySource
	defer v19Close(ds)
	pub := v19Private(ds)
	res.Outcome = v19Outcome("abaco", ds)
	if overlap {
		res.Violation = fmt.Sprintf("Abaco layout %v has overlapping channel groups but was accepted", layout)
		res.Class = "abaco-overlapping-groups-accepted"
		return res
	}
	sorted := append([]GroupIndex{}, layout...)
	sort.Slice(sorted, func(i, j int) bool { return sorted[i].Firstchan < sorted[j].Firstchan })
	truth := v19AbacoTruth(layout)
	if v, c := v19Identity(x, ds, truth); v != "" {
		res.Violation, res.Class = fmt.Sprintf("Abaco layout %v split %d: ", layout, split)+v, "abaco-"+c
		return res
	}
	// numbers are Firstchan+row, groups are the layout
	i := 0
	for _, g := range sorted {
		for row := 0; row < g.Nchan; row++ {
			if ds.chanNumbers[i] != g.Firstchan+row {
				res.Violation = fmt.Sprintf("Abaco layout %v: stream %d is channel %d of group %v but has number %d", layout, i, row, g, ds.chanNumbers[i])
				res.Class = "abaco-number-not-firstchan-plus-row"
				return res
			}
			i++
		}
	}
	if fmt.Sprint(ds.ChanGroups()) != fmt.Sprint(sorted) {
		res.Violation = fmt.Sprintf("Abaco layout %v: reported groups %v, expected %v", layout, ds.ChanGroups(), sorted)
		res.Class = "abaco-groups-differ-from-layout"
		return res
	}
	if nstreams <= fileLimit {
		mask, projSel := v19ChooseFiles(x, nstreams)
		if v, c := v19Files(x, ds, pub, mask, projSel); v != "" {
			res.Violation, res.Class = fmt.Sprintf("Abaco layout %v: ", layout)+v, c
			return res
		}
		r.Count("executions_with_files", 1)
	}
	return res
}

// ---------------------------------------------------------------------------------------------
// C. simple sources

func v19SimpleRun(r *vexp.Runner, x *vexp.X, kind string, nchan int) vexp.Result {
	var ds *AnySource
	x.Logf("%s source with %d channels", kind, nchan)
	fail := func(step string, err error) vexp.Result {
		return vexp.Result{Violation: fmt.Sprintf("%s source with %d channels: %s failed: %v", kind, nchan, step, err), Class: "simple-source-rejected"}
	}
	switch kind {
	case "any":
		s := vNewSource(nchan, v19npre, v19nsamp)
		ds = s.ds
		x.Steps += 2
	case "triangle":
		ts := NewTriangleSource()
		if err := ts.Configure(&TriangleSourceConfig{Nchan: nchan, SampleRate: 10000, Min: 100, Max: 200}); err != nil {
			return fail("Configure", err)
		}
		if err := ts.Sample(); err != nil {
			return fail("Sample", err)
		}
		if err := ts.PrepareChannels(); err != nil {
			return fail("PrepareChannels", err)
		}
		if err := ts.PrepareRun(v19npre, v19nsamp); err != nil {
			return fail("PrepareRun", err)
		}
		ds = &ts.AnySource
		x.Steps += 4
	case "simpulse":
		ps := NewSimPulseSource()
		if err := ps.Configure(&SimPulseSourceConfig{Nchan: nchan, SampleRate: 10000, Pedestal: 1000, Amplitudes: []float64{3000, 5000}, Nsamp: 100}); err != nil {
			return fail("Configure", err)
		}
		if err := ps.Sample(); err != nil {
			return fail("Sample", err)
		}
		if err := ps.PrepareChannels(); err != nil {
			return fail("PrepareChannels", err)
		}
		if err := ps.PrepareRun(v19npre, v19nsamp); err != nil {
			return fail("PrepareRun", err)
		}
		ds = &ps.AnySource
		x.Steps += 4
	case "roach":
		// RoachSource.Sample reads a UDP packet; the channel count is set directly instead.
		rs, _ := NewRoachSource()
		rs.nchan = nchan
		rs.sampleRate = 10000
		rs.samplePeriod = 100 * time.Microsecond
		if err := rs.PrepareChannels(); err != nil {
			return fail("PrepareChannels", err)
		}
		if err := rs.PrepareRun(v19npre, v19nsamp); err != nil {
			return fail("PrepareRun", err)
		}
		ds = &rs.AnySource
		x.Steps += 2
	}
	defer v19Close(ds)
	pub := v19Private(ds)
	res := vexp.Result{Nontrivial: nchan >= 2, Outcome: v19Outcome(kind, ds)}
	var truth []v19Truth
	for i := 0; i < nchan; i++ {
		truth = append(truth, v19Truth{pixel: [3]int{0, 0, i}, prefix: "chan", rows: -1})
	}
	if v, c := v19Identity(x, ds, truth); v != "" {
		res.Violation, res.Class = fmt.Sprintf("%s source with %d channels: ", kind, nchan)+v, kind+"-"+c
		return res
	}
	mask, projSel := v19ChooseFiles(x, nchan)
	if v, c := v19Files(x, ds, pub, mask, projSel); v != "" {
		res.Violation, res.Class = fmt.Sprintf("%s source with %d channels: ", kind, nchan)+v, c
		return res
	}
	r.Count("executions_with_files", 1)
	return res
}

// ---------------------------------------------------------------------------------------------
// D. prepared twice: the same source object goes through its preparation for configuration A and,
// without any Stop in between (the run ended on its own, or the Start failed after PrepareChannels),
// again for configuration B. What it reports afterwards must be what a fresh object prepared with B
// alone reports, and must pass every oracle of the single-preparation families.

// v19Prep is one source object of some type together with the way the harness configures it.
type v19Prep interface {
	// apply puts configuration cfg (an index into the family's menu) on this object and drives the
	// real preparation up to and including PrepareChannels; an error means the configuration was rejected.
	apply(x *vexp.X, cfg int) error
	source() *AnySource
	truth(cfg int) []v19Truth
}

// v19PrepViolation is returned by an apply that saw the property violated before PrepareChannels could run.
type v19PrepViolation struct{ class, msg string }

func (v v19PrepViolation) Error() string { return v.msg }

type v19Twicer struct {
	kind  string
	menu  []string // labels of the configuration menu
	fresh func() v19Prep
}

// v19Snapshot lists everything about channel identity that a prepared source reports.
func v19Snapshot(ds *AnySource) [][2]string {
	var rc []string
	for _, c := range ds.rowColCodes {
		rc = append(rc, fmt.Sprintf("r%d/%d,c%d/%d", c.row(), c.rows(), c.col(), c.cols()))
	}
	var procs []string
	for _, dsp := range ds.processors {
		procs = append(procs, fmt.Sprintf("%d:%s:%d", dsp.channelIndex, dsp.Name, dsp.ChannelNumber))
	}
	return [][2]string{
		{"Nchan()", fmt.Sprint(ds.Nchan())},
		{"ChannelNames()", fmt.Sprint(ds.ChannelNames())},
		{"channel numbers", fmt.Sprint(ds.chanNumbers)},
		{"ChanGroups()", fmt.Sprint(ds.ChanGroups())},
		{"row/column codes", fmt.Sprint(rc)},
		{"subframe offsets", fmt.Sprint(ds.subframeOffsets)},
		{"channels per pixel", fmt.Sprint(ds.channelsPerPixel)},
		{"processors (index:name:number)", fmt.Sprint(procs)},
	}
}

func v19TwiceRun(r *vexp.Runner, x *vexp.X, tw v19Twicer, a, b int, fileLimit int) vexp.Result {
	what := fmt.Sprintf("%s source prepared for A=%s and then, without Stop, for B=%s", tw.kind, tw.menu[a], tw.menu[b])
	x.Logf("%s", what)
	obj := tw.fresh()
	errA := obj.apply(x, a)
	ranA := false
	if errA != nil {
		x.Logf("preparation A is rejected: %v", errA)
	} else if x.Choose(2) == 1 {
		// the first preparation went on into a run that ended on its own (no Stop)
		x.Steps++
		if err := obj.source().PrepareRun(v19npre, v19nsamp); err != nil {
			return vexp.Result{Violation: what + ": PrepareRun after preparation A failed: " + err.Error(), Class: "preparerun-error"}
		}
		v19Close(obj.source())
		ranA = true
		x.Logf("preparation A accepted, PrepareRun done, the run ends without Stop; groups now %v", obj.source().ChanGroups())
	} else {
		x.Logf("preparation A accepted, the Start fails after PrepareChannels; groups now %v", obj.source().ChanGroups())
	}
	if pv, ok := errA.(v19PrepViolation); ok {
		return vexp.Result{Violation: what + ": preparation A: " + pv.msg, Class: pv.class}
	}
	errB := obj.apply(x, b)
	if pv, ok := errB.(v19PrepViolation); ok {
		return vexp.Result{Violation: what + ": preparation B: " + pv.msg, Class: pv.class}
	}
	ref := tw.fresh()
	errF := ref.apply(x, b)
	if pv, ok := errF.(v19PrepViolation); ok {
		return vexp.Result{Violation: what + ": a fresh object prepared with B alone: " + pv.msg, Class: pv.class}
	}
	if (errB == nil) != (errF == nil) {
		return vexp.Result{Violation: fmt.Sprintf("%s: the second preparation gives error %v, a fresh object prepared with B alone gives error %v", what, errB, errF),
			Class: tw.kind + "-prepare-twice-differs-from-fresh"}
	}
	if errB != nil {
		x.Logf("preparation B is rejected, as on a fresh object: %v", errB)
		return vexp.Result{Outcome: "twice-" + tw.kind + "|rejected"}
	}
	ds, fs := obj.source(), ref.source()
	truth := obj.truth(b)
	res := vexp.Result{Nontrivial: errA == nil && a != b && len(truth) >= 2}
	x.Steps += 2
	if err := ds.PrepareRun(v19npre, v19nsamp); err != nil {
		res.Violation, res.Class = what+": PrepareRun failed after the second preparation was accepted: "+err.Error(), "preparerun-error"
		return res
	}
	defer v19Close(ds)
	pub := v19Private(ds)
	if err := fs.PrepareRun(v19npre, v19nsamp); err != nil {
		res.Violation, res.Class = what+": PrepareRun failed on the fresh object: "+err.Error(), "preparerun-error"
		return res
	}
	defer v19Close(fs)
	res.Outcome = v19Outcome("twice-"+tw.kind, ds)
	got, want := v19Snapshot(ds), v19Snapshot(fs)
	for i := range want {
		x.Logf("   %-32s twice: %s", want[i][0], got[i][1])
		if got[i][1] != want[i][1] {
			x.Logf("   %-32s fresh: %s", want[i][0], want[i][1])
			res.Violation = fmt.Sprintf("%s (first preparation ran PrepareRun: %v): %s is %s, a fresh object prepared with B alone reports %s", what, ranA, want[i][0], got[i][1], want[i][1])
			res.Class = tw.kind + "-prepare-twice-differs-from-fresh"
			return res
		}
	}
	if ds.subframeDivisions != fs.subframeDivisions {
		// subframe timing is not part of C19 (see the assumptions); counted only
		r.Count("twice_"+tw.kind+"_subframe_divisions_differ_from_fresh", 1)
		x.Logf("   note: subframe divisions %d, fresh object %d", ds.subframeDivisions, fs.subframeDivisions)
	}
	if v, c := v19Identity(x, ds, truth); v != "" {
		res.Violation, res.Class = what+": "+v, tw.kind+"-twice-"+c
		return res
	}
	if len(truth) <= fileLimit {
		if v, c := v19Files(x, ds, pub, 7, 0); v != "" {
			res.Violation, res.Class = what+": "+v, "twice-"+c
			return res
		}
		r.Count("executions_with_files", 1)
	}
	r.Count("executions_prepared_twice", 1)
	return res
}

// Lancero

type v19LanceroCfg struct {
	cards                    []v19Card
	first, sepCols, sepCards int
}

type v19LanceroPrep struct {
	ls   *LanceroSource
	menu []v19LanceroCfg
}

func (p *v19LanceroPrep) source() *AnySource { return &p.ls.AnySource }
func (p *v19LanceroPrep) apply(x *vexp.X, cfg int) error {
	c := p.menu[cfg]
	ls := p.ls
	ls.nchan = 0
	ls.active = nil
	for _, k := range c.cards {
		ls.active = append(ls.active, &LanceroDevice{devnum: k.devnum, ncols: k.ncols, nrows: k.nrows})
		ls.nchan += 2 * k.ncols * k.nrows
	}
	ls.firstRowChanNum, ls.chanSepColumns, ls.chanSepCards = c.first, c.sepCols, c.sepCards
	x.Steps++
	return ls.PrepareChannels()
}
func (p *v19LanceroPrep) truth(cfg int) []v19Truth {
	var truth []v19Truth
	for k, c := range p.menu[cfg].cards {
		for col := 0; col < c.ncols; col++ {
			for row := 0; row < c.nrows; row++ {
				t := v19Truth{pixel: [3]int{k, col, row}, row: row, col: col, rows: c.nrows, cols: c.ncols}
				t.prefix = "err"
				truth = append(truth, t)
				t.prefix = "chan"
				truth = append(truth, t)
			}
		}
	}
	return truth
}

func v19LanceroTwicer() v19Twicer {
	var menu []v19LanceroCfg
	var labels []string
	for gi, cards := range [][]v19Card{{{0, 1, 2}}, {{0, 2, 3}}, {{0, 1, 2}, {1, 1, 2}}, {{1, 2, 2}, {3, 2, 3}}} {
		maxRows, sum := 0, 0
		for _, c := range cards {
			if c.nrows > maxRows {
				maxRows = c.nrows
			}
			sum += c.ncols * c.nrows
		}
		first := []int{0, 1, 7, 0}[gi]
		// (ChanSepColumns, ChanSepCards): sequential, column-separated, both separated, card-separated, two rejected ones
		for _, sp := range [][2]int{{0, 0}, {maxRows, 0}, {maxRows + 3, (maxRows+3)*cards[0].ncols + 10}, {0, sum}, {maxRows - 1, 0}, {0, 1}} {
			c := v19LanceroCfg{cards: cards, first: first, sepCols: sp[0], sepCards: sp[1]}
			menu = append(menu, c)
			labels = append(labels, fmt.Sprintf("[%s sepCols=%d sepCards=%d]", strings.TrimPrefix(v19LanceroCase{cards: cards, first: first}.id(), "lancero/"), sp[0], sp[1]))
		}
	}
	return v19Twicer{kind: "lancero", menu: labels, fresh: func() v19Prep {
		ls := &LanceroSource{}
		ls.name = "Lancero"
		ls.sampleRate = 1000
		ls.samplePeriod = vPeriod
		return &v19LanceroPrep{ls: ls, menu: menu}
	}}
}

// Lancero, sampled: every preparation is the real Configure + Sample (scripted cards) + PrepareChannels

type v19LanceroSampledPrep struct {
	ls   *LanceroSource
	menu []v19LanceroCfg
}

func (p *v19LanceroSampledPrep) source() *AnySource { return &p.ls.AnySource }
func (p *v19LanceroSampledPrep) apply(x *vexp.X, cfg int) error {
	c := p.menu[cfg]
	if _, err := v19SampledStart(x, p.ls, c.cards, c.first, c.sepCols, c.sepCards); err != nil {
		return err
	}
	x.Steps++
	return v19SampledPrepareChannels(p.ls, v19StreamsOf(c.cards))
}
func (p *v19LanceroSampledPrep) truth(cfg int) []v19Truth {
	return (&v19LanceroPrep{menu: p.menu}).truth(cfg)
}

func v19LanceroSampledTwicer() v19Twicer {
	var menu []v19LanceroCfg
	var labels []string
	for gi, cards := range [][]v19Card{{{0, 1, 2}}, {{0, 2, 3}}, {{0, 1, 2}, {1, 2, 2}}, {{1, 2, 3}, {3, 1, 3}}, {{2, 2, 2}, {0, 1, 2}, {1, 3, 2}}} {
		maxCols := 0
		for _, c := range cards {
			if c.ncols > maxCols {
				maxCols = c.ncols
			}
		}
		rows := cards[0].nrows
		first := []int{0, 1, 7, 0, 1}[gi]
		// (ChanSepColumns, ChanSepCards): sequential, both separated
		for _, sp := range [][2]int{{0, 0}, {rows + 3, (rows+3)*maxCols + 10}} {
			c := v19LanceroCfg{cards: cards, first: first, sepCols: sp[0], sepCards: sp[1]}
			menu = append(menu, c)
			labels = append(labels, fmt.Sprintf("[%s sepCols=%d sepCards=%d]", strings.TrimPrefix(v19LanceroCase{cards: cards, first: first}.id(), "lancero/"), sp[0], sp[1]))
		}
	}
	return v19Twicer{kind: "lancero-sampled", menu: labels, fresh: func() v19Prep {
		return &v19LanceroSampledPrep{ls: v19SampledSource([]int{0, 1, 2, 3}), menu: menu}
	}}
}

// Abaco

type v19AbacoCfg struct {
	layout []GroupIndex
	split  int
}

type v19AbacoPrep struct {
	as   *AbacoSource
	menu []v19AbacoCfg
}

func v19AbacoNew() *AbacoSource {
	as, err := NewAbacoSource()
	if err != nil || as == nil {
		as = new(AbacoSource)
		as.name = "Abaco"
		as.subframeDivisions = abacoSubframeDivisions
	}
	return as
}

func v19AbacoProducers(layout []GroupIndex, split int) []PacketProducer {
	if split >= len(layout) {
		return []PacketProducer{&v19Producer{pk: v19Packets(layout)}}
	}
	return []PacketProducer{&v19Producer{pk: v19Packets(layout[:split])}, &v19Producer{pk: v19Packets(layout[split:])}}
}

func v19AbacoTruth(layout []GroupIndex) []v19Truth {
	sorted := append([]GroupIndex{}, layout...)
	sort.Slice(sorted, func(i, j int) bool { return sorted[i].Firstchan < sorted[j].Firstchan })
	var truth []v19Truth
	for col, g := range sorted {
		for row := 0; row < g.Nchan; row++ {
			truth = append(truth, v19Truth{pixel: [3]int{col, 0, row}, prefix: "chan", row: row, col: col, rows: g.Nchan, cols: len(sorted)})
		}
	}
	return truth
}

func (p *v19AbacoPrep) source() *AnySource { return &p.as.AnySource }
func (p *v19AbacoPrep) apply(x *vexp.X, cfg int) error {
	c := p.menu[cfg]
	p.as.producers = v19AbacoProducers(c.layout, c.split)
	x.Steps++
	if err := p.as.Sample(); err != nil {
		return err
	}
	x.Steps++
	return p.as.PrepareChannels()
}
func (p *v19AbacoPrep) truth(cfg int) []v19Truth { return v19AbacoTruth(p.menu[cfg].layout) }

func v19AbacoTwicer() v19Twicer {
	menu := []v19AbacoCfg{
		{[]GroupIndex{{0, 1}}, 1},
		{[]GroupIndex{{0, 3}}, 1},
		{[]GroupIndex{{2, 2}}, 1},
		{[]GroupIndex{{0, 2}, {2, 2}}, 2},
		{[]GroupIndex{{4, 1}, {0, 3}}, 1},
		{[]GroupIndex{{0, 1}, {2, 1}, {6, 3}}, 2},
		{[]GroupIndex{{0, 3}, {2, 2}}, 2}, // overlapping: rejected
		{[]GroupIndex{{1, 2}, {4, 3}}, 1},
		{[]GroupIndex{{6, 3}, {0, 1}}, 2},
	}
	var labels []string
	for _, c := range menu {
		l := fmt.Sprintf("[groups %v on one producer]", c.layout)
		if c.split < len(c.layout) {
			l = fmt.Sprintf("[groups %v, the first %d on producer 0, the rest on producer 1]", c.layout, c.split)
		}
		labels = append(labels, l)
	}
	return v19Twicer{kind: "abaco", menu: labels, fresh: func() v19Prep { return &v19AbacoPrep{as: v19AbacoNew(), menu: menu} }}
}

// generic / Triangle / SimPulse / Roach

type v19SimplePrep struct {
	kind string
	menu [][]int // channel counts (Roach: per device)
	any  *AnySource
	ts   *TriangleSource
	ps   *SimPulseSource
	rs   *RoachSource
}

func (p *v19SimplePrep) total(cfg int) int {
	n := 0
	for _, k := range p.menu[cfg] {
		n += k
	}
	return n
}
func (p *v19SimplePrep) source() *AnySource {
	switch p.kind {
	case "triangle":
		return &p.ts.AnySource
	case "simpulse":
		return &p.ps.AnySource
	case "roach":
		return &p.rs.AnySource
	}
	return p.any
}
func (p *v19SimplePrep) apply(x *vexp.X, cfg int) error {
	nchan := p.total(cfg)
	switch p.kind {
	case "triangle":
		x.Steps += 3
		if err := p.ts.Configure(&TriangleSourceConfig{Nchan: nchan, SampleRate: 10000, Min: 100, Max: 200}); err != nil {
			return err
		}
		if err := p.ts.Sample(); err != nil {
			return err
		}
		return p.ts.PrepareChannels()
	case "simpulse":
		x.Steps += 3
		if err := p.ps.Configure(&SimPulseSourceConfig{Nchan: nchan, SampleRate: 10000, Pedestal: 1000, Amplitudes: []float64{3000, 5000}, Nsamp: 100}); err != nil {
			return err
		}
		if err := p.ps.Sample(); err != nil {
			return err
		}
		return p.ps.PrepareChannels()
	case "roach":
		// what RoachSource.Sample does, minus reading one UDP packet per device
		p.rs.active = nil
		p.rs.nchan = 0
		for _, k := range p.menu[cfg] {
			p.rs.active = append(p.rs.active, &RoachDevice{nchan: k})
			p.rs.nchan += k
		}
		p.rs.sampleRate = 10000
		p.rs.samplePeriod = 100 * time.Microsecond
		x.Steps++
		return p.rs.PrepareChannels()
	}
	p.any.nchan = nchan
	x.Steps++
	if err := p.any.PrepareChannels(); err != nil {
		return err
	}
	// AnySource.PrepareChannels leaves the row/column codes to the concrete source (as vNewSource does)
	p.any.rowColCodes = make([]RowColCode, nchan)
	for i := range p.any.rowColCodes {
		p.any.rowColCodes[i] = rcCode(0, i, 1, nchan)
	}
	return nil
}
func (p *v19SimplePrep) truth(cfg int) []v19Truth {
	var truth []v19Truth
	for i := 0; i < p.total(cfg); i++ {
		truth = append(truth, v19Truth{pixel: [3]int{0, 0, i}, prefix: "chan", rows: -1})
	}
	return truth
}

func v19SimpleTwicer(kind string) v19Twicer {
	menu := [][]int{{1}, {2}, {3}, {4}}
	if kind == "roach" {
		menu = append(menu, []int{1, 2}, []int{2, 2}, []int{3, 1})
	}
	var labels []string
	for _, m := range menu {
		if kind == "roach" {
			labels = append(labels, fmt.Sprintf("[devices with %v channels]", m))
		} else {
			labels = append(labels, fmt.Sprintf("[%d channels]", m[0]))
		}
	}
	return v19Twicer{kind: kind, menu: labels, fresh: func() v19Prep {
		p := &v19SimplePrep{kind: kind, menu: menu}
		switch kind {
		case "triangle":
			p.ts = NewTriangleSource()
		case "simpulse":
			p.ps = NewSimPulseSource()
		case "roach":
			p.rs, _ = NewRoachSource()
		default:
			p.any = &AnySource{name: "verif", sampleRate: 1000.0, samplePeriod: vPeriod}
		}
		return p
	}}
}

// ---------------------------------------------------------------------------------------------
// F. through the RPC layer: what the clients are told. One SourceControl (as RunRPCServer builds it) is asked to
// configure and Start source A, then Stop, then configure and Start source B (any source type, any configuration of
// the menu, so the channel count may or may not change while the numbering does). After each Start that succeeded,
// while the source runs, the last STATUS message (Nchannels, ChanGroups), the last CHANNELNAMES message and the
// channel groups stored in ~/.dastard/channels.json must describe the source that is running now: every
// single-preparation oracle on the active source, Nchannels = number of streams, the reported groups cover exactly
// the channel numbers in use, the names are those of the processors.

type v19RPCItem struct {
	label string
	kind  string // lancero, triangle, simpulse
	card  int    // lancero: the active card
	first int
	sep   int // ChanSepColumns
	nchan int // triangle, simpulse
}

const v19RPCRows = 4

var v19RPCCardCols = []int{2, 1} // columns of the simulated Lancero cards 0 and 1

func v19RPCMenu() []v19RPCItem {
	return []v19RPCItem{
		{label: "Lancero card 0 (2 columns x 4 rows) FirstRow=1 ChanSepColumns=0", kind: "lancero", card: 0, first: 1, sep: 0},
		{label: "Lancero card 0 (2 columns x 4 rows) FirstRow=1 ChanSepColumns=10", kind: "lancero", card: 0, first: 1, sep: 10},
		{label: "Lancero card 0 (2 columns x 4 rows) FirstRow=5 ChanSepColumns=0", kind: "lancero", card: 0, first: 5, sep: 0},
		{label: "Lancero card 1 (1 column x 4 rows) FirstRow=1 ChanSepColumns=0", kind: "lancero", card: 1, first: 1, sep: 0},
		{label: "Lancero card 1 (1 column x 4 rows) FirstRow=20 ChanSepColumns=6", kind: "lancero", card: 1, first: 20, sep: 6},
		{label: "Triangle 16 channels", kind: "triangle", nchan: 16},
		{label: "Triangle 8 channels", kind: "triangle", nchan: 8},
		{label: "SimPulse 8 channels", kind: "simpulse", nchan: 8},
		{label: "SimPulse 3 channels", kind: "simpulse", nchan: 3},
	}
}

func (it v19RPCItem) truth() []v19Truth {
	if it.kind == "lancero" {
		p := &v19LanceroPrep{menu: []v19LanceroCfg{{cards: []v19Card{{it.card, v19RPCCardCols[it.card], v19RPCRows}}}}}
		return p.truth(0)
	}
	return (&v19SimplePrep{menu: [][]int{{it.nchan}}}).truth(0)
}

// v19GroupsCover: do the groups cover exactly the channel numbers, without overlap?
func v19GroupsCover(groups []GroupIndex, numbers []int) string {
	covered := map[int]bool{}
	for _, g := range groups {
		for c := g.Firstchan; c < g.Firstchan+g.Nchan; c++ {
			if covered[c] {
				return fmt.Sprintf("channel number %d lies in two of the groups", c)
			}
			covered[c] = true
		}
	}
	used := map[int]bool{}
	var missing, extra []int
	for _, n := range numbers {
		if !covered[n] && !used[n] {
			missing = append(missing, n)
		}
		used[n] = true
	}
	for c := range covered {
		if !used[c] {
			extra = append(extra, c)
		}
	}
	sort.Ints(missing)
	sort.Ints(extra)
	if len(missing) > 0 || len(extra) > 0 {
		return fmt.Sprintf("channel numbers in use but in no group: %v; covered by a group but not in use: %v", missing, extra)
	}
	return ""
}

func v19RPCRun(r *vexp.Runner, x *vexp.X, menu []v19RPCItem, seq []int) vexp.Result {
	var labels []string
	for _, k := range seq {
		labels = append(labels, "["+menu[k].label+"]")
	}
	what := "SourceControl: configure, Start, Stop in turn for " + strings.Join(labels, " then ")
	x.Logf("%s", what)
	res := vexp.Result{Nontrivial: true}
	bad := func(class, f string, a ...interface{}) vexp.Result {
		res.Violation, res.Class = what+": "+fmt.Sprintf(f, a...), class
		return res
	}

	saved := cringeGlobalsPath
	cringeGlobalsPath = filepath.Join(os.TempDir(), fmt.Sprintf("v19_rpc_cringeGlobals_%d.json", os.Getpid()))
	defer func() { os.Remove(cringeGlobalsPath); cringeGlobalsPath = saved }()
	const linePeriod = 1000
	globals := fmt.Sprintf(`{"SETT": 18, "seqln": %d, "lsync": %d, "testpattern": 2, "propagationdelay": 9, "NSAMP": 4, "carddelay": 7, "XPT": 3}`, v19RPCRows, linePeriod)
	if err := os.WriteFile(cringeGlobalsPath, []byte(globals), 0644); err != nil {
		panic("harness: " + err.Error())
	}
	home, err := os.UserHomeDir()
	if err != nil {
		panic("harness: " + err.Error())
	}
	if err := os.MkdirAll(filepath.Join(home, ".dastard"), 0755); err != nil {
		panic("harness: " + err.Error())
	}
	stored := filepath.Join(home, ".dastard", "channels.json")
	os.Remove(stored)

	sc := NewSourceControl()
	sc.status.Npresamp, sc.status.Nsamples = v19npre, v19nsamp
	sc.lancero.devices = map[int]*LanceroDevice{}
	sc.lancero.ncards = 0
	for d, ncols := range v19RPCCardCols {
		card, err := lancero.NewNoHardware(ncols, v19RPCRows, linePeriod)
		if err != nil {
			panic("harness: " + err.Error())
		}
		sc.lancero.devices[d] = &LanceroDevice{card: card, devnum: d}
		sc.lancero.ncards++
	}
	// what the client updater and RunRPCServer's heartbeat loop do: receive. The last message of each kind is kept.
	updates := make(chan ClientUpdate, 10)
	sc.clientUpdates = updates
	type v19Sync struct {
		status *ServerStatus
		names  []string
		ack    chan struct{}
	}
	quit := make(chan struct{})
	defer close(quit)
	go func() {
		var status *ServerStatus
		var names []string
		for {
			select {
			case <-quit:
				return
			case <-sc.heartbeats:
			case u := <-updates:
				switch v := u.state.(type) {
				case ServerStatus:
					if u.tag == "STATUS" {
						st := v
						st.ChanGroups = append([]GroupIndex{}, v.ChanGroups...)
						status = &st
					}
				case []string:
					if u.tag == "CHANNELNAMES" {
						names = append([]string{}, v...)
					}
				case *v19Sync:
					v.status, v.names = status, names
					status, names = nil, nil
					close(v.ack)
				}
			}
		}
	}()
	received := func() (*ServerStatus, []string) {
		s := &v19Sync{ack: make(chan struct{})}
		updates <- ClientUpdate{"V19SYNC", s}
		<-s.ack
		return s.status, s.names
	}
	defer func() {
		for _, a := range []*AnySource{&sc.lancero.AnySource, &sc.triangle.AnySource, &sc.simPulses.AnySource} {
			v19Close(a)
		}
	}()

	ok := false
	for step, k := range seq {
		it := menu[k]
		when := fmt.Sprintf("source %d of %d %s", step+1, len(seq), labels[step])
		var name string
		var src *AnySource
		x.Steps += 3
		switch it.kind {
		case "lancero":
			name, src = "LANCEROSOURCE", &sc.lancero.AnySource
			err = sc.ConfigureLanceroSource(&LanceroSourceConfig{CardDelay: []int{0}, ActiveCards: []int{it.card}, FirstRow: it.first, ChanSepColumns: it.sep}, &ok)
		case "triangle":
			name, src = "TRIANGLESOURCE", &sc.triangle.AnySource
			err = sc.ConfigureTriangleSource(&TriangleSourceConfig{Nchan: it.nchan, SampleRate: 10000, Min: 100, Max: 200}, &ok)
		case "simpulse":
			name, src = "SIMPULSESOURCE", &sc.simPulses.AnySource
			err = sc.ConfigureSimPulseSource(&SimPulseSourceConfig{Nchan: it.nchan, SampleRate: 10000, Pedestal: 1000, Amplitudes: []float64{3000, 5000}, Nsamp: 100}, &ok)
		}
		if err != nil {
			return bad("rpc-configuration-rejected", "%s: the configuration is rejected: %v", when, err)
		}
		received() // forget what was sent before this Start
		if err := sc.Start(&name, &ok); err != nil {
			return bad("rpc-start-error", "%s: Start fails: %v", when, err)
		}
		status, names := received()
		// the source is running; its identity tables were built before the run and do not change during it
		truth := it.truth()
		x.Logf("%s: started", when)
		if v, c := v19Identity(x, src, truth); v != "" {
			return bad("rpc-"+c, "%s: %s", when, v)
		}
		numbers := append([]int{}, src.chanNumbers...)
		if status == nil {
			return bad("rpc-no-status", "%s: Start succeeded but sent no STATUS message", when)
		}
		x.Logf("   STATUS: Running=%v SourceName=%s Nchannels=%d ChanGroups=%v", status.Running, status.SourceName, status.Nchannels, status.ChanGroups)
		x.Logf("   CHANNELNAMES: %v", names)
		if !status.Running {
			return bad("rpc-status-not-running", "%s: Start succeeded but the STATUS message says Running=false", when)
		}
		if status.Nchannels != len(truth) {
			return bad("rpc-status-nchannels", "%s: the STATUS message says Nchannels=%d, the source runs %d data streams", when, status.Nchannels, len(truth))
		}
		if v := v19GroupsCover(status.ChanGroups, numbers); v != "" {
			return bad("rpc-status-groups", "%s: the STATUS message reports ChanGroups %v, the channel numbers in use are %v (source groups %v): %s",
				when, status.ChanGroups, numbers, src.ChanGroups(), v)
		}
		if fmt.Sprint(names) != fmt.Sprint(src.ChannelNames()) {
			return bad("rpc-channelnames", "%s: the CHANNELNAMES message is %v, the streams are named %v", when, names, src.ChannelNames())
		}
		text, err := os.ReadFile(stored)
		if err != nil {
			return bad("rpc-stored-groups", "%s: Start succeeded but ~/.dastard/channels.json cannot be read: %v", when, err)
		}
		var sg []GroupIndex
		if err := json.Unmarshal(text, &sg); err != nil {
			return bad("rpc-stored-groups", "%s: ~/.dastard/channels.json does not decode as a list of groups: %v", when, err)
		}
		x.Logf("   channels.json: %v", sg)
		if v := v19GroupsCover(sg, numbers); v != "" {
			return bad("rpc-stored-groups", "%s: ~/.dastard/channels.json holds groups %v, the channel numbers in use are %v: %s", when, sg, numbers, v)
		}
		d := ""
		if err := sc.Stop(&d, &ok); err != nil {
			return bad("rpc-stop-error", "%s: Stop fails: %v", when, err)
		}
		r.Count("rpc_starts_checked", 1)
	}
	res.Outcome = "rpc|" + fmt.Sprint(seq)
	return res
}

// ---------------------------------------------------------------------------------------------

// v19Tuples lists every way to give n cards 1..max columns each.
func v19Tuples(n, max int) [][]int {
	out := [][]int{{}}
	for k := 0; k < n; k++ {
		var next [][]int
		for _, t := range out {
			for c := 1; c <= max; c++ {
				next = append(next, append(append([]int{}, t...), c))
			}
		}
		out = next
	}
	return out
}

func TestVerifC19(t *testing.T) {
	r := vexp.NewRunner("C19")
	defer r.Finish()
	thorough := r.Thorough()

	// A. Lancero
	devsets := [][]int{{0}, {0, 1}, {1, 3}, {1, 0}}
	maxCols, maxRows := 3, 4
	firsts := []int{0, 1, 7}
	lanceroFiles, abacoFiles, twiceFiles := 12, 6, 8
	sampDevsets := [][]int{{0}, {0, 1}, {1, 3}, {1, 0}, {0, 1, 2}}
	sampMaxCols, sampRows := 3, []int{2, 3}
	if thorough {
		devsets = append(devsets, []int{2}, []int{0, 1, 2})
		maxCols, maxRows = 4, 5
		firsts = append(firsts, 100)
		lanceroFiles, abacoFiles, twiceFiles = 24, 12, 20
		sampDevsets = append(sampDevsets, []int{2}, []int{2, 0, 1})
		sampMaxCols, sampRows = 4, []int{2, 3, 4, 5}
	}
	// B. Abaco
	var gtypes []GroupIndex
	for _, fc := range []int{0, 1, 2, 4, 6} {
		for nc := 1; nc <= 3; nc++ {
			gtypes = append(gtypes, GroupIndex{Firstchan: fc, Nchan: nc})
		}
	}
	if thorough {
		for _, fc := range []int{3, 100} {
			for nc := 1; nc <= 4; nc += 3 {
				gtypes = append(gtypes, GroupIndex{Firstchan: fc, Nchan: nc})
			}
		}
	}
	r.SetBound(fmt.Sprintf("Lancero: active device lists %v x 1..%d columns x 1..%d rows (equal on all cards, plus card k with 2+k rows) x FirstRow %v x ChanSepColumns {-1,0,R-1,R,R+3} x ChanSepCards {-1,0,span-1,span,span+10}, "+
		"files for accepted configurations with <= %d streams; "+
		"Lancero sampled (stream count and per-card geometry from the real Configure + Sample on scripted cards): active device lists %v x every assignment of 1..%d columns to each card (lists of 3+ cards in quick: [2 1 3] [1 1 2] [3 2 2]) "+
		"x rows %v (all cards; = sequence length in cringeGlobals) x the same FirstRow / ChanSepColumns / ChanSepCards values, LJH22+LJH3+OFF files for accepted configurations within the same stream limit, "+
		"plus 4 card sets that Sample rejects (one row; a card streaming another number of rows than the sequence length); Abaco: every set of 1..3 distinct groups out of %d (Firstchan,Nchan) types (adjacent, gapped, overlapping, nested), both arrival orders of pairs, "+
		"one producer or two, files for accepted layouts with <= %d streams; generic/Triangle/SimPulse/Roach sources with 1..4 channels with files; "+
		"files = every non-empty subset of {LJH22, LJH3, OFF} as the START's file types, one tagged record per stream, STOP; OFF with projectors on all streams, the OFF-only START also with projectors "+
		"on the odd-indexed (Lancero: feedback) or the even-indexed (Lancero: error) streams only; "+
		"prepared twice (same source object prepared for A, optionally PrepareRun, no Stop, prepared for B; compared with a fresh object prepared for B, all single-preparation oracles, LJH22+LJH3+OFF files with projectors on all streams for <= %d streams): "+
		"every ordered pair out of Lancero 4 geometries (1 card 1x2, 1 card 2x3, 2 cards 1x2, cards 1 and 3 with 2x2 and 2x3) x 6 separation settings (4 accepted, 2 rejected), "+
		"Lancero sampled (every preparation = real Configure + Sample + PrepareChannels on the same source, device and card objects) 5 card sets (0:1x2; 0:2x3; 0:1x2,1:2x2; 1:2x3,3:1x3; 2:2x2,0:1x2,1:3x2) x 2 separation settings, "+
		"9 Abaco layouts (1..3 groups, one or two producers, one overlapping), generic/Triangle/SimPulse 1..4 channels, Roach device lists [1] [2] [3] [4] [1 2] [2 2] [3 1]; "+
		"through the RPC layer (one SourceControl: Configure*Source, Start, [STATUS, CHANNELNAMES, ~/.dastard/channels.json checked while the source runs], Stop, for each source in turn): "+
		"every ordered pair (thorough: triple) out of 9 sources - Lancero on simulated card 0 (2 columns x 4 rows) with (FirstRow, ChanSepColumns) (1,0) (1,10) (5,0), on card 1 (1 column x 4 rows) with (1,0) (20,6), "+
		"Triangle 16 and 8 channels, SimPulse 8 and 3 channels - so restarts with equal and with different stream counts, within and across source types",
		devsets, maxCols, maxRows, firsts, lanceroFiles, sampDevsets, sampMaxCols, sampRows, len(gtypes), abacoFiles, twiceFiles))
	r.Note("RoachSource is prepared with nchan set directly (its Sample needs a UDP socket); Lancero geometry is set directly (family A, twice/lancero) or found by the real Sample/sampleCard in the streams of scripted cards (lancero-sampled, twice/lancero-sampled)")
	r.Note("lancero-sampled: sampleCard measures its 200 ms on the card's time stamps; the scripted cards stream 5 frames at 20 frames/s of card time in three driver reads; multi-card Lancero cannot run (the reader panics 'not yet implemented'), identity is checked after PrepareRun as in family A")
	r.Note("prepared-twice Roach: active devices are RoachDevice values with nchan set and RoachSource.nchan their sum, as Sample computes it; a Lancero source prepared twice keeps the subframe divisions of its first preparation (counted, not part of C19)")

	for _, devs := range devsets {
		for ncols := 1; ncols <= maxCols; ncols++ {
			for nrows := 0; nrows <= maxRows; nrows++ { // 0 = the unequal-rows variant
				if nrows == 0 && len(devs) < 2 {
					continue
				}
				for _, first := range firsts {
					lc := v19LanceroCase{first: first}
					for k, d := range devs {
						nr := nrows
						if nrows == 0 {
							nr = 2 + k
						}
						lc.cards = append(lc.cards, v19Card{devnum: d, ncols: ncols, nrows: nr})
					}
					r.DFS(lc.id(), -1, v19LanceroBody(r, lc, lanceroFiles))
				}
			}
		}
	}

	// E. Lancero through the real Configure and Sample on scripted cards: every card has its own number of columns
	for _, devs := range sampDevsets {
		tuples := v19Tuples(len(devs), sampMaxCols)
		if len(devs) >= 3 && !thorough {
			tuples = [][]int{{2, 1, 3}, {1, 1, 2}, {3, 2, 2}}
		}
		for _, cols := range tuples {
			for _, nrows := range sampRows {
				for _, first := range firsts {
					lc := v19LanceroCase{first: first, sampled: true}
					for k, d := range devs {
						lc.cards = append(lc.cards, v19Card{devnum: d, ncols: cols[k], nrows: nrows})
					}
					r.DFS(lc.id(), -1, v19LanceroBody(r, lc, lanceroFiles))
				}
			}
		}
	}
	// ... and what the real Sample does not accept: one row (frames cannot be told apart), a card that streams
	// another number of rows than the sequence length Configure took from cringeGlobals (= the rows of the first card)
	for _, cards := range [][]v19Card{{{0, 2, 1}}, {{0, 1, 1}, {1, 2, 1}}, {{0, 2, 2}, {1, 1, 3}}, {{1, 1, 3}, {0, 2, 2}}} {
		lc := v19LanceroCase{first: 1, sampled: true, cards: cards}
		r.DFS(lc.id(), -1, v19LanceroBody(r, lc, lanceroFiles))
	}

	for i := range gtypes {
		g1 := gtypes[i]
		r.DFS(fmt.Sprintf("abaco/%d+%d", g1.Firstchan, g1.Nchan), -1, func(x *vexp.X) vexp.Result {
			return v19AbacoRun(r, x, []GroupIndex{g1}, 1, abacoFiles)
		})
		for j := i + 1; j < len(gtypes); j++ {
			g2 := gtypes[j]
			r.DFS(fmt.Sprintf("abaco/%d+%d,%d+%d", g1.Firstchan, g1.Nchan, g2.Firstchan, g2.Nchan), -1, func(x *vexp.X) vexp.Result {
				third := x.Choose(len(gtypes) - j) // 0 = no third group
				var layout []GroupIndex
				if third == 0 {
					layout = []GroupIndex{g1, g2}
					if x.Choose(2) == 1 {
						layout = []GroupIndex{g2, g1}
					}
				} else {
					g3 := gtypes[j+third]
					layout = [][]GroupIndex{{g1, g2, g3}, {g3, g1, g2}, {g2, g3, g1}}[x.Choose(3)]
				}
				split := 1 + x.Choose(len(layout)) // == len(layout): a single producer
				return v19AbacoRun(r, x, layout, split, abacoFiles)
			})
		}
	}

	for _, kind := range []string{"any", "triangle", "simpulse", "roach"} {
		for nchan := 1; nchan <= 4; nchan++ {
			kind, nchan := kind, nchan
			r.DFS(fmt.Sprintf("simple/%s/nchan=%d", kind, nchan), -1, func(x *vexp.X) vexp.Result {
				return v19SimpleRun(r, x, kind, nchan)
			})
		}
	}

	// D. prepared twice, every ordered pair (A, B) of each menu
	twicers := []v19Twicer{v19LanceroTwicer(), v19LanceroSampledTwicer(), v19AbacoTwicer()}
	for _, kind := range []string{"any", "triangle", "simpulse", "roach"} {
		twicers = append(twicers, v19SimpleTwicer(kind))
	}
	for _, tw := range twicers {
		for a := range tw.menu {
			tw, a := tw, a
			r.DFS(fmt.Sprintf("twice/%s/A=%d", tw.kind, a), -1, func(x *vexp.X) vexp.Result {
				b := x.Choose(len(tw.menu))
				return v19TwiceRun(r, x, tw, a, b, twiceFiles)
			})
		}
	}

	// F. through the RPC layer: every ordered pair (A, B) of the menu (thorough: every ordered triple)
	rpcMenu := v19RPCMenu()
	for a := range rpcMenu {
		a := a
		r.DFS(fmt.Sprintf("rpc/A=%d", a), -1, func(x *vexp.X) vexp.Result {
			seq := []int{a, x.Choose(len(rpcMenu))}
			if thorough {
				seq = append(seq, x.Choose(len(rpcMenu)))
			}
			return v19RPCRun(r, x, rpcMenu, seq)
		})
	}
}
