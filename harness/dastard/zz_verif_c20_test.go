//go:build verif

package dastard

// C20 — run-log side files (external triggers, data drops, experiment state) record every event
// exactly once, in order, are closed by STOP and never carried over. Engine A: DFS over histories.
// Three families: the general alphabet (ordinary label texts), big blocks (the file buffer overflows),
// and label texts that coincide with dastard's own markers / request words (vSFLabelOps).

import (
	"bytes"
	"encoding/binary"
	"fmt"
	"os"
	"path/filepath"
	"strings"
	"testing"
	"time"

	"github.com/usnistgov/dastard/internal/vexp"
)

type vSFOp struct {
	name    string
	kind    string // start stop pause unpause unpauselbl label block
	ext     int    // number of external triggers in the block
	dropped int
	text    string // label text of a label / unpauselbl op ("" = an ordinary text: "state<n>" / "lbl")
	word    string // request word of an unpauselbl op as the client typed it ("" = "UNPAUSE")
}

// vSFLabelOps is the alphabet of the label family: the label text is chosen by the client, so it may
// coincide with dastard's own markers and request words (START, STOP, PAUSE, UNPAUSE), in upper or
// lower case. Every text goes through both entry points (SetExperimentStateLabel and the
// "UNPAUSE <label>" form of WriteControl; with the lower-case texts the request word is typed in
// lower case too), next to the four control requests and one block that feeds the two other files.
func vSFLabelOps(upper, lower bool) []vSFOp {
	ops := []vSFOp{
		{name: "START", kind: "start"}, {name: "STOP", kind: "stop"},
		{name: "label(ordinary)", kind: "label"},
		{name: "PAUSE", kind: "pause"}, {name: "UNPAUSE", kind: "unpause"},
		{name: "block(ext=1,drop=3)", kind: "block", ext: 1, dropped: 3},
	}
	add := func(word string, texts ...string) {
		for _, t := range texts {
			ops = append(ops, vSFOp{name: fmt.Sprintf("label(%q)", t), kind: "label", text: t},
				vSFOp{name: fmt.Sprintf("%q", word+" "+t), kind: "unpauselbl", text: t, word: word})
		}
	}
	if upper {
		add("UNPAUSE", "START", "STOP", "PAUSE", "UNPAUSE")
		ops = append(ops, vSFOp{name: "UNPAUSE lbl", kind: "unpauselbl"})
	}
	if lower {
		add("unpause", "start", "stop", "pause", "unpause")
		ops = append(ops, vSFOp{name: `"unpause lbl"`, kind: "unpauselbl", word: "unpause"})
	}
	return ops
}

func vSFOps() []vSFOp {
	ops := []vSFOp{
		{name: "block(ext=0,drop=0)", kind: "block"},
		{name: "START", kind: "start"}, {name: "STOP", kind: "stop"},
		{name: "block(ext=1,drop=0)", kind: "block", ext: 1},
		{name: "block(ext=2,drop=3)", kind: "block", ext: 2, dropped: 3},
		{name: "block(ext=0,drop=3)", kind: "block", dropped: 3},
		{name: "label", kind: "label"},
		{name: "PAUSE", kind: "pause"}, {name: "UNPAUSE", kind: "unpause"}, {name: "UNPAUSE lbl", kind: "unpauselbl"},
		{name: "block(ext=2,drop=0)", kind: "block", ext: 2},
		{name: "block(ext=1,drop=3)", kind: "block", ext: 1, dropped: 3},
	}
	return ops
}

type vSFRun struct {
	pattern string
	ext     []int64
	drops   []string
	labels  []string // expected lines after START, before STOP ("" timestamp = any)
}

type vSFModel struct {
	src     *vSource
	ds      *AnySource
	base    string
	active  bool
	runs    []*vSFRun
	nextExt int64
	frame   int
	nlabel  int
	events  int
	marker  int // accepted labels whose text reads like a marker / request word of dastard
}

func vSFIsMarker(lbl string) int {
	switch strings.ToUpper(lbl) {
	case "START", "STOP", "PAUSE", "UNPAUSE":
		return 1
	}
	return 0
}

// vSFOpenSideFiles lists the descriptors of this process that still refer to a side file under base
// ("closed" as the operating system sees it: a handle that was dropped without Close shows up here
// until the garbage collector happens to finalise it, so this can only under-report).
func vSFOpenSideFiles(base string) []string {
	ents, err := os.ReadDir("/proc/self/fd")
	if err != nil {
		return nil
	}
	var open []string
	for _, e := range ents {
		t, err := os.Readlink("/proc/self/fd/" + e.Name())
		if err != nil || !strings.HasPrefix(t, base) {
			continue
		}
		if strings.HasSuffix(t, "_experiment_state.txt") || strings.HasSuffix(t, "_external_trigger.bin") || strings.HasSuffix(t, "_data_drop.txt") {
			open = append(open, "fd "+e.Name()+" -> "+strings.TrimPrefix(t, base))
		}
	}
	return open
}

func (m *vSFModel) cur() *vSFRun { return m.runs[len(m.runs)-1] }

func (m *vSFModel) apply(x *vexp.X, op vSFOp) (string, string) {
	x.Steps++
	ds := m.ds
	switch op.kind {
	case "start":
		err := ds.WriteControl(&WriteControlConfig{Request: "START", Path: m.base, WriteLJH22: true})
		x.Logf("START -> %v", err)
		if err == nil {
			if m.active {
				return "START accepted while writing was already active", "start-while-active"
			}
			m.active = true
			m.runs = append(m.runs, &vSFRun{pattern: ds.ComputeWritingState().FilenamePattern})
		} else if !m.active {
			return "START rejected although inactive: " + err.Error(), "start-rejected"
		}
	case "stop":
		err := ds.WriteControl(&WriteControlConfig{Request: "STOP"})
		x.Logf("STOP -> %v", err)
		if err != nil {
			return "STOP failed: " + err.Error(), "stop-error"
		}
		if m.active {
			m.active = false
			if v, c := m.checkRun(m.cur(), true); v != "" {
				return v, c
			}
		}
		ws := &ds.writingState
		if ws.experimentStateFile != nil || ws.externalTriggerFile != nil || ws.dataDropFile != nil ||
			ws.externalTriggerFileBufferedWriter != nil || ws.dataDropFileBufferedWriter != nil {
			return "after STOP a side-file handle is still held", "stop-leaves-side-file-open"
		}
		if open := vSFOpenSideFiles(m.base); len(open) > 0 {
			return fmt.Sprintf("after STOP the process still has side files open (abandoned handles): %v", open), "stop-leaves-side-file-open"
		}
	case "pause":
		ds.WriteControl(&WriteControlConfig{Request: "PAUSE"})
	case "unpause":
		ds.WriteControl(&WriteControlConfig{Request: "UNPAUSE"})
	case "unpauselbl":
		word, lbl := op.word, op.text
		if word == "" {
			word = "UNPAUSE"
		}
		if lbl == "" {
			lbl = "lbl"
		}
		err := ds.WriteControl(&WriteControlConfig{Request: word + " " + lbl})
		x.Logf("%s %s -> %v", word, lbl, err)
		if err == nil {
			if !m.active {
				return "UNPAUSE with a label accepted while writing is inactive", "label-while-inactive"
			}
			m.cur().labels = append(m.cur().labels, ", "+lbl)
			m.events++
			m.marker += vSFIsMarker(lbl)
		}
	case "label":
		m.nlabel++
		ts := vT0.Add(time.Duration(m.nlabel) * time.Second)
		lbl := op.text
		if lbl == "" {
			lbl = fmt.Sprintf("state%d", m.nlabel)
		}
		err := ds.SetExperimentStateLabel(ts, lbl)
		x.Logf("label %s -> %v", lbl, err)
		if err == nil {
			if !m.active {
				return "state label accepted while writing is inactive", "label-while-inactive"
			}
			m.cur().labels = append(m.cur().labels, fmt.Sprintf("%d, %s", ts.UnixNano(), lbl))
			m.events++
			m.marker += vSFIsMarker(lbl)
		} else if m.active {
			return "state label rejected while writing is active: " + err.Error(), "label-rejected"
		}
	case "block":
		n := 8
		data := make([]RawType, n)
		for i := range data {
			data[i] = 1000
		}
		blk := new(dataBlock)
		blk.segments = []DataSegment{{rawData: data, framesPerSample: 1, firstFrameIndex: vF0 + FrameIndex(m.frame),
			firstTime: vT0.Add(time.Duration(m.frame) * vPeriod), framePeriod: vPeriod, droppedFrames: op.dropped}}
		blk.nSamp = n
		for i := 0; i < op.ext; i++ {
			m.nextExt += 7
			blk.externalTriggerRowcounts = append(blk.externalTriggerRowcounts, m.nextExt)
		}
		first := int(vF0) + m.frame
		m.frame += n
		if err := ds.ProcessSegments(blk); err != nil {
			return "ProcessSegments failed: " + err.Error(), "process-error"
		}
		m.src.drain(0)
		x.Logf("%s first frame %d ext %v (active=%v)", op.name, first, blk.externalTriggerRowcounts, m.active)
		if m.active {
			m.cur().ext = append(m.cur().ext, blk.externalTriggerRowcounts...)
			m.events += op.ext
			if op.dropped > 0 {
				m.cur().drops = append(m.cur().drops, fmt.Sprintf("%12d %8d", first, op.dropped))
				m.events++
			}
		}
	}
	return "", ""
}

// checkRun decodes the three side files of a finished run.
func (m *vSFModel) checkRun(run *vSFRun, justStopped bool) (string, string) {
	extName := fmt.Sprintf(run.pattern, "external_trigger", "bin")
	dropName := fmt.Sprintf(run.pattern, "data_drop", "txt")
	stateName := fmt.Sprintf(run.pattern, "experiment_state", "txt")
	// external triggers
	b, err := os.ReadFile(extName)
	if err != nil {
		if len(run.ext) > 0 {
			return fmt.Sprintf("run %s: %d external triggers were delivered while active but %s does not exist", filepath.Dir(run.pattern), len(run.ext), filepath.Base(extName)), "ext-trigger-file-missing"
		}
	} else {
		i := bytes.IndexByte(b, '\n')
		if i < 0 || !strings.HasPrefix(string(b), "# external trigger rowcounts as int64 binary data follows") {
			return fmt.Sprintf("external-trigger file has no header line: %q", b[:vMin(len(b), 60)]), "ext-trigger-file-malformed"
		}
		body := b[i+1:]
		var got []int64
		if len(body)%8 != 0 {
			return fmt.Sprintf("external-trigger file body has %d bytes, not a multiple of 8", len(body)), "ext-trigger-file-malformed"
		}
		for o := 0; o < len(body); o += 8 {
			got = append(got, int64(binary.LittleEndian.Uint64(body[o:])))
		}
		if fmt.Sprint(got) != fmt.Sprint(run.ext) {
			return fmt.Sprintf("external-trigger file holds %v, the source delivered %v while writing was active", got, run.ext), "ext-trigger-file-content"
		}
	}
	// data drops
	b, err = os.ReadFile(dropName)
	if err != nil {
		if len(run.drops) > 0 {
			return fmt.Sprintf("%d blocks reported dropped frames while active but %s does not exist", len(run.drops), filepath.Base(dropName)), "data-drop-file-missing"
		}
	} else {
		lines := strings.Split(strings.TrimSuffix(string(b), "\n"), "\n")
		if len(lines) < 1 || !strings.HasPrefix(lines[0], "#") {
			return fmt.Sprintf("data-drop file has no header line: %q", string(b)), "data-drop-file-malformed"
		}
		if strings.Join(lines[1:], "|") != strings.Join(run.drops, "|") {
			return fmt.Sprintf("data-drop file lines %q, expected %q", lines[1:], run.drops), "data-drop-file-content"
		}
	}
	// experiment state
	b, err = os.ReadFile(stateName)
	if err != nil {
		return fmt.Sprintf("experiment-state file %s missing", filepath.Base(stateName)), "state-file-missing"
	}
	lines := strings.Split(strings.TrimSuffix(string(b), "\n"), "\n")
	want := append([]string{"# unix time in nanoseconds, state label", ", START"}, run.labels...)
	want = append(want, ", STOP")
	if len(lines) != len(want) {
		return fmt.Sprintf("experiment-state file has lines %q, expected header, START, %d labels, STOP", lines, len(run.labels)), "state-file-content"
	}
	for i := range want {
		ok := lines[i] == want[i]
		if strings.HasPrefix(want[i], ", ") { // time stamp chosen by dastard: any integer
			j := strings.Index(lines[i], ", ")
			ok = j > 0 && lines[i][j:] == want[i] && strings.Trim(lines[i][:j], "0123456789") == ""
		}
		if !ok {
			return fmt.Sprintf("experiment-state file line %d is %q, expected %q (all lines %q)", i, lines[i], want[i], lines), "state-file-content"
		}
	}
	return "", ""
}

func vMin(a, b int) int {
	if a < b {
		return a
	}
	return b
}

var vSFSeq int

// needMarker: the execution counts as non-trivial only if a label whose text reads like a marker was accepted.
func vSFRunHistory(x *vexp.X, ops []vSFOp, hist []int, needMarker bool) vexp.Result {
	vSFSeq++
	base := filepath.Join(os.Getenv("TMPDIR"), fmt.Sprintf("sf%d", vSFSeq))
	os.MkdirAll(base, 0755)
	defer os.RemoveAll(base)
	m := &vSFModel{base: base}
	m.src = vNewSource(1, 3, 6)
	m.ds = m.src.ds
	m.ds.subframeDivisions = 1
	defer m.src.close()
	var names []string
	fail := func(v, c string) vexp.Result {
		m.ds.WriteControl(&WriteControlConfig{Request: "STOP"})
		return vexp.Result{Violation: fmt.Sprintf("history %v: %s", names, v), Class: c}
	}
	for _, oi := range hist {
		names = append(names, ops[oi].name)
		if v, c := m.apply(x, ops[oi]); v != "" {
			return fail(v, c)
		}
	}
	names = append(names, "(final STOP)")
	if v, c := m.apply(x, vSFOp{name: "STOP", kind: "stop"}); v != "" {
		return fail(v, c)
	}
	// nothing may change any more: blocks and labels after STOP, then re-check every run
	sizes := map[string]int64{}
	filepath.Walk(base, func(p string, info os.FileInfo, err error) error {
		if err == nil && !info.IsDir() {
			sizes[p] = info.Size()
		}
		return nil
	})
	names = append(names, "(block after STOP)")
	if v, c := m.apply(x, vSFOp{name: "block(ext=2,drop=3)", kind: "block", ext: 2, dropped: 3}); v != "" {
		return fail(v, c)
	}
	var changed []string
	filepath.Walk(base, func(p string, info os.FileInfo, err error) error {
		if err == nil && !info.IsDir() {
			if s, ok := sizes[p]; !ok || s != info.Size() {
				changed = append(changed, p)
			}
		}
		return nil
	})
	if len(changed) > 0 {
		return fail(fmt.Sprintf("files created or grown while writing is inactive: %v", changed), "side-file-written-while-inactive")
	}
	seen := map[string]bool{}
	for _, run := range m.runs {
		if seen[run.pattern] {
			return fail("two STARTs used the same file pattern "+run.pattern, "start-reuses-directory")
		}
		seen[run.pattern] = true
		if v, c := m.checkRun(run, false); v != "" {
			return fail("(re-check after later runs) "+v, c)
		}
	}
	outcome := fmt.Sprintf("%d runs %d events", len(m.runs), m.events)
	if m.marker > 0 {
		outcome += fmt.Sprintf(" %d marker-text labels", m.marker)
	}
	return vexp.Result{Nontrivial: m.events > 0 && len(m.runs) > 0 && (m.marker > 0 || !needMarker), Outcome: outcome}
}

func TestVerifC20(t *testing.T) {
	r := vexp.NewRunner("C20")
	defer r.Finish()
	ops := vSFOps()
	depth := 5
	if r.Thorough() {
		depth = 6
	}
	r.SetBound(fmt.Sprintf("all histories of length %d over {START, STOP, PAUSE, UNPAUSE, 'UNPAUSE lbl', state label, block x (0|1|2 external triggers) x (0|3 dropped frames)}, followed by a final STOP and a block after STOP; plus all histories of that length starting with START over {START, STOP, PAUSE, UNPAUSE, blocks with 1|260|300|600 external triggers} (the side file's write buffer overflows); plus all histories of length 5 starting with START over {START, STOP, PAUSE, UNPAUSE, block(1 external trigger, 3 dropped), ordinary label, and the label texts START|STOP|PAUSE|UNPAUSE through SetExperimentStateLabel and through 'UNPAUSE <text>'} and the same with the texts and the UNPAUSE word in lower case (quick: upper- and lower-case texts in separate histories; thorough: mixed in one alphabet of 24 requests)", depth))
	// blocks with hundreds of external triggers: the side file's 4096-byte buffer fills up between two flushes
	big := []vSFOp{
		{name: "START", kind: "start"}, {name: "STOP", kind: "stop"},
		{name: "block(ext=300,drop=0)", kind: "block", ext: 300},
		{name: "block(ext=1,drop=0)", kind: "block", ext: 1},
		{name: "block(ext=260,drop=3)", kind: "block", ext: 260, dropped: 3},
		{name: "PAUSE", kind: "pause"}, {name: "UNPAUSE", kind: "unpause"},
		{name: "block(ext=600,drop=0)", kind: "block", ext: 600},
	}
	for second := range big {
		second := second
		r.DFS(fmt.Sprintf("big/START/%s", big[second].name), -1, func(x *vexp.X) vexp.Result {
			hist := []int{0, second}
			for len(hist) < depth {
				hist = append(hist, x.Choose(len(big)))
			}
			return vSFRunHistory(x, big, hist, false)
		})
	}
	// label texts that coincide with dastard's own markers and request words
	type lblFam struct {
		id  string
		ops []vSFOp
	}
	fams := []lblFam{{"lbl-upper", vSFLabelOps(true, false)}, {"lbl-lower", vSFLabelOps(false, true)}}
	if r.Thorough() {
		fams = []lblFam{{"lbl-mixed", vSFLabelOps(true, true)}}
	}
	for _, fam := range fams {
		for second := range fam.ops {
			fam, second := fam, second
			r.DFS(fmt.Sprintf("%s/START/%s", fam.id, fam.ops[second].name), -1, func(x *vexp.X) vexp.Result {
				hist := []int{0, second}
				for len(hist) < 5 {
					hist = append(hist, x.Choose(len(fam.ops)))
				}
				return vSFRunHistory(x, fam.ops, hist, true)
			})
		}
	}
	for first := range ops {
		for second := range ops {
			first, second := first, second
			r.DFS(fmt.Sprintf("dfs/%s/%s", ops[first].name, ops[second].name), -1, func(x *vexp.X) vexp.Result {
				hist := []int{first, second}
				for len(hist) < depth {
					hist = append(hist, x.Choose(len(ops)))
				}
				return vSFRunHistory(x, ops, hist, false)
			})
		}
	}
}
