//go:build verif

package dastard

// Shared harness plumbing for the checks that live in package dastard.
// The repository's own *_test.go files (including its TestMain, which binds TCP ports and starts
// ZMQ) are hidden by the build overlay; this TestMain replaces them.

import (
	"fmt"
	"io"
	"log"
	"os"
	"testing"
	"time"

	"github.com/spf13/viper"
)

var vT0 = time.Date(2021, 3, 4, 5, 6, 7, 500000000, time.UTC)

// frame number of the first sample the scripted source delivers (hardware sources start at a large counter,
// simulated ones at 0; the trigger scenarios set it per execution)
var vF0 = FrameIndex(1000)

const vPeriod = time.Millisecond

func TestMain(m *testing.M) {
	// Publishing goes to private channels, never to ZMQ sockets.
	PubRecordsChan = make(chan []*DataRecord, 1)
	PubSummariesChan = make(chan []*DataRecord, 1)
	drain := clientMessageChan // bind now: a harness may later replace the global with its own channel
	go func() {
		for range drain {
		}
	}()
	if os.Getenv("VERIF_REPLAY") == "" || os.Getenv("VERIF_LOGS") == "" {
		log.SetOutput(io.Discard)
		ProblemLogger = log.New(io.Discard, "", 0)
		UpdateLogger = log.New(io.Discard, "", 0)
		// DATA DROP lines are printed with fmt.Printf: silence stdout noise from the code under test
		// only in worker mode (replay prints its trace on stdout).
		if os.Getenv("VERIF_REPLAY") == "" {
			if f, err := os.OpenFile(os.DevNull, os.O_WRONLY, 0); err == nil {
				vRealStdout = os.Stdout
				os.Stdout = f
			}
		}
	}
	viper.Reset()
	os.Exit(m.Run())
}

var vRealStdout *os.File

// vSource is a hardware-less AnySource prepared through the real PrepareChannels/PrepareRun, whose
// processors publish into private channels.
type vSource struct {
	ds   *AnySource
	recs []chan []*DataRecord
}

func vNewSource(nchan, npre, nsamp int) *vSource {
	ds := &AnySource{nchan: nchan, name: "verif", sampleRate: 1000.0, samplePeriod: vPeriod}
	if err := ds.PrepareChannels(); err != nil {
		panic(err)
	}
	ds.rowColCodes = make([]RowColCode, nchan)
	for i := range ds.rowColCodes {
		ds.rowColCodes[i] = rcCode(0, i, 1, nchan)
	}
	if err := ds.PrepareRun(npre, nsamp); err != nil {
		panic(err)
	}
	s := &vSource{ds: ds}
	for _, dsp := range ds.processors {
		c := make(chan []*DataRecord, 256)
		dsp.PubRecordsChan = c
		dsp.PubSummariesChan = nil
		s.recs = append(s.recs, c)
	}
	return s
}

// close releases the tickers PrepareRun created (millions of executions would otherwise leak them).
func (s *vSource) close() {
	s.ds.numberWrittenTicker.Stop()
	s.ds.writingState.externalTriggerTicker.Stop()
	s.ds.writingState.dataDropTicker.Stop()
}

// drain returns the records published on channel ch since the last drain.
func (s *vSource) drain(ch int) []*DataRecord {
	var out []*DataRecord
	for {
		select {
		case r := <-s.recs[ch]:
			out = append(out, r...)
		default:
			return out
		}
	}
}

// vBlock builds a data block covering truth[ch][a:b] for every channel, with consistent frame
// numbers and time stamps.
func vBlock(truth [][]RawType, a, b int, signed bool) *dataBlock {
	blk := new(dataBlock)
	blk.segments = make([]DataSegment, len(truth))
	for ch := range truth {
		d := make([]RawType, b-a)
		copy(d, truth[ch][a:b])
		blk.segments[ch] = DataSegment{rawData: d, signed: signed, framesPerSample: 1,
			firstFrameIndex: vF0 + FrameIndex(a), firstTime: vT0.Add(time.Duration(a) * vPeriod), framePeriod: vPeriod}
	}
	blk.nSamp = b - a
	return blk
}

func vTimeOf(abs int) time.Time { return vT0.Add(time.Duration(abs) * vPeriod) }

func vFmtRec(r *DataRecord) string {
	return fmt.Sprintf("{ch%d f=%d pre=%d len=%d}", r.channelIndex, r.trigFrame, r.presamples, len(r.data))
}
