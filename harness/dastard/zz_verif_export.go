//go:build verif

package dastard

// Exported doors for harnesses that live outside package dastard (C16 part c runs in package main of
// cmd/dastard so that the real setupViper is the recovery path). Nothing here changes behaviour.

// VerifSaveState calls the real, unexported saveState.
func VerifSaveState(m map[string]interface{}) { saveState(m) }
