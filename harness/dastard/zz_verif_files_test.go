//go:build verif

package dastard

// Independent decoders for the three output formats, written from doc/LJH.md, the LJH3 record
// layout and the OFF 0.3.0 header/record layout. Used by C05, C06, C19, C20.

import (
	"bytes"
	"encoding/binary"
	"encoding/json"
	"fmt"
	"math"
	"os"
	"strconv"
	"strings"
)

type vLJHRecord struct {
	subframe  int64
	timestamp int64
	data      []uint16
}

type vLJHFile struct {
	header    map[string]string
	headerLen int
	records   []vLJHRecord
	size      int
}

func vParseLJH22(path string) (*vLJHFile, error) {
	b, err := os.ReadFile(path)
	if err != nil {
		return nil, err
	}
	f := &vLJHFile{header: map[string]string{}, size: len(b)}
	endTag := []byte("#End of Header\n")
	i := bytes.Index(b, endTag)
	if i < 0 {
		return nil, fmt.Errorf("%s: no '#End of Header' line", path)
	}
	f.headerLen = i + len(endTag)
	lines := strings.Split(string(b[:i]), "\n")
	if lines[0] != "#LJH Memorial File Format" {
		return nil, fmt.Errorf("%s: first line %q", path, lines[0])
	}
	for _, l := range lines[1:] {
		if j := strings.Index(l, ": "); j > 0 {
			f.header[strings.ToLower(l[:j])] = l[j+2:]
		}
	}
	if !strings.HasPrefix(f.header["save file format version"], "2.2") {
		return nil, fmt.Errorf("%s: version %q", path, f.header["save file format version"])
	}
	ns, err := strconv.Atoi(f.header["total samples"])
	if err != nil || ns < 0 {
		return nil, fmt.Errorf("%s: Total Samples %q", path, f.header["total samples"])
	}
	ws, err := strconv.Atoi(f.header["digitized word size in bytes"])
	if err != nil || ws != 2 {
		return nil, fmt.Errorf("%s: word size %q", path, f.header["digitized word size in bytes"])
	}
	body := b[f.headerLen:]
	rs := 16 + 2*ns
	if len(body)%rs != 0 {
		return f, fmt.Errorf("%s: body of %d bytes is not a whole number of %d-byte records (partial record)", path, len(body), rs)
	}
	for o := 0; o < len(body); o += rs {
		r := vLJHRecord{subframe: int64(binary.LittleEndian.Uint64(body[o:])), timestamp: int64(binary.LittleEndian.Uint64(body[o+8:]))}
		r.data = make([]uint16, ns)
		for k := 0; k < ns; k++ {
			r.data[k] = binary.LittleEndian.Uint16(body[o+16+2*k:])
		}
		f.records = append(f.records, r)
	}
	return f, nil
}

type vLJH3Record struct {
	firstRising int32
	frame       int64
	timestamp   int64
	data        []uint16
}

type vLJH3File struct {
	header    map[string]interface{}
	headerLen int
	records   []vLJH3Record
	size      int
}

// vJSONHeaderEnd finds the end of a leading JSON object followed by a newline.
func vJSONHeaderEnd(b []byte) (int, error) {
	dec := json.NewDecoder(bytes.NewReader(b))
	var v interface{}
	if err := dec.Decode(&v); err != nil {
		return 0, err
	}
	off := int(dec.InputOffset())
	if off >= len(b) || b[off] != '\n' {
		return 0, fmt.Errorf("JSON header not followed by a newline")
	}
	return off + 1, nil
}

func vParseLJH3(path string) (*vLJH3File, error) {
	b, err := os.ReadFile(path)
	if err != nil {
		return nil, err
	}
	f := &vLJH3File{size: len(b)}
	end, err := vJSONHeaderEnd(b)
	if err != nil {
		return nil, fmt.Errorf("%s: %v", path, err)
	}
	f.headerLen = end
	if err := json.Unmarshal(b[:end], &f.header); err != nil {
		return nil, err
	}
	if f.header["File Format"] != "LJH3" {
		return nil, fmt.Errorf("%s: File Format %v", path, f.header["File Format"])
	}
	body := b[end:]
	for o := 0; o < len(body); {
		if o+24 > len(body) {
			return f, fmt.Errorf("%s: truncated record header at body offset %d (partial record)", path, o)
		}
		n := int(int32(binary.LittleEndian.Uint32(body[o:])))
		if n < 0 || o+24+2*n > len(body) {
			return f, fmt.Errorf("%s: record at body offset %d declares %d samples, file too short (partial record)", path, o, n)
		}
		r := vLJH3Record{firstRising: int32(binary.LittleEndian.Uint32(body[o+4:])), frame: int64(binary.LittleEndian.Uint64(body[o+8:])),
			timestamp: int64(binary.LittleEndian.Uint64(body[o+16:]))}
		r.data = make([]uint16, n)
		for k := 0; k < n; k++ {
			r.data[k] = binary.LittleEndian.Uint16(body[o+24+2*k:])
		}
		f.records = append(f.records, r)
		o += 24 + 2*n
	}
	return f, nil
}

type vOFFRecord struct {
	nsamp, npre            int32
	frame                  int64
	timestamp              int64
	ptMean, ptDelta, resid float32
	coefs                  []float32
}

type vOFFFile struct {
	header     map[string]interface{}
	headerLen  int
	projectors []float64
	basis      []float64
	nbases     int
	records    []vOFFRecord
	size       int
}

func vJSONInt(m map[string]interface{}, keys ...string) (int, bool) {
	var cur interface{} = m
	for _, k := range keys {
		mm, ok := cur.(map[string]interface{})
		if !ok {
			return 0, false
		}
		cur = mm[k]
	}
	f, ok := cur.(float64)
	return int(f), ok
}

func vParseOFF(path string) (*vOFFFile, error) {
	b, err := os.ReadFile(path)
	if err != nil {
		return nil, err
	}
	f := &vOFFFile{size: len(b)}
	end, err := vJSONHeaderEnd(b)
	if err != nil {
		return nil, fmt.Errorf("%s: %v", path, err)
	}
	if err := json.Unmarshal(b[:end], &f.header); err != nil {
		return nil, err
	}
	if f.header["FileFormat"] != "OFF" {
		return nil, fmt.Errorf("%s: FileFormat %v", path, f.header["FileFormat"])
	}
	nb, ok := vJSONInt(f.header, "NumberOfBases")
	pr, ok1 := vJSONInt(f.header, "ModelInfo", "Projectors", "Rows")
	pc, ok2 := vJSONInt(f.header, "ModelInfo", "Projectors", "Cols")
	br, ok3 := vJSONInt(f.header, "ModelInfo", "Basis", "Rows")
	bc, ok4 := vJSONInt(f.header, "ModelInfo", "Basis", "Cols")
	if !(ok && ok1 && ok2 && ok3 && ok4) {
		return nil, fmt.Errorf("%s: header lacks NumberOfBases / matrix shapes", path)
	}
	f.nbases = nb
	o := end
	need := 8 * (pr*pc + br*bc)
	if o+need > len(b) {
		return f, fmt.Errorf("%s: file too short for the projector and basis matrices", path)
	}
	rd := func(n int) []float64 {
		out := make([]float64, n)
		for i := range out {
			out[i] = math.Float64frombits(binary.LittleEndian.Uint64(b[o:]))
			o += 8
		}
		return out
	}
	f.projectors = rd(pr * pc)
	f.basis = rd(br * bc)
	f.headerLen = o
	rs := 36 + 4*nb
	body := b[o:]
	if len(body)%rs != 0 {
		return f, fmt.Errorf("%s: body of %d bytes is not a whole number of %d-byte records (partial record)", path, len(body), rs)
	}
	for p := 0; p < len(body); p += rs {
		r := vOFFRecord{nsamp: int32(binary.LittleEndian.Uint32(body[p:])), npre: int32(binary.LittleEndian.Uint32(body[p+4:])),
			frame: int64(binary.LittleEndian.Uint64(body[p+8:])), timestamp: int64(binary.LittleEndian.Uint64(body[p+16:])),
			ptMean: math.Float32frombits(binary.LittleEndian.Uint32(body[p+24:])), ptDelta: math.Float32frombits(binary.LittleEndian.Uint32(body[p+28:])),
			resid: math.Float32frombits(binary.LittleEndian.Uint32(body[p+32:]))}
		for k := 0; k < nb; k++ {
			r.coefs = append(r.coefs, math.Float32frombits(binary.LittleEndian.Uint32(body[p+36+4*k:])))
		}
		f.records = append(f.records, r)
	}
	return f, nil
}

func mathFloat32bits(f float32) uint32 { return math.Float32bits(f) }
