//go:build verif

package dastard

// Race probes: second parts of C02, C08 and C14.
//
// The properties are stated per channel / per record, and their main parts drive the code from one goroutine
// (C02's with triggers on one channel only). In production the same code runs in several goroutines at once: every
// channel's trigger search in its own goroutine inside AnySource.ProcessSegments (C02, C08), the record and the
// summary converter in the goroutines of the two PUB sockets (C14). Package-level scratch state in the edge-multi code or in the byte-conversion helpers
// would make one channel's records (one socket's messages) depend on what another goroutine is doing, which no
// single-goroutine exploration can see. The probes below run the real goroutines, free-running, in a
// race-detector build; the detector (happens-before based, so independent of the actual timing) is the monitor.
// The detector reports one pair of stacks once per process: a report is attributed to the execution after which
// it is read, and a replay (a fresh process) shows it again.

import (
	"fmt"
	"os"
	"runtime"
	"strings"
	"sync"
	"testing"
	"time"

	"github.com/usnistgov/dastard/internal/vexp"
	"github.com/usnistgov/dastard/internal/vhook"
)

func vrpNeedRaceBuild(prop string) {
	if !strings.Contains(os.Getenv("GORACE"), "log_path") {
		fmt.Fprintf(os.Stderr, "VERIF-INFRA %s race probe must run with GORACE=log_path=... (race build)\n", prop)
		os.Exit(3)
	}
}

// vrpRaceVerdict reads the reports written since the last call; a report whose two accesses are both in
// repository code is a violation.
func vrpRaceVerdict(desc string) (viol, class string, harnessOnly int) {
	for _, rep := range vhook.NewRaceReports() {
		if rep.Repo {
			if viol == "" {
				viol = fmt.Sprintf("%s: the race detector reports a data race between goroutines of the repository:\n%s", desc, rep.Text)
				class = rep.Class
			}
		} else {
			harnessOnly++
		}
	}
	return
}

// ---------------------------------------------------------------------------------------------
// C08: all channels in edge-multi mode, processed concurrently by the real ProcessSegments

const (
	vrpNchan = 3
	vrpNpre  = 4
	vrpNsamp = 14
	vrpL     = 4*vrpNsamp + 14 // 70
	vrpMid   = 2*vrpNsamp + 3  // 31
)

// vrpTruth: vEMTTruth's staircase (sub-threshold position-dependent ripple, monotone ramps of 150 counts per
// sample), with edges in every channel and a different ripple phase and baseline per channel.
func vrpTruth(L, sign int, edges [][]vEdge) [][]RawType {
	truth := make([][]RawType, len(edges))
	for ch := range edges {
		truth[ch] = make([]RawType, L)
		for f := 0; f < L; f++ {
			v := 5000 + 17*ch + (f*(5+2*ch))%7 - (f/4)%3
			for _, e := range edges[ch] {
				k := f - e.pos + 1
				if k > e.ramp {
					k = e.ramp
				}
				if k > 0 {
					v += sign * 150 * k
				}
			}
			truth[ch][f] = RawType(v)
		}
	}
	return truth
}

type vrpLayout struct {
	name  string
	edges [][]vEdge
}

func vrpLayouts() []vrpLayout {
	m := vrpMid
	return []vrpLayout{
		{"same-frames", [][]vEdge{{{m, 2}, {m + 20, 1}}, {{m, 2}, {m + 20, 1}}, {{m, 2}, {m + 20, 1}}}},
		{"one-frame-apart", [][]vEdge{{{m, 1}, {m + 20, 2}}, {{m + 1, 2}, {m + 19, 3}}, {{m + 2, 3}, {m + 18, 1}}}},
		{"close-pairs", [][]vEdge{{{m, 2}, {m + 5, 1}}, {{m + 1, 1}, {m + 6, 2}}, {{m, 3}, {m + 4, 1}, {m + 19, 1}}}},
		{"start-up+mid", [][]vEdge{{{vrpNpre + 1, 1}, {m + 1, 1}}, {{vrpNpre + 2, 2}, {m, 2}}, {{m, 1}, {m + vrpNsamp, 1}}}},
	}
}

type vrpPartition struct {
	name   string
	bounds []int
}

func vrpPartitions() []vrpPartition {
	uniform := func(b int) []int {
		out := []int{0}
		for p := b; p < vrpL; p += b {
			out = append(out, p)
		}
		return append(out, vrpL)
	}
	m := vrpMid
	return []vrpPartition{
		{"one-block", []int{0, vrpL}},
		{"cut-after-edge", []int{0, m + 1, vrpL}},
		{"cuts-around-edge", []int{0, m - 2, m + 3, vrpL}},
		{"blocks-of-10", uniform(10)},
		{"blocks-of-7", uniform(7)},
	}
}

type vrpRec struct {
	f, pre, n int
	data      string
	t         time.Time
}

func (r vrpRec) String() string { return fmt.Sprintf("{f=%d pre=%d len=%d}", r.f, r.pre, r.n) }

// vrpRunEMT sends truth through a fresh source with len(truth) channels, all in the given edge-multi
// configuration, block by block through the real ProcessSegments, and returns the records per channel.
func vrpRunEMT(x *vexp.X, ts TriggerState, truth [][]RawType, bounds []int) ([][]vrpRec, error) {
	return vrpRun(x, ts, truth, bounds, false)
}

// vrpRun: the same for any trigger configuration, with the blocks labelled signed or unsigned.
func vrpRun(x *vexp.X, ts TriggerState, truth [][]RawType, bounds []int, signed bool) ([][]vrpRec, error) {
	nchan := len(truth)
	src := vNewSource(nchan, vrpNpre, vrpNsamp)
	defer src.close()
	idx := make([]int, nchan)
	for i := range idx {
		idx[i] = i
	}
	if err := src.ds.ChangeTriggerState(&FullTriggerState{ChannelIndices: idx, TriggerState: ts}); err != nil {
		return nil, err
	}
	recs := make([][]vrpRec, nchan)
	for b := 0; b+1 < len(bounds); b++ {
		if x != nil {
			x.Steps++
		}
		if err := src.ds.ProcessSegments(vBlock(truth, bounds[b], bounds[b+1], signed)); err != nil {
			return nil, fmt.Errorf("ProcessSegments(block %d [%d,%d)): %v", b, bounds[b], bounds[b+1], err)
		}
		for ch := 0; ch < nchan; ch++ {
			for _, r := range src.drain(ch) {
				recs[ch] = append(recs[ch], vrpRec{int(r.trigFrame - vF0), r.presamples, len(r.data), fmt.Sprint(r.data), r.trigTime})
				if x != nil {
					x.Logf("block %d [%d,%d): ch%d record f=%d pre=%d len=%d", b, bounds[b], bounds[b+1], ch, int(r.trigFrame-vF0), r.presamples, len(r.data))
				}
			}
		}
	}
	return recs, nil
}

func TestVerifC08Race(t *testing.T) {
	r := vexp.NewRunner("C08")
	r.CrashTrace = true
	defer r.Finish()
	vrpNeedRaceBuild("C08")
	cfgs := vEMTConfigs()
	layouts := vrpLayouts()
	parts := vrpPartitions()
	r.SetBound(fmt.Sprintf("race probe (race-detector build, GOMAXPROCS=%d): %d channels all in edge-multi mode through the real ProcessSegments (one goroutine per channel), npre=%d nsamp=%d, "+
		"the 24 edge-multi configurations x %d edge layouts (edges on the same frame in every channel, one frame apart, close pairs, start-up + mid-stream) x %d block patterns (1, 2, 3 blocks, uniform 10 and 7)",
		runtime.GOMAXPROCS(0), vrpNchan, vrpNpre, vrpNsamp, len(layouts), len(parts)))
	// one case per record mode (so that the work spreads over the workers); everything else is a choice
	perMode := map[EMTMode][]vEMTCfg{}
	var modes []EMTMode
	for _, c := range cfgs {
		if _, ok := perMode[c.mode]; !ok {
			modes = append(modes, c.mode)
		}
		perMode[c.mode] = append(perMode[c.mode], c)
	}
	for _, mode := range modes {
		mcfgs := perMode[mode]
		id := "race/emt/" + strings.SplitN(mcfgs[0].name, "/", 2)[0]
		r.DFS(id, -1, func(x *vexp.X) vexp.Result {
			vF0 = 1000
			cfg := mcfgs[x.Choose(len(mcfgs))]
			lay := layouts[x.Choose(len(layouts))]
			part := parts[x.Choose(len(parts))]
			desc := fmt.Sprintf("%s, edges %s %v, blocks %s %v", cfg.name, lay.name, lay.edges, part.name, part.bounds)
			x.Logf("%s", desc)
			truth := vrpTruth(vrpL, cfg.sign, lay.edges)
			ts := cfg.trigState()
			all, err := vrpRunEMT(x, ts, truth, part.bounds)
			viol, class, nh := vrpRaceVerdict(desc)
			if viol != "" {
				return vexp.Result{Violation: viol, Class: class}
			}
			if err != nil {
				return vexp.Result{Violation: desc + ": driver step failed: " + err.Error(), Class: "driver-error"}
			}
			// functional oracle: a channel's records do not depend on what the other channels carry
			nrec := 0
			var out strings.Builder
			for ch := 0; ch < vrpNchan; ch++ {
				alone, err := vrpRunEMT(nil, ts, truth[ch:ch+1], part.bounds)
				if err != nil {
					return vexp.Result{Violation: desc + ": single-channel reference run failed: " + err.Error(), Class: "driver-error"}
				}
				same := len(all[ch]) == len(alone[0])
				for i := 0; same && i < len(alone[0]); i++ {
					same = all[ch][i] == alone[0][i]
				}
				if !same {
					return vexp.Result{Violation: fmt.Sprintf("%s: channel %d processed together with %d other edge-multi channels gives records %v, the same stream processed alone gives %v",
						desc, ch, vrpNchan-1, all[ch], alone[0]), Class: "emt-depends-on-other-channels"}
				}
				nrec += len(all[ch])
				fmt.Fprintf(&out, "ch%d:%v ", ch, all[ch])
			}
			// the reference runs are single-channel, but they too run repository goroutines
			if viol, class, _ := vrpRaceVerdict(desc + " (single-channel reference runs)"); viol != "" {
				return vexp.Result{Violation: viol, Class: class}
			}
			busy := 0
			for ch := range all {
				if len(all[ch]) > 0 {
					busy++
				}
			}
			return vexp.Result{Nontrivial: busy >= 2, Outcome: fmt.Sprintf("%sharness-only-reports=%d", out.String(), nh)}
		})
	}
}

// ---------------------------------------------------------------------------------------------
// C02: every channel carries the same edge / level / auto configuration and its own pulses; the channels'
// trigger searches run concurrently in the real ProcessSegments

// vrpTrigTruth: vMakeTruth's streams (baseline + position-dependent ripple, pulses of 400 counts decaying by 30 per
// sample), with pulses in every channel and a different ripple per channel.
func vrpTrigTruth(L int, signed bool, sign int, pulses [][]int) [][]RawType {
	truth := make([][]RawType, len(pulses))
	for ch := range pulses {
		truth[ch] = make([]RawType, L)
		for f := 0; f < L; f++ {
			v := vBase(signed, sign) + vRipple(f, ch)
			for _, p := range pulses[ch] {
				if a := 400 - 30*(f-p); f >= p && a > 0 {
					v += sign * a
				}
			}
			truth[ch][f] = vToRaw(v, signed)
		}
	}
	return truth
}

type vrpPulseLayout struct {
	name   string
	pulses [][]int
}

func vrpPulseLayouts() []vrpPulseLayout {
	m := vrpMid
	return []vrpPulseLayout{
		{"one-frame-apart", [][]int{{m}, {m + 1}, {m + 2}}},
		{"far-apart", [][]int{{vrpNpre + 3}, {m}, {m + 20}}},
		{"two-pulses", [][]int{{m, m + 20}, {m + 3, m + 18}, {vrpNpre + 2, m + 9}}},
		{"start-up+late", [][]int{{vrpNpre + 1, m + 1}, {3, vrpL - vrpNsamp + vrpNpre - 1}, {m - 5, vrpL - 2}}},
	}
}

func TestVerifC02Race(t *testing.T) {
	r := vexp.NewRunner("C02")
	r.CrashTrace = true
	defer r.Finish()
	vrpNeedRaceBuild("C02")
	layouts := vrpPulseLayouts()
	parts := vrpPartitions()
	r.SetBound(fmt.Sprintf("race probe (race-detector build, GOMAXPROCS=%d): %d channels all with the same trigger configuration through the real ProcessSegments (one goroutine per channel), npre=%d nsamp=%d, "+
		"signed/unsigned x the 10 edge/level/auto configurations of the main part x %d pulse layouts (different positions in every channel: one frame apart, far apart, two pulses each, start-up + late) x %d block patterns (1, 2, 3 blocks, uniform 10 and 7)",
		runtime.GOMAXPROCS(0), vrpNchan, vrpNpre, vrpNsamp, len(layouts), len(parts)))
	for _, signed := range []bool{false, true} {
		for _, cfg := range vTrigConfigs(signed, false) {
			signed, cfg := signed, cfg
			r.DFS(fmt.Sprintf("race/trig/signed=%v/%s", signed, cfg.name), -1, func(x *vexp.X) vexp.Result {
				vF0 = 1000
				lay := layouts[x.Choose(len(layouts))]
				part := parts[x.Choose(len(parts))]
				desc := fmt.Sprintf("signed=%v %s, pulses %s %v, blocks %s %v", signed, cfg.name, lay.name, lay.pulses, part.name, part.bounds)
				x.Logf("%s", desc)
				truth := vrpTrigTruth(vrpL, signed, cfg.pulseSign, lay.pulses)
				all, err := vrpRun(x, cfg.ts, truth, part.bounds, signed)
				viol, class, nh := vrpRaceVerdict(desc)
				if viol != "" {
					return vexp.Result{Violation: viol, Class: class}
				}
				if err != nil {
					return vexp.Result{Violation: desc + ": driver step failed: " + err.Error(), Class: "driver-error"}
				}
				// functional oracle: a channel's triggers do not depend on what the other channels carry
				var out strings.Builder
				busy := 0
				for ch := 0; ch < vrpNchan; ch++ {
					alone, err := vrpRun(nil, cfg.ts, truth[ch:ch+1], part.bounds, signed)
					if err != nil {
						return vexp.Result{Violation: desc + ": single-channel reference run failed: " + err.Error(), Class: "driver-error"}
					}
					same := len(all[ch]) == len(alone[0])
					for i := 0; same && i < len(alone[0]); i++ {
						same = all[ch][i] == alone[0][i]
					}
					if !same {
						return vexp.Result{Violation: fmt.Sprintf("%s: channel %d processed together with %d other channels in the same trigger configuration gives records %v, the same stream processed alone gives %v",
							desc, ch, vrpNchan-1, all[ch], alone[0]), Class: "trigger-depends-on-other-channels"}
					}
					if len(all[ch]) > 0 {
						busy++
					}
					fmt.Fprintf(&out, "ch%d:%v ", ch, all[ch])
				}
				// the reference runs are single-channel, but they too run repository goroutines
				if viol, class, _ := vrpRaceVerdict(desc + " (single-channel reference runs)"); viol != "" {
					return vexp.Result{Violation: viol, Class: class}
				}
				return vexp.Result{Nontrivial: busy >= 2, Outcome: fmt.Sprintf("%sharness-only-reports=%d", out.String(), nh)}
			})
		}
	}
}

// ---------------------------------------------------------------------------------------------
// C14: the two PUB-socket goroutines convert the same records at the same time

type vrpSockets struct {
	recs, sums chan []*DataRecord
	port       int
	seq        int64
}

var vrpSock *vrpSockets

// vrpGetSockets starts (once per worker process) the real publisher goroutines on two private ports and makes
// their channels the library-global ones, as configurePubRecordsSocket / configurePubSummariesSocket do.
func vrpGetSockets() *vrpSockets {
	if vrpSock != nil {
		return vrpSock
	}
	var i, n int
	fmt.Sscanf(os.Getenv("VERIF_SHARD"), "%d/%d", &i, &n)
	var lastErr error
	for k := 0; k < 40; k++ { // another run of the same check may hold this worker's pair
		port := 17500 + 2*i + 64*k
		recs, err := startSocket(port, messageRecords)
		if err != nil {
			lastErr = err
			continue
		}
		sums, err := startSocket(port+1, messageSummaries)
		if err != nil {
			lastErr = err
			close(recs)
			continue
		}
		vrpSock = &vrpSockets{recs: recs, sums: sums, port: port}
		PubRecordsChan, PubSummariesChan = recs, sums
		return vrpSock
	}
	fmt.Fprintf(os.Stderr, "VERIF-INFRA C14 race probe: startSocket: %v\n", lastErr)
	os.Exit(3)
	return nil
}

// drain: a marker batch follows the execution's batches; once both channels are empty the socket goroutines have
// taken it, so everything before it has been converted and handed to ZMQ (and any report about it is written).
func (s *vrpSockets) drain() bool {
	for m := 0; m < 2; m++ {
		s.seq++
		mark := []*DataRecord{{channelIndex: 65535, trigFrame: FrameIndex(-s.seq), trigTime: vT0, data: []RawType{}}}
		s.recs <- mark
		s.sums <- mark
	}
	t0 := time.Now()
	for spins := 0; len(s.recs) > 0 || len(s.sums) > 0; spins++ {
		if spins < 100 {
			runtime.Gosched()
		} else {
			time.Sleep(200 * time.Microsecond)
		}
		if time.Since(t0) > 60*time.Second {
			return false
		}
	}
	return true
}

type vrpFamily struct {
	name string
	rec  func(ch, i int, tag int64) *DataRecord
}

func vrpSamples(n int, seed int) []RawType {
	d := make([]RawType, n)
	for i := range d {
		d[i] = RawType(1000 + (i*37+seed*11)%4001)
	}
	return d
}

func vrpFamilies() []vrpFamily {
	base := func(ch int, tag int64) *DataRecord {
		return &DataRecord{channelIndex: ch, presamples: 2, sampPeriod: 1e-3, voltsPerArb: 0.5, trigTime: vT0.Add(time.Duration(tag) * time.Microsecond), trigFrame: FrameIndex(tag),
			pretrigMean: 1.5 + float64(tag), peakValue: 77.25, pulseRMS: 3.5, pulseAverage: -2.25, residualStdDev: 0.125, pretrigDelta: -7.25}
	}
	return []vrpFamily{
		{"short-unsigned", func(ch, i int, tag int64) *DataRecord {
			r := base(ch, tag)
			r.data, r.modelCoefs = vrpSamples(4+i, ch), []float64{float64(tag), -1.5}
			return r
		}},
		{"long-signed", func(ch, i int, tag int64) *DataRecord {
			r := base(ch, tag)
			r.signed = true
			r.data, r.modelCoefs = vrpSamples(1000+100*i, ch), []float64{1, 2, 3, float64(tag)}
			return r
		}},
		{"mixed", func(ch, i int, tag int64) *DataRecord {
			r := base(ch, tag)
			r.signed = (ch+i)%2 == 1
			r.data = vrpSamples([]int{1, 300, 17, 64}[(ch+i)%4], ch+i)
			r.modelCoefs = make([]float64, []int{0, 1, 64, 3}[(ch+i)%4])
			for k := range r.modelCoefs {
				r.modelCoefs[k] = float64(tag) + float64(k)/8
			}
			return r
		}},
		{"empty-data-many-coefs", func(ch, i int, tag int64) *DataRecord {
			r := base(ch, tag)
			r.presamples = 0
			r.data = []RawType{}
			r.modelCoefs = make([]float64, 64)
			for k := range r.modelCoefs {
				r.modelCoefs[k] = float64(tag) - float64(k)
			}
			return r
		}},
	}
}

func TestVerifC14Race(t *testing.T) {
	r := vexp.NewRunner("C14")
	r.CrashTrace = true
	defer r.Finish()
	vrpNeedRaceBuild("C14")
	chans := []int{0, 1, 256}
	sizes := []int{1, 3, 8}
	r.SetBound(fmt.Sprintf("race probe (race-detector build, GOMAXPROCS=%d): the real startSocket goroutines for messageRecords and messageSummaries on two PUB sockets, fed by the real PublishData of %d channels' "+
		"DataPublishers (one goroutine per channel, as ProcessSegments does); 1-3 rounds x batch sizes %v per channel x 4 record families (short unsigned, long signed, mixed lengths/coefficient counts, no samples + 64 coefficients)",
		runtime.GOMAXPROCS(0), len(chans), sizes))
	for _, fam := range vrpFamilies() {
		fam := fam
		r.DFS("race/pub/"+fam.name, -1, func(x *vexp.X) vexp.Result {
			s := vrpGetSockets()
			// one DataPublisher per channel, wired the way PrepareRun wires a channel's publisher
			dps := make([]*DataPublisher, len(chans))
			for i := range dps {
				dps[i] = &DataPublisher{}
				dps[i].SetPubRecords()
				dps[i].SetPubSummaries()
				if dps[i].PubRecordsChan != s.recs || dps[i].PubSummariesChan != s.sums {
					panic("harness: the publishers are not wired to the socket channels")
				}
			}
			rounds := 1 + x.Choose(3)
			var shape []int
			tag := int64(1000)
			total := 0
			for b := 0; b < rounds; b++ {
				n := sizes[x.Choose(len(sizes))]
				shape = append(shape, n)
				batches := make([][]*DataRecord, len(chans))
				for ci, ch := range chans {
					for i := 0; i < n; i++ {
						tag++
						batches[ci] = append(batches[ci], fam.rec(ch, i, tag))
					}
				}
				var wg sync.WaitGroup
				errs := make([]error, len(chans))
				for ci := range chans {
					wg.Add(1)
					go func(ci int) {
						defer wg.Done()
						errs[ci] = dps[ci].PublishData(batches[ci])
					}(ci)
				}
				wg.Wait()
				x.Steps += len(chans)
				total += n * len(chans)
				for ci, err := range errs {
					if err != nil {
						return vexp.Result{Violation: fmt.Sprintf("PublishData(channel %d): %v", chans[ci], err), Class: "driver-error"}
					}
				}
			}
			desc := fmt.Sprintf("%s records, %d channels, rounds of %v records per channel (ports %d/%d)", fam.name, len(chans), shape, s.port, s.port+1)
			x.Logf("%s", desc)
			if !s.drain() {
				fmt.Fprintf(os.Stderr, "VERIF-INFRA C14 race probe: the socket goroutines did not take the batches within 60 s (%d / %d waiting)\n", len(s.recs), len(s.sums))
				os.Exit(3)
			}
			viol, class, nh := vrpRaceVerdict(desc)
			if viol != "" {
				return vexp.Result{Violation: viol, Class: class}
			}
			return vexp.Result{Nontrivial: total >= 2, Outcome: fmt.Sprintf("%s %v harness-only-reports=%d", fam.name, shape, nh)}
		})
	}
}
