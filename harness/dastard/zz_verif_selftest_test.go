//go:build verif

package dastard

// Self-test of engine B (run by bin/setup): small programs whose numbers of interleavings, deadlocks and
// select alternatives are known in closed form. A toolchain or runtime-patch drift shows up here, not as a
// silent loss of coverage in the property checks.

import (
	"fmt"
	"sync"
	"testing"
	"time"

	"github.com/usnistgov/dastard/internal/vexp"
	"github.com/usnistgov/dastard/internal/vhook"
)

func vSelfCount(r *vexp.Runner, name string, bound int, want int64, wantDeadlocks int64, mk func() []func()) {
	var n, dl int64
	r.DFS("selftest/"+name, bound, func(x *vexp.X) vexp.Result {
		s := vhook.Run(x, vhook.Options{MaxSteps: 200}, mk()...)
		out := s.Outcome()
		s.Release(time.Second)
		if out.Pruned {
			return vexp.Result{Skip: true}
		}
		n++
		if out.Deadlock {
			dl++
		}
		return vexp.Result{Outcome: s.TraceString()}
	})
	if r.Replaying() {
		return
	}
	if n != want || dl != wantDeadlocks {
		panic(fmt.Sprintf("VERIF-INFRA scheduler self-test %s: %d executions (%d deadlocks), expected %d (%d)", name, n, dl, want, wantDeadlocks))
	}
}

func TestVerifSelfTest(t *testing.T) {
	r := vexp.NewRunner("SELFTEST")
	defer r.Finish()
	r.SetBound("scheduler self-test")
	// two independent threads with 2 points each: 3 steps per thread, C(6,3) = 20 interleavings
	indep := func() []func() {
		f := func() { vhook.P(950); vhook.P(951) }
		return []func(){f, f}
	}
	vSelfCount(r, "independent/unbounded", -1, 20, 0, indep)
	vSelfCount(r, "independent/pb0", 0, 2, 0, indep)
	// with one preemption: 2 (no preemption) + for each first thread, preempt after step 1 or 2, then the
	// other thread runs to its end (3 steps, or is it preempted? no budget left) and the first finishes: 2*2 = 4
	vSelfCount(r, "independent/pb1", 1, 6, 0, indep)
	// lock-order inversion: deadlock exists
	var a, b sync.Mutex
	inv := func() []func() {
		a, b = sync.Mutex{}, sync.Mutex{}
		return []func(){
			func() {
				vhook.P(952)
				a.Lock()
				vhook.P(953)
				b.Lock()
				b.Unlock()
				a.Unlock()
			},
			func() {
				vhook.P(954)
				b.Lock()
				vhook.P(955)
				a.Lock()
				a.Unlock()
				b.Unlock()
			},
		}
	}
	var deadlocks int64
	r.DFS("selftest/lock-inversion", -1, func(x *vexp.X) vexp.Result {
		s := vhook.Run(x, vhook.Options{MaxSteps: 200}, inv()...)
		if s.Outcome().Deadlock {
			deadlocks++
		}
		s.Release(100 * time.Millisecond)
		return vexp.Result{}
	})
	if !r.Replaying() && deadlocks == 0 {
		panic("VERIF-INFRA scheduler self-test: the lock-order inversion deadlock was not found")
	}
	// select over two ready channels: both alternatives; over one ready channel: one
	sel := func(nready int) func() []func() {
		return func() []func() {
			c1, c2 := make(chan int, 1), make(chan int, 1)
			c1 <- 1
			if nready == 2 {
				c2 <- 2
			}
			return []func(){func() {
				vhook.PSC(956, []interface{}{c1, c2}, []bool{false, false}, false)
				select {
				case <-c1:
					vhook.C(0)
				case <-c2:
					vhook.C(1)
				}
			}}
		}
	}
	vSelfCount(r, "select/two-ready", -1, 2, 0, sel(2))
	vSelfCount(r, "select/one-ready", -1, 1, 0, sel(1))
	// rendezvous between two threads parked before inspectable selects on an unbuffered channel: no false deadlock
	rv := func() []func() {
		c := make(chan int)
		quit := make(chan int)
		return []func(){
			func() {
				vhook.PSC(957, []interface{}{c, quit}, []bool{true, false}, false)
				select {
				case c <- 1:
					vhook.C(0)
				case <-quit:
					vhook.C(1)
				}
			},
			func() {
				vhook.PSC(958, []interface{}{c, quit}, []bool{false, false}, false)
				select {
				case <-c:
					vhook.C(0)
				case <-quit:
					vhook.C(1)
				}
			},
		}
	}
	vSelfCount(r, "select/rendezvous", -1, 2, 0, rv)
}
