//go:build verif

package dastard

// Shared driver for C01 / C02 / C08: a closed, deterministic driver around the real
// PrepareRun -> ChangeTriggerState -> ProcessSegments(block)* pipeline with ground-truth streams.

import (
	"fmt"
	"os"
	"path/filepath"
	"sort"
	"strings"
	"time"

	"github.com/spf13/viper"
	"github.com/usnistgov/dastard/internal/vexp"
)

type vTrigCfg struct {
	name      string
	ts        TriggerState
	pulseSign int
	emt       bool
}

// control histories leading to the settings (C02 quantifier)
const (
	vCtrlRestored      = iota // settings restored from the saved configuration by PrepareRun; nothing else configures
	vCtrlBefore               // ChangeTriggerState before the first block
	vCtrlAfterBlock1          // ChangeTriggerState after the first block
	vCtrlLengthsSame          // configured before; ConfigurePulseLengths with unchanged lengths after the first block
	vCtrlLengthsChange        // configured before; ConfigurePulseLengths with different lengths after the first block
	vNCtrl
)

var vCtrlNames = []string{"restored", "before", "afterblock1", "lengths-same", "lengths-change"}

type vEpoch struct {
	startBlock int
	ts         TriggerState
	npre       int
	nsamp      int
}

type vTrigScenario struct {
	npre, nsamp int
	signed      bool
	cfg         vTrigCfg
	ctrl        int
	pulses      []int
	f0          *FrameIndex // frame number of the first sample (nil: 1000)
	slow        []int       // start samples of slow pulses: they cross the level threshold without meeting the edge criterion
	pulses2     []int       // non-nil: a third channel with the same trigger settings as channel 0, its own pulses, no group connection
	npre2       int         // lengths requested by the lengths-change history (0: npre+1, nsamp+2)
	nsamp2      int
	L           int
	truth       [][]RawType
	vals        []int // channel 0 as integers (signed or unsigned interpretation)
	cfgFile     string
}

func vRipple(f, ch int) int { return (f*(7+2*ch))%11 + (f/3)%3 }

func vBase(signed bool, sign int) int {
	b := 1000
	if signed {
		b = -60
	}
	return b
}

func vToRaw(v int, signed bool) RawType {
	if signed {
		return RawType(uint16(int16(v)))
	}
	return RawType(uint16(v))
}

func vFromRaw(r RawType, signed bool) int {
	if signed {
		return int(int16(r))
	}
	return int(r)
}

// vMakeTruth builds two channels of position-dependent data; channel 0 carries the pulses.
func vMakeTruth(L int, signed bool, sign int, pulses []int, slow ...int) [][]RawType {
	return vMakeTruth3(L, signed, sign, pulses, nil, slow...)
}

// vMakeTruth3: with pulses2 != nil a third channel carries pulses of its own.
func vMakeTruth3(L int, signed bool, sign int, pulses, pulses2 []int, slow ...int) [][]RawType {
	nch := 2
	if pulses2 != nil {
		nch = 3
	}
	truth := make([][]RawType, nch)
	for ch := 0; ch < nch; ch++ {
		truth[ch] = make([]RawType, L)
		for f := 0; f < L; f++ {
			v := vBase(signed, sign) + vRipple(f, ch)
			if ch == 2 {
				for _, p := range pulses2 {
					if a := 400 - 30*(f-p); f >= p && a > 0 {
						v += sign * a
					}
				}
			}
			if ch == 0 {
				for _, p := range pulses {
					if f >= p {
						a := 400 - 30*(f-p)
						if a > 0 {
							v += sign * a
						}
					}
				}
				for _, p := range slow { // 15 per sample up to 210, then down again: never an edge (4-sample difference <= 60+ripple)
					if k := f - p; k >= 0 {
						a := 15 * k
						if k > 14 {
							a = 210 - 15*(k-14)
						}
						if a > 0 {
							v += sign * a
						}
					}
				}
			}
			truth[ch][f] = vToRaw(v, signed)
		}
	}
	return truth
}

func vLevelThreshold(signed bool, sign int) RawType {
	return vToRaw(vBase(signed, sign)+sign*150, signed)
}

// vTrigConfigs is the trigger-configuration alphabet for C01/C02 (EMT configurations only for C01).
func vTrigConfigs(signed bool, withEMT bool) []vTrigCfg {
	var out []vTrigCfg
	add := func(name string, sign int, ts TriggerState) {
		out = append(out, vTrigCfg{name: name, ts: ts, pulseSign: sign})
	}
	add("edge-rising", +1, TriggerState{EdgeTrigger: true, EdgeRising: true, EdgeLevel: 100})
	add("edge-falling", -1, TriggerState{EdgeTrigger: true, EdgeFalling: true, EdgeLevel: 100})
	add("level-rising", +1, TriggerState{LevelTrigger: true, LevelRising: true, LevelLevel: vLevelThreshold(signed, +1)})
	add("level-falling", +1, TriggerState{LevelTrigger: true, LevelRising: false, LevelLevel: vLevelThreshold(signed, +1)})
	add("auto-short", +1, TriggerState{AutoTrigger: true, AutoDelay: 3 * time.Millisecond})
	add("auto-long", +1, TriggerState{AutoTrigger: true, AutoDelay: 20 * time.Millisecond})
	add("auto-veto", +1, TriggerState{AutoTrigger: true, AutoDelay: 3 * time.Millisecond, AutoVetoRange: 100})
	add("edge+level+auto", +1, TriggerState{EdgeTrigger: true, EdgeRising: true, EdgeLevel: 100,
		LevelTrigger: true, LevelRising: false, LevelLevel: vLevelThreshold(signed, +1), AutoTrigger: true, AutoDelay: 9 * time.Millisecond})
	add("edge+level", +1, TriggerState{EdgeTrigger: true, EdgeRising: true, EdgeLevel: 100,
		LevelTrigger: true, LevelRising: true, LevelLevel: vLevelThreshold(signed, +1)})
	add("edge-both", -1, TriggerState{EdgeTrigger: true, EdgeRising: true, EdgeFalling: true, EdgeLevel: 100})
	if withEMT {
		for _, m := range []struct {
			name          string
			short, contam bool
		}{{"emt-twofull", false, true}, {"emt-variable", true, false}, {"emt-isolated", false, false}} {
			b := EMTBackwardCompatibleRPCFields{EdgeMultiMakeShortRecords: m.short, EdgeMultiMakeContaminatedRecords: m.contam,
				EdgeMultiDisableZeroThreshold: true, EdgeMultiLevel: 100, EdgeMultiVerifyNMonotone: 1}
			st, err := b.toEMTState()
			if err != nil {
				panic(err)
			}
			out = append(out, vTrigCfg{name: m.name, pulseSign: +1, emt: true,
				ts: TriggerState{EdgeMulti: true, EMTBackwardCompatibleRPCFields: b, EMTState: st}})
		}
	}
	return out
}

// vPrepareViper makes the global viper hold what a previous run would have saved (restored history)
// or nothing. It goes through a real YAML file so that the restore path is the start-up path.
func (sc *vTrigScenario) prepareViper() {
	viper.Reset()
	if sc.ctrl != vCtrlRestored {
		return
	}
	dir := os.Getenv("VERIF_WDIR")
	if dir == "" {
		dir = os.TempDir()
	}
	sc.cfgFile = filepath.Join(dir, "tmp", "restored_config.yaml")
	os.MkdirAll(filepath.Dir(sc.cfgFile), 0755)
	idx := []int{0}
	if sc.pulses2 != nil {
		idx = []int{0, 2}
	}
	viper.Set("trigger", []FullTriggerState{{ChannelIndices: idx, TriggerState: sc.cfg.ts}})
	if err := viper.WriteConfigAs(sc.cfgFile); err != nil {
		panic(err)
	}
	viper.Reset()
	viper.SetConfigFile(sc.cfgFile)
	if err := viper.ReadInConfig(); err != nil {
		panic(err)
	}
}

type vTrigRun struct {
	sc        *vTrigScenario
	bounds    []int // block boundaries: 0=b0<b1<...<bk=L
	epochs    []vEpoch
	recs      [][]*DataRecord // per channel, in emission order
	recBlock  [][]int         // block index in which each record was emitted
	err       error
	delivered []int // delivered sample count after each block
}

func (run *vTrigRun) epochOfBlock(b int) *vEpoch {
	e := &run.epochs[0]
	for i := range run.epochs {
		if run.epochs[i].startBlock <= b {
			e = &run.epochs[i]
		}
	}
	return e
}

// vChoosePartition enumerates block partitions of [0,L): either up to maxCuts arbitrary cuts or a
// uniform block size.
func vChoosePartition(x *vexp.X, L, maxCuts int, uniform bool) []int {
	bounds := []int{0}
	mode := 0
	if uniform {
		mode = x.Choose(2)
	}
	if mode == 1 {
		b := 1 + x.Choose(L/2)
		for p := b; p < L; p += b {
			bounds = append(bounds, p)
		}
		return append(bounds, L)
	}
	k := x.Choose(maxCuts + 1)
	prev := 0
	for j := 0; j < k; j++ {
		remaining := k - 1 - j
		maxpos := L - 1 - remaining
		pos := prev + 1 + x.Choose(maxpos-prev)
		bounds = append(bounds, pos)
		prev = pos
	}
	return append(bounds, L)
}

// execute runs the scenario with the given partition on fresh real objects.
func (sc *vTrigScenario) execute(x *vexp.X, bounds []int) *vTrigRun {
	vF0 = 1000
	if sc.f0 != nil {
		vF0 = *sc.f0
	}
	run := &vTrigRun{sc: sc, bounds: bounds}
	nch := len(sc.truth)
	src := vNewSource(nch, sc.npre, sc.nsamp)
	defer src.close()
	ds := src.ds
	run.recs = make([][]*DataRecord, nch)
	run.recBlock = make([][]int, nch)
	// channel 1 receives group triggers from channel 0
	if err := ds.ChangeGroupTrigger(true, &GroupTriggerState{Connections: map[int][]int{0: {1}}}); err != nil {
		run.err = err
		return run
	}
	full := &FullTriggerState{ChannelIndices: []int{0}, TriggerState: sc.cfg.ts}
	if nch > 2 {
		full.ChannelIndices = []int{0, 2}
	}
	npre, nsamp := sc.npre, sc.nsamp
	switch sc.ctrl {
	case vCtrlRestored:
		run.epochs = append(run.epochs, vEpoch{0, sc.cfg.ts, npre, nsamp})
	case vCtrlAfterBlock1:
		run.epochs = append(run.epochs, vEpoch{0, TriggerState{}, npre, nsamp})
	default:
		if err := ds.ChangeTriggerState(full); err != nil {
			run.err = err
			return run
		}
		run.epochs = append(run.epochs, vEpoch{0, sc.cfg.ts, npre, nsamp})
	}
	for b := 0; b+1 < len(bounds); b++ {
		if b == 1 {
			switch sc.ctrl {
			case vCtrlAfterBlock1:
				if err := ds.ChangeTriggerState(full); err != nil {
					run.err = err
					return run
				}
				run.epochs = append(run.epochs, vEpoch{1, sc.cfg.ts, npre, nsamp})
			case vCtrlLengthsSame:
				if err := ds.ConfigurePulseLengths(nsamp, npre); err != nil {
					run.err = err
					return run
				}
				run.epochs = append(run.epochs, vEpoch{1, sc.cfg.ts, npre, nsamp})
			case vCtrlLengthsChange:
				npre, nsamp = npre+1, nsamp+2
				if sc.nsamp2 > 0 {
					npre, nsamp = sc.npre2, sc.nsamp2
				}
				if err := ds.ConfigurePulseLengths(nsamp, npre); err != nil {
					run.err = err
					return run
				}
				run.epochs = append(run.epochs, vEpoch{1, sc.cfg.ts, npre, nsamp})
			}
		}
		x.Steps++
		blk := vBlock(sc.truth, bounds[b], bounds[b+1], sc.signed)
		if err := ds.ProcessSegments(blk); err != nil {
			run.err = fmt.Errorf("ProcessSegments(block %d [%d,%d)): %v", b, bounds[b], bounds[b+1], err)
			return run
		}
		run.delivered = append(run.delivered, bounds[b+1])
		for ch := 0; ch < nch; ch++ {
			for _, r := range src.drain(ch) {
				run.recs[ch] = append(run.recs[ch], r)
				run.recBlock[ch] = append(run.recBlock[ch], b)
				x.Logf("block %d [%d,%d): ch%d record f=%d pre=%d len=%d", b, bounds[b], bounds[b+1], ch, int(r.trigFrame-vF0), r.presamples, len(r.data))
			}
		}
	}
	return run
}

// checkExcerpts is the C01 oracle.
func (run *vTrigRun) checkExcerpts() (viol, class string, straddles int) {
	sc := run.sc
	if run.err != nil {
		return "driver step failed: " + run.err.Error(), "driver-error", 0
	}
	for ch := range run.recs {
		for i, r := range run.recs[ch] {
			b := run.recBlock[ch][i]
			e := run.epochOfBlock(b)
			f := int(r.trigFrame - vF0)
			n := len(r.data)
			pre := r.presamples
			variable := e.ts.EdgeMulti && e.ts.EMTState.mode == EMTRecordsVariableLength && ch != 1
			where := fmt.Sprintf("ch%d record #%d (trigger sample %d, emitted in block %d [%d,%d))", ch, i, f, b, run.bounds[b], run.bounds[b+1])
			if !variable {
				if n != e.nsamp || pre != e.npre {
					return fmt.Sprintf("%s has length %d / pretrigger %d, configured %d / %d", where, n, pre, e.nsamp, e.npre), "record-wrong-lengths", 0
				}
			} else if n < 1 || pre < 0 || pre >= n+1 {
				return fmt.Sprintf("%s declares length %d / pretrigger %d", where, n, pre), "record-wrong-lengths", 0
			}
			lo := f - pre
			if lo < 0 || lo+n > run.delivered[b] {
				return fmt.Sprintf("%s covers samples [%d,%d) but only [0,%d) had been delivered", where, lo, lo+n, run.delivered[b]), "record-outside-delivered-data", 0
			}
			for j := 0; j < n; j++ {
				if r.data[j] != sc.truth[ch][lo+j] {
					return fmt.Sprintf("%s: sample %d is %d but the source delivered %d at stream position %d (record is not the excerpt around its stated trigger frame)",
						where, j, r.data[j], sc.truth[ch][lo+j], lo+j), "record-data-mismatch", 0
				}
			}
			if !r.trigTime.Equal(vTimeOf(f)) {
				return fmt.Sprintf("%s: trigger time %v, block stamps assign %v to that sample", where, r.trigTime, vTimeOf(f)), "record-time-mismatch", 0
			}
			if r.signed != sc.signed || r.channelIndex != ch {
				return fmt.Sprintf("%s: signed=%v channelIndex=%d, expected %v %d", where, r.signed, r.channelIndex, sc.signed, ch), "record-label-mismatch", 0
			}
			for _, c := range run.bounds[1 : len(run.bounds)-1] {
				if c > lo && c < lo+n {
					straddles++
					break
				}
			}
		}
	}
	return "", "", straddles
}

func (sc *vTrigScenario) edgeCrit(ts *TriggerState, s int) bool {
	if !ts.EdgeTrigger || s < 3 {
		return false
	}
	v := sc.vals
	d := v[s] + v[s-1] - v[s-2] - v[s-3]
	return (ts.EdgeRising && d >= int(ts.EdgeLevel)) || (ts.EdgeFalling && d <= -int(ts.EdgeLevel))
}

func (sc *vTrigScenario) levelCrit(ts *TriggerState, s int) bool {
	if !ts.LevelTrigger || s < 1 {
		return false
	}
	thr := vFromRaw(ts.LevelLevel, sc.signed)
	v := sc.vals
	if ts.LevelRising {
		return v[s] >= thr && v[s-1] < thr
	}
	return v[s] <= thr && v[s-1] > thr
}

func vMax(a, b int) int {
	if a > b {
		return a
	}
	return b
}

// checkCriteria is the C02 oracle (independent scan of the ground-truth stream).
func (run *vTrigRun) checkCriteria() (viol, class string, nearCut int) {
	sc := run.sc
	if run.err != nil {
		return "driver step failed: " + run.err.Error(), "driver-error", 0
	}
	type trig struct{ f, block, nsamp int }
	var trigs []trig
	for i, r := range run.recs[0] {
		b := run.recBlock[0][i]
		trigs = append(trigs, trig{int(r.trigFrame - vF0), b, run.epochOfBlock(b).nsamp})
	}
	for ei := range run.epochs {
		e := &run.epochs[ei]
		lastBlock := len(run.bounds) - 2
		if ei+1 < len(run.epochs) {
			lastBlock = run.epochs[ei+1].startBlock - 1
		}
		if lastBlock < e.startBlock {
			continue
		}
		rangeLo := run.bounds[e.startBlock] + e.npre
		rangeHi := run.delivered[lastBlock] - (e.nsamp - e.npre) - 1 // inclusive
		if ei > 0 && (sc.ctrl == vCtrlLengthsSame || sc.ctrl == vCtrlLengthsChange) {
			// ConfigurePulseLengths leaves the trigger settings as they were: the samples of the previous block that
			// were not yet decidable under the old lengths (its last nsamp-npre samples) must not be lost either
			p := &run.epochs[ei-1]
			if lo := vMax(run.delivered[e.startBlock-1]-(p.nsamp-p.npre), run.bounds[0]+e.npre); lo < rangeLo {
				rangeLo = lo
			}
		}
		var mine []trig
		for _, t := range trigs {
			if t.block >= e.startBlock && t.block <= lastBlock {
				mine = append(mine, t)
			}
		}
		sort.Slice(mine, func(i, j int) bool { return mine[i].f < mine[j].f })
		isTrig := map[int]bool{}
		for _, t := range mine {
			isTrig[t.f] = true
		}
		anyEnabled := e.ts.AutoTrigger || e.ts.EdgeTrigger || e.ts.LevelTrigger
		// soundness
		for _, t := range mine {
			if !anyEnabled {
				return fmt.Sprintf("primary record at sample %d although no trigger type is enabled", t.f), "unsound-no-trigger-enabled", 0
			}
			if e.ts.AutoTrigger {
				continue
			}
			if t.f < 0 || t.f >= sc.L || !(sc.edgeCrit(&e.ts, t.f) || sc.levelCrit(&e.ts, t.f)) {
				return fmt.Sprintf("primary record at sample %d which satisfies no enabled criterion (%s)", t.f, sc.cfg.name), "unsound-trigger", 0
			}
		}
		// completeness
		for s := vMax(rangeLo, 3); s <= rangeHi; s++ {
			isE, isL := sc.edgeCrit(&e.ts, s), sc.levelCrit(&e.ts, s)
			if !isE && !isL {
				continue
			}
			for _, c := range run.bounds[1 : len(run.bounds)-1] {
				if c > s-e.nsamp && c <= s+e.nsamp {
					nearCut++
					break
				}
			}
			if isTrig[s] {
				continue
			}
			okE, okL := !isE, !isL
			for _, t := range trigs {
				ns := vMax(t.nsamp, e.nsamp)
				if isE && t.f < s && s <= t.f+ns {
					okE = true
				}
				if isL && s-t.f <= ns && t.f-s <= ns {
					okL = true
				}
			}
			if !okE {
				return fmt.Sprintf("sample %d satisfies the edge criterion, was decidable (range [%d,%d] of the configuration in force from block %d) but is neither a trigger nor within one record (%d) after an emitted trigger; triggers emitted: %v",
					s, rangeLo, rangeHi, e.startBlock, e.nsamp, trigs), "edge-trigger-lost", 0
			}
			if !okL {
				return fmt.Sprintf("sample %d satisfies the level criterion, was decidable (range [%d,%d]) but is neither a trigger nor within one record (%d) of an emitted trigger; triggers emitted: %v",
					s, rangeLo, rangeHi, e.nsamp, trigs), "level-trigger-lost", 0
			}
		}
		// edge-only: no overlap between reconfigurations
		if e.ts.EdgeTrigger && !e.ts.LevelTrigger && !e.ts.AutoTrigger {
			for i := 1; i < len(mine); i++ {
				if mine[i].f-mine[i-1].f < e.nsamp {
					return fmt.Sprintf("edge-only triggers at samples %d and %d are closer than one record (%d): overlapping records", mine[i-1].f, mine[i].f, e.nsamp), "edge-records-overlap", 0
				}
			}
		}
		// auto without veto: bounded gap
		if e.ts.AutoTrigger && e.ts.AutoVetoRange == 0 {
			d := int(e.ts.AutoDelay.Seconds()*1000.0 + 0.5)
			lim := vMax(d, e.nsamp) + e.nsamp
			for i := 1; i < len(mine); i++ {
				if mine[i].f-mine[i-1].f > lim {
					return fmt.Sprintf("auto trigger: gap between successive triggers %d -> %d exceeds max(delay %d, record %d)+record", mine[i-1].f, mine[i].f, d, e.nsamp), "auto-gap-too-long", 0
				}
			}
			if len(mine) > 0 && rangeHi >= mine[len(mine)-1].f+lim+1 {
				return fmt.Sprintf("auto trigger: last trigger at %d but samples up to %d were decidable: gap exceeds max(delay %d, record %d)+record", mine[len(mine)-1].f, rangeHi, d, e.nsamp), "auto-gap-too-long", 0
			}
			if len(mine) == 0 && rangeHi-rangeLo > 2*lim {
				return fmt.Sprintf("auto trigger enabled but no trigger in decidable range [%d,%d]", rangeLo, rangeHi), "auto-never-fires", 0
			}
		}
	}
	return "", "", nearCut
}

func (run *vTrigRun) outcome() string {
	var sb strings.Builder
	for ch := range run.recs {
		for _, r := range run.recs[ch] {
			fmt.Fprintf(&sb, "%d:%d/%d/%d ", ch, int(r.trigFrame-vF0), r.presamples, len(r.data))
		}
	}
	return sb.String()
}

type vGeom struct{ npre, nsamp int }

// vTrigCases enumerates the scenarios (cases) for C01 / C02.
func vTrigCases(r *vexp.Runner, withEMT bool, each func(id string, sc *vTrigScenario)) {
	geoms := []vGeom{{3, 5}, {4, 14}}
	for _, g := range geoms {
		L := 4*g.nsamp + 14
		for _, signed := range []bool{false, true} {
			for _, cfg := range vTrigConfigs(signed, withEMT) {
				for ctrl := 0; ctrl < vNCtrl; ctrl++ {
					if cfg.emt && ctrl == vCtrlRestored {
						continue // PrepareRun deliberately disables edge-multi when restoring (issue #271)
					}
					if cfg.emt && g.nsamp-g.npre < 1 {
						continue
					}
					// Cuts range over the whole stream, so what matters is the pulse position relative to
					// the stream start (start-up effects) and one mid-stream and one late position.
					var pulseSets [][]int
					mid := 2*g.nsamp + 3
					for p := 1; p <= g.npre+3; p++ {
						pulseSets = append(pulseSets, []int{p})
					}
					pulseSets = append(pulseSets, []int{mid}, []int{L - g.nsamp + g.npre - 1}, []int{L - 2})
					seps := []int{1, g.nsamp - 1, g.nsamp, g.nsamp + 1}
					if r.Thorough() {
						seps = nil
						for d := 1; d <= g.nsamp+2; d++ {
							seps = append(seps, d)
						}
					}
					for _, d := range seps {
						pulseSets = append(pulseSets, []int{mid, mid + d}, []int{g.npre, g.npre + d})
					}
					for _, ps := range pulseSets {
						sc := &vTrigScenario{npre: g.npre, nsamp: g.nsamp, signed: signed, cfg: cfg, ctrl: ctrl, pulses: ps, L: L}
						id := fmt.Sprintf("n%d-%d/signed=%v/%s/%s/pulses=%v", g.npre, g.nsamp, signed, cfg.name, vCtrlNames[ctrl], ps)
						each(id, sc)
						// a source whose frame numbers start at 0 (the simulated sources): early single pulses, fresh start
						if len(ps) == 1 && ps[0] <= g.npre+3 && (ctrl == vCtrlRestored || ctrl == vCtrlBefore) {
							zero := FrameIndex(0)
							sc0 := &vTrigScenario{npre: g.npre, nsamp: g.nsamp, signed: signed, cfg: cfg, ctrl: ctrl, pulses: ps, L: L, f0: &zero}
							each(id+"/frame0=0", sc0)
						}
					}
					// a third channel with the same settings and pulses of its own, at other times than channel 0's (channel 1
					// still receives channel 0's group triggers): blocks in which only one of the two has primaries
					if ctrl == vCtrlBefore || (ctrl == vCtrlRestored && !cfg.emt) {
						early, late := g.npre+1, L-g.nsamp+g.npre-1
						for _, pp := range [][2][]int{{{early}, {late}}, {{late}, {early}}, {{mid}, {early, late}}, {{early, late}, {mid}}} {
							sc := &vTrigScenario{npre: g.npre, nsamp: g.nsamp, signed: signed, cfg: cfg, ctrl: ctrl, pulses: pp[0], pulses2: pp[1], L: L}
							each(fmt.Sprintf("n%d-%d/signed=%v/%s/%s/pulses=%v/ch2pulses=%v", g.npre, g.nsamp, signed, cfg.name, vCtrlNames[ctrl], pp[0], pp[1]), sc)
						}
					}
					// level-trigger configurations: fast pulses (edge + level) followed by a slow, level-only pulse at
					// every offset from "inside the second pulse" to "two records after it" (the level scan has to find
					// its way through the dead times of one or two edge triggers)
					if cfg.ts.LevelTrigger && cfg.ts.LevelRising && !cfg.ts.AutoTrigger && ctrl == vCtrlBefore && g.nsamp >= 14 {
						f1 := g.npre + 2
						ds := []int{0, g.nsamp - 1, g.nsamp + 1, g.nsamp + g.nsamp/2, 2*g.nsamp - 1} // 0 = a single fast pulse
						if r.Thorough() {
							ds = nil
							for d := 0; d <= 2*g.nsamp; d++ {
								ds = append(ds, d)
							}
						}
						for _, d := range ds {
							fast := []int{f1, f1 + d}
							if d == 0 {
								fast = fast[:1]
							}
							for s := f1 + d - 4; s <= f1+d+2*g.nsamp && s <= L-16; s++ {
								sc := &vTrigScenario{npre: g.npre, nsamp: g.nsamp, signed: signed, cfg: cfg, ctrl: ctrl, pulses: fast, slow: []int{s}, L: L}
								id := fmt.Sprintf("n%d-%d/signed=%v/%s/%s/pulses=%v/slow=%d", g.npre, g.nsamp, signed, cfg.name, vCtrlNames[ctrl], fast, s)
								each(id, sc)
							}
						}
					}
				}
			}
		}
	}
	vTrigLengthCases(withEMT, each)
}

// vTrigLengthCases: ConfigurePulseLengths that changes the record length by a large factor after the first block
// (long records -> short ones and back): the unexamined tail of the old length is longer than the history the new
// length retains, and vice versa.
func vTrigLengthCases(withEMT bool, each func(id string, sc *vTrigScenario)) {
	for _, ch := range []struct{ a, b vGeom }{{vGeom{4, 34}, vGeom{3, 5}}, {vGeom{3, 5}, vGeom{4, 30}}, {vGeom{8, 30}, vGeom{3, 9}}} {
		L := 2*vMax(ch.a.nsamp, ch.b.nsamp) + 14
		for _, signed := range []bool{false, true} {
			for _, cfg := range vTrigConfigs(signed, withEMT) {
				for _, ps := range [][]int{{30}, {30, 37}, {24, 55}} {
					sc := &vTrigScenario{npre: ch.a.npre, nsamp: ch.a.nsamp, npre2: ch.b.npre, nsamp2: ch.b.nsamp, signed: signed, cfg: cfg,
						ctrl: vCtrlLengthsChange, pulses: ps, L: L}
					each(fmt.Sprintf("n%d-%d->n%d-%d/signed=%v/%s/%s/pulses=%v", ch.a.npre, ch.a.nsamp, ch.b.npre, ch.b.nsamp, signed, cfg.name, vCtrlNames[sc.ctrl], ps), sc)
				}
			}
		}
	}
}

func (sc *vTrigScenario) build() {
	sc.truth = vMakeTruth3(sc.L, sc.signed, sc.cfg.pulseSign, sc.pulses, sc.pulses2, sc.slow...)
	sc.vals = make([]int, sc.L)
	for i, v := range sc.truth[0] {
		sc.vals[i] = vFromRaw(v, sc.signed)
	}
}
