//go:build verif

package packets

// C15 — packet decoding is total and inverse to encoding.
// Engine A, structured exhaustive enumeration on the real ReadPacket / ReadPacketPlusPad / accessors /
// NewPacket / NewData / SetTimestamp / Bytes.
//
// (A) decode side: datagram = fixed header (header-length field consistent / +8 / -8 / +4 / 15,
//     magic right / wrong, version, payload-length field 0 / 8 / 16 / 6 / 3 / 4096 / 65535)
//     ++ every sequence of <= 3 (quick) / <= 4 (thorough) TLVs from a menu of valid and malformed encodings
//     ++ payload of the declared length / one byte short / eight bytes long; plus every truncation of two
//     well-formed datagrams. Oracle: decode returns an error, or a packet on which every accessor is safe and
//     the sizes agree; no panic in the decoder; bytes consumed <= header length + payload length declared.
// (B) encode side: every packet from NewPacket [+ SetTimestamp] [+ NewData] over the alphabets below;
//     Bytes() then ReadPacket must reproduce version, source id, sequence number, channel offset, shape,
//     payload samples and timestamp counter.

import (
	"bytes"
	"encoding/binary"
	"encoding/hex"
	"fmt"
	"math"
	"strings"
	"testing"
	"time"

	"github.com/usnistgov/dastard/internal/vexp"
)

// ---------------------------------------------------------------------------------------------
// TLV menu (simplest first inside each type)

type c15TLV struct {
	name string
	b    []byte
}

// c15raw builds a TLV whose physical size is its body padded to a multiple of 8; the length byte is
// whatever the caller says (so it can lie).
func c15raw(name string, t, l byte, body ...byte) c15TLV {
	b := append([]byte{t, l}, body...)
	for len(b)%8 != 0 {
		b = append(b, 0)
	}
	return c15TLV{name, b}
}

func c15be16(v uint16) []byte { return []byte{byte(v >> 8), byte(v)} }
func c15be32(v uint32) []byte { return []byte{byte(v >> 24), byte(v >> 16), byte(v >> 8), byte(v)} }
func c15be64(v uint64) []byte {
	return append(c15be32(uint32(v>>32)), c15be32(uint32(v))...)
}

func c15shape(name string, sizes ...int16) c15TLV {
	var body []byte
	for _, s := range sizes {
		body = append(body, c15be16(uint16(s))...)
	}
	return c15raw(name, tlvSHAPE, byte((2+len(body)+7)/8), body...)
}

func c15tsunit(name string, l, nbits byte, exp int8, num, denom uint16, t uint64) c15TLV {
	body := []byte{nbits, byte(exp)}
	body = append(body, c15be16(num)...)
	body = append(body, c15be16(denom)...)
	if l >= 2 {
		body = append(body, c15be64(t)...)
	}
	return c15raw(name, tlvTIMESTAMPUNIT, l, body...)
}

func c15Menu() []c15TLV {
	const tfull = uint64(0xfedcba9876543210)
	return []c15TLV{
		c15raw("fmt'<h'", tlvFORMAT, 1, '<', 'h'),
		c15shape("shape[1]", 1),
		c15raw("chanoff=0", tlvCHANOFFSET, 1, 0, 0, 0, 0, 0, 0),
		c15raw("fmt'<i'", tlvFORMAT, 1, '<', 'i'),
		c15raw("fmt'<q'", tlvFORMAT, 1, '<', 'q'),
		c15raw("fmt'>h'", tlvFORMAT, 1, '>', 'h'),
		c15raw("fmt'i'(no-endian-flag)", tlvFORMAT, 1, 'i'),
		c15raw("fmt'<hh'(two-types)", tlvFORMAT, 1, '<', 'h', 'h'),
		c15raw("fmt'<'(no-type)", tlvFORMAT, 1, '<'),
		c15raw("fmt'<a'(unknown-type)", tlvFORMAT, 1, '<', 'a'),
		c15raw("fmt'<B'(unsupported-type)", tlvFORMAT, 1, '<', 'B'),
		c15shape("shape[2]", 2),
		c15shape("shape[2,3]", 2, 3),
		c15shape("shape[0,0,0]", 0, 0, 0),
		c15shape("shape[-1,2,0]", -1, 2, 0),
		c15shape("shape[16384x5,1,1]", 16384, 16384, 16384, 16384, 16384, 1, 1),
		c15raw("chanoff=0xffffffff", tlvCHANOFFSET, 1, 0, 0, 0xff, 0xff, 0xff, 0xff),
		c15raw("chanoff-pad!=0", tlvCHANOFFSET, 1, 0, 9, 0, 0, 0, 1),
		c15raw("timestamp(plain)", tlvTIMESTAMP, 1, 0x00, 0x01, 0x00, 0x00, 0x00, 0x02),
		c15tsunit("tsunit-64bit", 2, 64, -9, 1, 1, tfull),
		c15tsunit("tsunit-48bit-exp-8", 2, 48, -8, 4, 1, tfull),
		c15tsunit("tsunit-0bit", 2, 0, -9, 1, 1, tfull),
		c15tsunit("tsunit-65bit", 2, 65, -9, 1, 1, tfull),
		c15tsunit("tsunit-len1(too-short)", 1, 64, -9, 1, 1, 0),
		c15tsunit("tsunit-num=0", 2, 64, -9, 0, 1, tfull),
		c15tsunit("tsunit-denom=0", 2, 64, -9, 1, 0, tfull),
		c15raw("counter(id=0)", tlvCOUNTER, 1, 0, 0, 0, 0, 0, 5),
		c15raw("counter-len2", tlvCOUNTER, 2, 0, 1, 0, 0, 0, 5, 0, 0, 0, 0, 0, 0, 0, 0),
		c15raw("label'value,active,t'", tlvPAYLOADLABEL, 2, []byte("value,active,t")...),
		c15raw("tag", tlvTAG, 1, 0, 0, 0x0d, 0xa3, 0x7a, 0x9d),
		c15raw("unknown-type-0xff", tlvINVALID, 1, 1, 2, 3, 4, 5, 6),
		c15raw("zero-length(fmt,len0)", tlvFORMAT, 0, '<', 'h'),
		c15raw("overlong(shape,len3,8bytes)", tlvSHAPE, 3, 0, 1, 0, 0, 0, 0),
	}
}

var c15Scratch []byte

var c15Plens = []int{0, 8, 16, 6, 3, 4096, 65535}

var c15Hmodes = []string{"hdrlen-consistent", "hdrlen+8", "hdrlen-8", "hdrlen+4", "hdrlen=15",
	"hdrlen+1", "hdrlen+2", "hdrlen+7", "hdrlen+9"}

// c15Hexcess: for the modes in which the header-length field exceeds the TLV area by a number of bytes that
// is not a multiple of 8, that excess; the datagram then carries as many filler bytes (0xee) between the
// TLVs and the payload, so that the decoder finds every remainder 1..7 (and 8+1) of a TLV where it expects
// the next one.
var c15Hexcess = map[int]int{3: 4, 5: 1, 6: 2, 7: 7, 8: 9}

const (
	c15Src   = uint32(0x01020304)
	c15SeqNo = uint32(0x0a0b0c0d)
	c15Tail  = 64 // zero bytes kept behind every datagram for the padded reader
)

var c15Pattern = func() []byte {
	b := make([]byte, 65535+16)
	for i := range b {
		b[i] = byte(i%251 + 1)
	}
	return b
}()

// ---------------------------------------------------------------------------------------------
// oracle, decode side

type c15Viol struct{ class, what string }

func c15Safe(f func()) (panicked bool, msg string) {
	defer func() {
		if e := recover(); e != nil {
			panicked = true
			msg = fmt.Sprint(e)
		}
	}()
	f()
	return
}

func c15DataLen(d interface{}) (n, elem int) {
	switch v := d.(type) {
	case []int16:
		return len(v), 2
	case []int32:
		return len(v), 4
	case []int64:
		return len(v), 8
	case []byte:
		return len(v), 1
	}
	return 0, 0
}

// exact product of the positive shape sizes; ok=false when it does not fit in 62 bits
func c15Product(sizes []int16) (prod int64, ok bool) {
	prod = 1
	for _, s := range sizes {
		if s > 0 {
			if prod > (int64(1)<<62)/int64(s) {
				return 0, false
			}
			prod *= int64(s)
		}
	}
	return prod, true
}

func c15SameSamples(a, b interface{}) bool {
	na, ea := c15DataLen(a)
	nb, eb := c15DataLen(b)
	if na == 0 && nb == 0 {
		return true
	}
	if na != nb || ea != eb {
		return false
	}
	switch va := a.(type) {
	case []int16:
		vb := b.([]int16)
		for i := range va {
			if va[i] != vb[i] {
				return false
			}
		}
	case []int32:
		vb := b.([]int32)
		for i := range va {
			if va[i] != vb[i] {
				return false
			}
		}
	case []int64:
		vb := b.([]int64)
		for i := range va {
			if va[i] != vb[i] {
				return false
			}
		}
	case []byte:
		return bytes.Equal(va, b.([]byte))
	}
	return true
}

func c15SameShape(a, b *headPayloadShape) bool {
	if a == nil || b == nil {
		return a == nil && b == nil
	}
	if len(a.Sizes) != len(b.Sizes) {
		return false
	}
	for i := range a.Sizes {
		if a.Sizes[i] != b.Sizes[i] {
			return false
		}
	}
	return true
}

// c15Compare returns the first of the property's round-trip fields on which a and b differ.
func c15Compare(a, b *Packet) string {
	switch {
	case a.version != b.version:
		return fmt.Sprintf("version: %d vs %d", a.version, b.version)
	case a.sourceID != b.sourceID:
		return fmt.Sprintf("sourceid: %d vs %d", a.sourceID, b.sourceID)
	case a.sequenceNumber != b.sequenceNumber:
		return fmt.Sprintf("sequence: %d vs %d", a.sequenceNumber, b.sequenceNumber)
	case a.offset != b.offset:
		return fmt.Sprintf("offset: %d vs %d", a.offset, b.offset)
	case !c15SameShape(a.shape, b.shape):
		return fmt.Sprintf("shape: %v vs %v", a.shape, b.shape)
	case !c15SameSamples(a.Data, b.Data):
		na, _ := c15DataLen(a.Data)
		nb, _ := c15DataLen(b.Data)
		return fmt.Sprintf("payload: %T with %d samples vs %T with %d samples (or differing values)", a.Data, na, b.Data, nb)
	case (a.timestamp == nil) != (b.timestamp == nil):
		return fmt.Sprintf("timestamp: present=%v vs present=%v", a.timestamp != nil, b.timestamp != nil)
	case a.timestamp != nil && a.timestamp.T != b.timestamp.T:
		return fmt.Sprintf("timestamp: counter %d vs %d", a.timestamp.T, b.timestamp.T)
	}
	return ""
}

func c15Hex(b []byte) string {
	if len(b) <= 96 {
		return hex.EncodeToString(b)
	}
	return hex.EncodeToString(b[:96]) + fmt.Sprintf("...(%d bytes in all)", len(b))
}

func c15Roundup(n, stride int) int { return (n + stride - 1) / stride * stride }

// c15CheckDatagram runs the decoders and, on success, every accessor on full[:n]; full has c15Tail
// further zero bytes so that the padded reader finds its padding.
func c15CheckDatagram(r *vexp.Runner, x *vexp.X, full []byte, n int) (vs []c15Viol, outcome string, nontrivial bool) {
	dgram := full[:n]
	add := func(class, format string, a ...interface{}) {
		vs = append(vs, c15Viol{class, fmt.Sprintf(format, a...)})
	}
	declared := -1 // unknown until 4 bytes are there
	bound := 16
	if n >= 4 {
		declared = int(dgram[1]) + int(binary.BigEndian.Uint16(dgram[2:]))
		if declared > bound {
			bound = declared
		}
	}

	rd := bytes.NewReader(dgram)
	var p *Packet
	var err error
	pan, msg := c15Safe(func() { p, err = ReadPacket(rd) })
	x.Steps++
	consumed := n - rd.Len()
	if pan {
		add("decode-panics", "ReadPacket panicked: %s", msg)
	}
	if consumed > bound {
		add("decode-overconsumes", "ReadPacket consumed %d bytes, the fixed header declares %d (header+payload)", consumed, declared)
	}

	// the ring-buffer entry point: same decoder followed by padding to a stride
	for _, stride := range [2]int{8, 64} {
		rd2 := bytes.NewReader(full[:n+c15Tail])
		var p2 *Packet
		var err2 error
		pan2, msg2 := c15Safe(func() { p2, err2 = ReadPacketPlusPad(rd2, stride) })
		x.Steps++
		cons2 := n + c15Tail - rd2.Len()
		// the padding up to the stride is consumed by contract (also when it turns out to be incomplete)
		b2 := c15Roundup(bound, stride)
		_, _ = p2, err2
		if pan2 {
			add("decodepad-panics", "ReadPacketPlusPad(stride %d) panicked: %s", stride, msg2)
		} else if cons2 > b2 {
			add("decodepad-overconsumes", "ReadPacketPlusPad(stride %d) consumed %d bytes, the fixed header declares %d, rounded up %d", stride, cons2, declared, b2)
		}
	}

	if pan {
		return vs, "decode-panic", false
	}
	if err != nil {
		return vs, "err:" + err.Error(), false
	}
	if p == nil {
		add("decode-nil-without-error", "ReadPacket returned neither a packet nor an error")
		return vs, "nil,nil", false
	}

	// ---- every accessor, each in its own recover
	var flags []byte
	var L, nchan, off, fr int
	var ts *PacketTimestamp
	var ext bool
	var str string

	if pn, m := c15Safe(func() { L = p.Length() }); pn {
		add("accessor-panics:Length", "Length() panicked: %s", m)
	} else if L != declared {
		add("sizes-inconsistent:length", "Length()=%d but the fixed header declares %d+%d", L, dgram[1], declared-int(dgram[1]))
	} else if consumed > L {
		add("sizes-inconsistent:consumed-exceeds-length", "Length()=%d but %d bytes were consumed", L, consumed)
	}
	if pn, m := c15Safe(func() { ts = p.Timestamp() }); pn {
		add("accessor-panics:Timestamp", "Timestamp() panicked: %s", m)
	}
	if pn, m := c15Safe(func() { ext = p.IsExternalTrigger() }); pn {
		add("accessor-panics:IsExternalTrigger", "IsExternalTrigger() panicked: %s", m)
	}
	if pn, m := c15Safe(func() { str = p.String(); _ = p.SequenceNumber() }); pn {
		add("accessor-panics:String", "String() panicked: %s", m)
	}
	_ = str
	x.Steps += 4

	chanOK := false
	if pn, m := c15Safe(func() { nchan, off = p.ChannelInfo() }); pn {
		cause := vexp.NormalisePanic(m)
		if p.shape == nil {
			cause = "no-shape"
		}
		add("accessor-panics:ChannelInfo:"+cause, "ChannelInfo() panicked: %s", m)
		flags = append(flags, "C!"...)
	} else {
		chanOK = true
		var sizes []int16
		if p.shape != nil {
			sizes = p.shape.Sizes
		}
		prod, ok := c15Product(sizes)
		switch {
		case p.shape == nil:
			// no shape item: any channel count is acceptable as long as Frames() stays within the payload
			if nchan < 0 {
				add("sizes-inconsistent:nchan-nonpositive", "ChannelInfo() reports %d channels for a packet without shape", nchan)
			}
		case !ok:
			add("sizes-inconsistent:nchan-overflow", "ChannelInfo() reports %d channels for shape %v (the product does not fit an int)", nchan, sizes)
		case nchan < 1:
			add("sizes-inconsistent:nchan-nonpositive", "ChannelInfo() reports %d channels for shape %v", nchan, sizes)
		case int64(nchan) != prod:
			add("sizes-inconsistent:nchan-vs-shape", "ChannelInfo() reports %d channels for shape %v", nchan, sizes)
		}
		if off != int(p.offset) {
			add("sizes-inconsistent:offset", "ChannelInfo() offset %d, header item %d", off, p.offset)
		}
	}
	x.Steps++

	framesOK := false
	framesCause := ""
	if pn, m := c15Safe(func() { fr = p.Frames() }); pn {
		framesCause = vexp.NormalisePanic(m)
		switch {
		case p.format == nil:
			framesCause = "no-format"
		case p.format.wordlen == 0:
			framesCause = "zero-wordlen"
		case chanOK && nchan == 0:
			framesCause = "nchan-overflow"
		}
		add("accessor-panics:Frames:"+framesCause, "Frames() panicked: %s", m)
		flags = append(flags, "F!"...)
	} else {
		framesOK = true
		nd, _ := c15DataLen(p.Data)
		wl := 0
		if p.format != nil {
			wl = p.format.wordlen
		}
		switch {
		case fr < 0:
			add("sizes-inconsistent:frames-negative", "Frames()=%d", fr)
		case chanOK && nchan >= 1 && fr > 0 && (fr > 65535 || int64(fr)*int64(nchan) > 65535 || fr*nchan*wl > int(p.payloadLength)):
			add("sizes-inconsistent:frames-exceed-payload", "Frames()=%d x %d channels x %d bytes per sample > payload length %d", fr, nchan, wl, p.payloadLength)
		case chanOK && nchan >= 1 && fr > 0 && p.format != nil && len(p.format.dtype) == 1 && fr*nchan > nd:
			add("sizes-inconsistent:frames-exceed-data", "Frames()=%d x %d channels but only %d samples are held", fr, nchan, nd)
		}
	}
	x.Steps++

	// sample read: below, at both ends of, and beyond the frame range
	rvIdx := []int{-1, 0}
	if framesOK && fr > 0 {
		rvIdx = append(rvIdx, fr-1, fr)
	}
	var rv []int
	for _, i := range rvIdx {
		var v int
		if pn, m := c15Safe(func() { v = p.ReadValue(i) }); pn {
			cause := vexp.NormalisePanic(m)
			switch {
			case !framesOK:
				cause = "via-Frames:" + framesCause
			case p.Data == nil:
				cause = "nil-data"
			default:
				if _, isb := p.Data.([]byte); isb {
					cause = "bytes-payload"
				}
			}
			add("accessor-panics:ReadValue:"+cause, "ReadValue(%d) panicked (Frames()=%d, Data is %T): %s", i, fr, p.Data, m)
			flags = append(flags, "R!"...)
			break
		}
		rv = append(rv, v)
		x.Steps++
	}

	// filler-packet construction, with the channel count the group logic would pass
	nc := 1
	if chanOK {
		nc = nchan
	}
	var q *Packet
	if pn, m := c15Safe(func() { q = p.MakePretendPacket(p.sequenceNumber+1, nc) }); pn {
		cause := vexp.NormalisePanic(m)
		if nc == 0 {
			cause = "nchan-zero"
		}
		add("accessor-panics:MakePretendPacket:"+cause, "MakePretendPacket(seq+1, %d) panicked: %s", nc, m)
		flags = append(flags, "M!"...)
	} else if q == nil || q == p {
		add("pretend-inconsistent", "MakePretendPacket returned %p for %p", q, p)
	} else {
		nd, _ := c15DataLen(p.Data)
		nq, _ := c15DataLen(q.Data)
		switch {
		case q.SequenceNumber() != p.sequenceNumber+1:
			add("pretend-inconsistent", "MakePretendPacket sequence number %d, asked for %d", q.SequenceNumber(), p.sequenceNumber+1)
		case q.Length() != p.Length() || nq != nd:
			add("pretend-inconsistent", "MakePretendPacket length %d/%d samples, original %d/%d", q.Length(), nq, p.Length(), nd)
		case framesOK:
			var fq int
			if pn, _ := c15Safe(func() { fq = q.Frames() }); pn || fq != fr {
				add("pretend-inconsistent", "MakePretendPacket Frames()=%d (panicked=%v), original %d", fq, pn, fr)
			}
		}
	}
	x.Steps++

	// Re-encoding a *decoded* packet is outside the property (its second clause speaks of packets built through
	// the constructors), so what Bytes() does here is recorded as an observation only. Bytes() spins forever on a
	// timestamp of rate 0 (shown once, under a watchdog, by case B/zz-timestamp-rate-zero): not called then.
	if p.payloadLength > 4096 {
		// not part of the property: skipped for the two large payload sizes to keep the run short
	} else if p.timestamp != nil && p.timestamp.Rate == 0 {
		flags = append(flags, "B-skipped-rate0"...)
		r.Count("observation:decoded-packet-has-rate-0-timestamp(Bytes()-would-not-return)", 1)
	} else {
		var b2 []byte
		if pn, m := c15Safe(func() { b2 = p.Bytes() }); pn {
			cause := vexp.NormalisePanic(m)
			if p.format != nil && p.format.endian == nil {
				cause = "format-without-endian-flag"
			}
			r.Count("observation:Bytes()-on-decoded-packet-panics:"+cause, 1)
			flags = append(flags, "B!"...)
		} else {
			// where the re-encoded datagram is self-consistent (TLVs emitted fill the header length kept from the
			// original, total size equals Length()), does it decode to the same packet?
			emitted := 8
			if p.timestamp != nil {
				emitted += 16
			}
			if p.Data != nil && p.shape != nil && p.format != nil {
				emitted += 8 + 8*(1+len(p.shape.Sizes)/4)
			}
			if 16+emitted == int(p.headerLength) && len(b2) == p.packetLength {
				var p3 *Packet
				var err3 error
				pn3, _ := c15Safe(func() { p3, err3 = ReadPacket(bytes.NewReader(b2)) })
				if pn3 || err3 != nil || p3 == nil || c15Compare(p, p3) != "" {
					r.Count("observation:self-consistent-reencoding-of-decoded-packet-decodes-differently", 1)
					flags = append(flags, "B~"...)
				} else {
					flags = append(flags, "B="...)
				}
				x.Steps++
			}
		}
		x.Steps++
	}

	nd, _ := c15DataLen(p.Data)
	tss := "-"
	if ts != nil {
		tss = fmt.Sprintf("%d@%g", ts.T, ts.Rate)
	}
	outcome = fmt.Sprintf("ok L=%d cons=%d ch=%d@%d fr=%d ts=%s ext=%v data=%T/%d rv=%v %s", L, consumed, nchan, off, fr, tss, ext, p.Data, nd, rv, flags)
	return vs, outcome, p.Data != nil
}

func c15Result(r *vexp.Runner, vs []c15Viol, outcome string, nontrivial bool, input func() string) vexp.Result {
	res := vexp.Result{Outcome: outcome, Nontrivial: nontrivial}
	if len(vs) == 0 {
		return res
	}
	res.Class = vs[0].class
	var sb strings.Builder
	sb.WriteString(input())
	for i, v := range vs {
		if i > 0 {
			r.Count("also:"+v.class, 1)
		}
		sb.WriteString("\n")
		sb.WriteString(v.class + ": " + v.what)
	}
	res.Violation = sb.String()
	return res
}

// ---------------------------------------------------------------------------------------------
// (A) datagram construction

func c15DecodeBody(r *vexp.Runner, x *vexp.X, menu []c15TLV, first, hm, ntlv int) vexp.Result {
	var seq [8]int
	if ntlv > 0 {
		seq[0] = first
		for i := 1; i < ntlv; i++ {
			seq[i] = x.Choose(len(menu))
		}
	}
	magic := packetMAGIC
	if x.Choose(2) == 1 {
		magic ^= 0x00010000
	}
	version := []byte{1, 0xff}[x.Choose(2)]
	pl := c15Plens[x.Choose(len(c15Plens))]
	supply, supplyName := pl, "payload-exact"
	if pl == 0 {
		if x.Choose(2) == 1 {
			supply, supplyName = 8, "payload+8"
		}
	} else {
		switch x.Choose(3) {
		case 1:
			supply, supplyName = pl-1, "payload-1"
		case 2:
			supply, supplyName = pl+8, "payload+8"
		}
	}

	tl := 0
	for i := 0; i < ntlv; i++ {
		tl += len(menu[seq[i]].b)
	}
	hl := 16 + tl
	filler := 0
	switch hm {
	case 1:
		hl += 8
	case 2:
		hl -= 8
	case 4:
		hl = 15
	default:
		filler = c15Hexcess[hm]
		hl += filler
	}
	n := 16 + tl + filler + supply
	// one scratch buffer per process: the decoder copies what it keeps (checked by reading ReadPacket/parseTLV)
	if cap(c15Scratch) < n+c15Tail {
		c15Scratch = make([]byte, 0, 65535+1024)
	}
	full := c15Scratch[:n+c15Tail]
	for i := n; i < n+c15Tail; i++ {
		full[i] = 0
	}
	full[0] = version
	full[1] = byte(hl)
	binary.BigEndian.PutUint16(full[2:], uint16(pl))
	binary.BigEndian.PutUint32(full[4:], magic)
	binary.BigEndian.PutUint32(full[8:], c15Src)
	binary.BigEndian.PutUint32(full[12:], c15SeqNo)
	at := 16
	for i := 0; i < ntlv; i++ {
		at += copy(full[at:], menu[seq[i]].b)
	}
	for i := 0; i < filler; i++ {
		full[at] = 0xee
		at++
	}
	copy(full[at:at+supply], c15Pattern)

	input := func() string {
		names := make([]string, ntlv)
		for i := range names {
			names[i] = menu[seq[i]].name
		}
		return fmt.Sprintf("datagram: version %d, %s (field %d), payload-length field %d, %s, magic 0x%08x, TLVs [%s]\nbytes: %s",
			version, c15Hmodes[hm], hl, pl, supplyName, magic, strings.Join(names, " | "), c15Hex(full[:n]))
	}
	if x.Trace {
		x.Logf("%s", input())
	}
	vs, outcome, nontrivial := c15CheckDatagram(r, x, full, n)
	return c15Result(r, vs, outcome, nontrivial, input)
}

// c15FormatAlphabet: every character the format parser distinguishes (endian flags, all integer codes, the pad
// code, one unknown letter, a digit repeat count).
var c15FormatAlphabet = []byte{'h', '<', '>', '!', 'H', 'b', 'B', 'i', 'I', 'l', 'L', 'q', 'Q', 'x', 'a', '2'}

// c15FormatBody: header ++ format TLV with every string of 0..maxlen characters over c15FormatAlphabet ++
// [shape TLV] ++ payload; everything else well-formed, so that what the decoder accepts is then put through
// every accessor.
func c15FormatBody(r *vexp.Runner, x *vexp.X, maxlen int) vexp.Result {
	n := x.Choose(maxlen + 1)
	fs := make([]byte, n)
	for i := range fs {
		fs[i] = c15FormatAlphabet[x.Choose(len(c15FormatAlphabet))]
	}
	tl := []c15TLV{c15raw("fmt'"+string(fs)+"'", tlvFORMAT, 1, fs...)}
	switch x.Choose(3) {
	case 0:
		tl = append(tl, c15shape("shape[1]", 1))
	case 1:
		tl = append(tl, c15shape("shape[2]", 2))
	}
	pl := []int{16, 0, 8, 6}[x.Choose(4)]
	hl := 16
	for _, t := range tl {
		hl += len(t.b)
	}
	nb := hl + pl
	full := make([]byte, nb+c15Tail)
	full[0] = 1
	full[1] = byte(hl)
	binary.BigEndian.PutUint16(full[2:], uint16(pl))
	binary.BigEndian.PutUint32(full[4:], packetMAGIC)
	binary.BigEndian.PutUint32(full[8:], c15Src)
	binary.BigEndian.PutUint32(full[12:], c15SeqNo)
	at := 16
	for _, t := range tl {
		at += copy(full[at:], t.b)
	}
	copy(full[at:at+pl], c15Pattern)
	input := func() string {
		names := make([]string, len(tl))
		for i := range tl {
			names[i] = tl[i].name
		}
		return fmt.Sprintf("datagram: version 1, header length %d, payload-length field %d, TLVs [%s]\nbytes: %s",
			hl, pl, strings.Join(names, " | "), c15Hex(full[:nb]))
	}
	if x.Trace {
		x.Logf("%s", input())
	}
	vs, outcome, nontrivial := c15CheckDatagram(r, x, full, nb)
	return c15Result(r, vs, outcome, nontrivial, input)
}

// two well-formed datagrams (as the encoder emits them) for the truncation cases
func c15WellFormed(which int) []byte {
	p := NewPacket(1, c15Src, c15SeqNo, 3)
	if which == 1 {
		p.SetTimestamp(&PacketTimestamp{T: 0x0102030405060708, Rate: 125e6})
	}
	p.NewData([]int16{1, -2, 3, -4, 5, -6, 7, -8}, []int16{2})
	return p.Bytes()
}

// ---------------------------------------------------------------------------------------------
// (B) constructors -> Bytes -> ReadPacket

type c15NS struct {
	name string
	n    int // -1: NewData is not called; -2: largest that fits; -3: one more; -4: 64 KiB + 4 samples
}

func (m c15NS) count(wordlen int) int {
	switch m.n {
	case -2:
		return (maxPACKETLENGTH - 40) / wordlen
	case -3:
		return (maxPACKETLENGTH-40)/wordlen + 1
	case -4:
		return 65536/wordlen + 4
	}
	return m.n
}

var c15DimModes = []string{"[1]", "[2]", "[8]", "[n]", "[32767]", "[]", "[0]", "[-1]", "[2,3]"}

func c15Dims(mode, n int) []int16 {
	switch mode {
	case 0:
		return []int16{1}
	case 1:
		return []int16{2}
	case 2:
		return []int16{8}
	case 3:
		return []int16{int16(n)}
	case 4:
		return []int16{32767}
	case 5:
		return []int16{}
	case 6:
		return []int16{0}
	case 7:
		return []int16{-1}
	}
	return []int16{2, 3}
}

var c15dataCache = map[string]interface{}{}

// payload values: pattern 0 = ramp 1,2,3..; pattern 1 = extremes min,-1,0,1,max repeated
func c15Data(width, n, pattern int) interface{} {
	key := fmt.Sprintf("%d/%d/%d", width, n, pattern)
	if d, ok := c15dataCache[key]; ok {
		return d
	}
	var d interface{}
	switch width {
	case 16:
		ex := []int16{math.MinInt16, -1, 0, 1, math.MaxInt16}
		v := make([]int16, n)
		for i := range v {
			if pattern == 0 {
				v[i] = int16(i + 1)
			} else {
				v[i] = ex[i%5]
			}
		}
		d = v
	case 32:
		ex := []int32{math.MinInt32, -1, 0, 1, math.MaxInt32}
		v := make([]int32, n)
		for i := range v {
			if pattern == 0 {
				v[i] = int32(i + 1)
			} else {
				v[i] = ex[i%5]
			}
		}
		d = v
	default:
		ex := []int64{math.MinInt64, -1, 0, 1, math.MaxInt64}
		v := make([]int64, n)
		for i := range v {
			if pattern == 0 {
				v[i] = int64(i + 1)
			} else {
				v[i] = ex[i%5]
			}
		}
		d = v
	}
	c15dataCache[key] = d
	return d
}

var (
	c15Offs  = []int{0, 1, 65535, 1 << 20, -1}
	c15Seqs  = []uint32{0, 1, math.MaxUint32 - 1, math.MaxUint32}
	c15Vers  = []uint8{0, 1, 255}
	c15Srcs  = []uint32{0, 1, math.MaxUint32}
	c15Ts    = []uint64{0, 1, 1 << 48, math.MaxUint64}
	c15Rates = []float64{1e9, 256e6, 1, 1e12}
)

func c15EncodeBody(r *vexp.Runner, x *vexp.X, width int, ns c15NS, dimMode int) vexp.Result {
	off := c15Offs[x.Choose(len(c15Offs))]
	seq := c15Seqs[x.Choose(len(c15Seqs))]
	ver := c15Vers[x.Choose(len(c15Vers))]
	src := c15Srcs[x.Choose(len(c15Srcs))]
	pattern := 0
	n := ns.count(width / 8)
	if n > 0 {
		pattern = x.Choose(2)
	}
	tsMode := x.Choose(4) // none, set before the data, set after the data, set then reset
	var ts *PacketTimestamp
	switch tsMode {
	case 1, 2:
		ts = &PacketTimestamp{T: c15Ts[x.Choose(len(c15Ts))], Rate: c15Rates[x.Choose(len(c15Rates))]}
	case 3:
		ts = &PacketTimestamp{T: 77, Rate: 1e9}
	}
	var dims []int16
	if ns.n != -1 {
		dims = c15Dims(dimMode, n)
	}
	input := func() string {
		s := fmt.Sprintf("NewPacket(%d, %d, %d, %d)", ver, src, seq, off)
		tss := ""
		if ts != nil {
			tss = fmt.Sprintf("; SetTimestamp({T:%d Rate:%g})", ts.T, ts.Rate)
		}
		nd := ""
		if ns.n != -1 {
			nd = fmt.Sprintf("; NewData(%d samples of int%d pattern %d, dims %v)", n, width, pattern, dims)
		}
		switch tsMode {
		case 1:
			s += tss + nd
		case 2:
			s += nd + tss
		case 3:
			s += tss + "; ResetTimestamp()" + nd
		default:
			s += nd
		}
		return s
	}
	if x.Trace {
		x.Logf("%s", input())
	}

	p := NewPacket(ver, src, seq, off)
	x.Steps++
	if tsMode == 1 || tsMode == 3 {
		p.SetTimestamp(ts)
		x.Steps++
	}
	if tsMode == 3 {
		p.ResetTimestamp()
		x.Steps++
	}
	if ns.n != -1 {
		var err error
		pn, m := c15Safe(func() { err = p.NewData(c15Data(width, n, pattern), dims) })
		x.Steps++
		if pn {
			// a constructor that panics builds no packet: the round-trip clause is vacuous (observation only)
			r.Count("observation:NewData-panics", 1)
			return vexp.Result{Nontrivial: true, Outcome: "constructor-panics:" + vexp.NormalisePanic(m)}
		}
		if err != nil {
			r.Count("observation:NewData-error", 1)
			return vexp.Result{Nontrivial: true, Outcome: "constructor-error:" + vexp.NormalisePanic(err.Error())}
		}
	}
	if tsMode == 2 {
		p.SetTimestamp(ts)
		x.Steps++
	}

	tags := ""
	if ns.n != -1 && (len(dims) == 0 || dims[0] <= 0) {
		tags += ":nonpositive-dim"
	}
	if ns.n != -1 && n*(width/8) > 65535 {
		tags += ":payload-over-64k"
	}
	var vs []c15Viol
	add := func(class, format string, a ...interface{}) {
		vs = append(vs, c15Viol{class, fmt.Sprintf(format, a...)})
	}
	var b []byte
	pn, m := c15Safe(func() { b = p.Bytes() })
	x.Steps++
	if pn {
		add("encode-panics"+tags, "Bytes() panicked: %s", m)
		return c15Result(r, vs, "encode-panic", true, input)
	}
	var q *Packet
	var err error
	rd := bytes.NewReader(b)
	pn, m = c15Safe(func() { q, err = ReadPacket(rd) })
	x.Steps++
	outcome := ""
	switch {
	case pn:
		add("roundtrip-decode-panics"+tags, "ReadPacket(Bytes()) panicked: %s; bytes %s", m, c15Hex(b))
		outcome = "decode-panic"
	case err != nil:
		add("roundtrip-decode-error"+tags, "ReadPacket(Bytes()) returned error %q; bytes %s", err.Error(), c15Hex(b))
		outcome = "decode-error:" + err.Error()
	case q == nil:
		add("roundtrip-decode-error"+tags, "ReadPacket(Bytes()) returned nil, nil")
		outcome = "nil"
	default:
		if d := c15Compare(p, q); d != "" {
			field := d[:strings.Index(d, ":")]
			add("roundtrip-differs:"+field+tags, "built vs decoded %s; bytes %s", d, c15Hex(b))
		}
		// observations outside the property's list of reproduced fields
		if len(b) != p.Length() {
			r.Count("observation:Length()-differs-from-len(Bytes())", 1)
		}
		if rd.Len() != 0 {
			r.Count("observation:decoder-left-bytes-of-Bytes()-unread", 1)
		}
		nd, _ := c15DataLen(q.Data)
		tss := "-"
		if q.timestamp != nil {
			tss = fmt.Sprintf("%d", q.timestamp.T)
		}
		outcome = fmt.Sprintf("rt v=%d src=%d seq=%d off=%d shape=%v data=%T/%d ts=%s len=%d", q.version, q.sourceID, q.sequenceNumber, q.offset, q.shape, q.Data, nd, tss, len(b))
	}
	return c15Result(r, vs, outcome, true, input)
}

// c15RateZero: a timestamp whose rate is 0 (the value abaco.go and the package's own tests treat as "rate
// unknown"). Bytes() is run under a watchdog because its period-scaling loop does not terminate on +Inf.
func c15RateZero(r *vexp.Runner, x *vexp.X) vexp.Result {
	p := NewPacket(1, c15Src, c15SeqNo, 0)
	p.SetTimestamp(&PacketTimestamp{T: 5, Rate: 0})
	p.NewData([]int16{1, 2}, []int16{1})
	input := func() string {
		return "NewPacket(1,..); SetTimestamp({T:5 Rate:0}); NewData([]int16{1,2}, [1]); Bytes()"
	}
	type out struct {
		b   []byte
		pan string
	}
	ch := make(chan out, 1)
	go func() {
		var o out
		defer func() {
			if e := recover(); e != nil {
				o.pan = fmt.Sprint(e)
			}
			ch <- o
		}()
		o.b = p.Bytes()
	}()
	x.Steps = 4
	select {
	case o := <-ch:
		if o.pan != "" {
			return c15Result(r, []c15Viol{{"encode-panics:rate-zero", "Bytes() panicked: " + o.pan}}, "encode-panic", true, input)
		}
		q, err := ReadPacket(bytes.NewReader(o.b))
		if err != nil {
			return c15Result(r, []c15Viol{{"roundtrip-decode-error:rate-zero", err.Error()}}, "decode-error", true, input)
		}
		if d := c15Compare(p, q); d != "" {
			return c15Result(r, []c15Viol{{"roundtrip-differs:rate-zero", d}}, "differs", true, input)
		}
		return vexp.Result{Nontrivial: true, Outcome: "rate-zero-roundtrip-ok"}
	case <-time.After(3 * time.Second):
		// the goroutine is left spinning; this case is the last one of the run
		return c15Result(r, []c15Viol{{"encode-hangs:timestamp-rate-zero",
			"Bytes() did not return within 3 s: period = 1e11/Rate = +Inf and the loop `for ; period > 65535; period *= 0.5` never ends"}},
			"encode-hang", true, input)
	}
}

// ---------------------------------------------------------------------------------------------

func TestVerifC15(t *testing.T) {
	r := vexp.NewRunner("C15")
	defer r.Finish()
	menu := c15Menu()
	maxTLV, fmtLen := 3, 3
	nss := []c15NS{{"nodata", -1}, {"n0", 0}, {"n1", 1}, {"n2", 2}, {"n3", 3}, {"n8", 8}, {"nmax", -2}, {"nmax+1", -3}, {"n64k+4", -4}}
	if r.Thorough() {
		maxTLV, fmtLen = 4, 5
		nss = append(nss, c15NS{"n4", 4}, c15NS{"n5", 5}, c15NS{"n6", 6}, c15NS{"n7", 7}, c15NS{"n100", 100}, c15NS{"n1000", 1000})
	}
	r.SetBound(fmt.Sprintf("(A) every datagram = fixed header {header-length field consistent|+8|-8|15, and +4|+1|+2|+7|+9 with as many filler bytes before the payload} x {magic right|wrong} x {version 1|255} x "+
		"payload-length field %v x payload bytes {exact|one short|eight extra} ++ every sequence of 0..%d TLVs from a %d-entry menu of valid and malformed encodings, "+
		"decoded by ReadPacket and ReadPacketPlusPad(stride 8, 64), all accessors called on every success; every format string of 0..%d characters over %q x shape {[1]|[2]|none} x payload {16|0|8|6}; every truncation of two encoder-made datagrams. "+
		"(B) NewPacket x [SetTimestamp before|after the data|set-then-reset] x [NewData]: int16|int32|int64 x %d sample counts (none, 0..8, largest fitting, one more, 64KiB+4) x dims %v "+
		"x channel offsets %v x sequence numbers %v x versions %v x source ids %v x 2 value patterns x timestamp counters %v x rates %v; plus the rate-0 timestamp under a watchdog",
		c15Plens, maxTLV, len(menu), fmtLen, string(c15FormatAlphabet), len(nss), c15DimModes, c15Offs, c15Seqs, c15Vers, c15Srcs, c15Ts, c15Rates))

	// (A)
	for hm := range c15Hmodes {
		hm := hm
		r.DFS(fmt.Sprintf("A/%s/no-tlv", c15Hmodes[hm]), -1, func(x *vexp.X) vexp.Result {
			return c15DecodeBody(r, x, menu, -1, hm, 0)
		})
	}
	// shortest TLV sequences first, so that the first counterexamples recorded are the short ones
	for ntlv := 1; ntlv <= maxTLV; ntlv++ {
		for first := range menu {
			for hm := range c15Hmodes {
				ntlv, first, hm := ntlv, first, hm
				r.DFS(fmt.Sprintf("A/%s/%dtlv/first=%s", c15Hmodes[hm], ntlv, menu[first].name), -1, func(x *vexp.X) vexp.Result {
					return c15DecodeBody(r, x, menu, first, hm, ntlv)
				})
			}
		}
	}
	r.DFS("A/format-strings", -1, func(x *vexp.X) vexp.Result { return c15FormatBody(r, x, fmtLen) })
	for which := 0; which < 2; which++ {
		which := which
		r.DFS(fmt.Sprintf("A/truncate/wellformed%d", which), -1, func(x *vexp.X) vexp.Result {
			wf := c15WellFormed(which)
			n := x.Choose(len(wf) + 1)
			full := make([]byte, n+c15Tail)
			copy(full, wf[:n])
			input := func() string {
				return fmt.Sprintf("first %d of the %d bytes of %s", n, len(wf), c15Hex(wf))
			}
			if x.Trace {
				x.Logf("%s", input())
			}
			vs, outcome, nontrivial := c15CheckDatagram(r, x, full, n)
			return c15Result(r, vs, outcome, nontrivial, input)
		})
	}

	// (B)
	for _, width := range []int{16, 32, 64} {
		for _, ns := range nss {
			for dm := range c15DimModes {
				if ns.n == -1 && dm > 0 {
					continue // no NewData call: dims unused
				}
				width, ns, dm := width, ns, dm
				r.DFS(fmt.Sprintf("B/int%d/%s/dims%s", width, ns.name, c15DimModes[dm]), -1, func(x *vexp.X) vexp.Result {
					return c15EncodeBody(r, x, width, ns, dm)
				})
			}
		}
	}
	// last, because a hang leaves a goroutine spinning in this worker
	r.DFS("B/zz-timestamp-rate-zero", -1, func(x *vexp.X) vexp.Result { return c15RateZero(r, x) })
}
