//go:build verif

package ringbuffer

// C18 — the ring buffer is a loss-free, duplication-free FIFO across wrap.
// Engine A: BFS to a fixpoint over canonical states + un-merged depth-bounded DFS cross-check.
// Oracle: a boring reference queue (two integers over a position-tagged byte stream).
// Every family is run once per "counter base": the value both 64-bit counters of the shared descriptor have
// when the history starts (a ring that has been running for a while), so that the counters sit below, cross
// and sit above 2^32 and 2^63; the reference stream's positions start at the same base.

import (
	"fmt"
	"testing"

	"github.com/usnistgov/dastard/internal/vexp"
)

const c18TagMod = 251 // prime > any capacity used: a tag identifies the absolute position in the window

func c18Tag(abs uint64) byte { return byte(abs % c18TagMod) }

type c18Op struct {
	kind string // W R M D A
	n    int
}

func (o c18Op) String() string { return fmt.Sprintf("%s(%d)", o.kind, o.n) }

// c18Bases: 0 (fresh ring); 3 below 2^32 (the counters cross 2^32 within the first ops); above 2^32 and above
// 2^33 with residues 2, 5 and 0, 3 mod 3, 6 (2^32 = 1 mod 3, 4 mod 6, 1 mod 5: arithmetic that drops the upper
// half gives different remainders for every stride that is not a power of two); 9 below 2^63 (crosses the
// sign bit). The real code works on uint64 throughout and converts only differences to int, so all of
// these are in its domain; a base within one capacity of 2^64 is not (position%capacity is discontinuous
// where the counter itself overflows unless the capacity is a power of two) and is not used.
var c18Bases = []uint64{0, 1<<32 - 3, 1<<32 + 5, 1<<33 + 1, 1<<63 - 9}

const c18MaxStride = 6

func c18Ops(capacity int) []c18Op {
	var ops []c18Op
	for n := 0; n <= capacity+1; n++ {
		ops = append(ops, c18Op{"W", n})
	}
	for n := -1; n <= capacity+1; n++ {
		ops = append(ops, c18Op{"R", n})
	}
	for k := 1; k <= c18MaxStride && k < capacity; k++ {
		ops = append(ops, c18Op{"M", k})
	}
	for k := 1; k <= c18MaxStride; k++ {
		ops = append(ops, c18Op{"D", k})
	}
	ops = append(ops, c18Op{"A", 0})
	return ops
}

type c18Model struct {
	rb       *RingBuffer
	capacity int
	base     uint64 // value of both counters at the start of the history
	acc      uint64 // bytes accepted so far (reference write position)
	rd       uint64 // reference read position
	wrapped  bool
	full     bool
	discards int
}

func c18New(capacity int, base uint64) *c18Model {
	rb := &RingBuffer{}
	rb.desc = &bufferDescription{magic: 0xb0ffde5c, version: 0x01020003, bufferSize: uint64(capacity), packetSize: 8192,
		writePointer: base, readPointer: base}
	rb.size = uint64(capacity)
	rb.raw = make([]byte, capacity)
	rb.writeable = true
	return &c18Model{rb: rb, capacity: capacity, base: base, acc: base, rd: base}
}

// apply executes one op on the real buffer and checks it against the reference queue.
func (m *c18Model) apply(x *vexp.X, op c18Op) (viol, class string) {
	x.Steps++
	switch op.kind {
	case "W":
		data := make([]byte, op.n)
		for i := range data {
			data[i] = c18Tag(m.acc + uint64(i))
		}
		written, err := m.rb.Write(data)
		x.Logf("Write(%d) -> %d,%v   [ref rd=%d acc=%d]", op.n, written, err, m.rd, m.acc)
		if err != nil {
			return "", "" // a rejected write accepts nothing
		}
		free := m.capacity - int(m.acc-m.rd)
		if written < 0 || written > op.n || written > free {
			return fmt.Sprintf("Write(%d) accepted %d bytes with only %d free (unread data overwritten)", op.n, written, free), "write-accepts-more-than-free"
		}
		if (m.acc+uint64(written))/uint64(m.capacity) > m.acc/uint64(m.capacity) {
			m.wrapped = true
		}
		m.acc += uint64(written)
		if int(m.acc-m.rd) >= m.capacity-1 {
			m.full = true
		}
	case "R", "M", "A":
		var data []byte
		var err error
		switch op.kind {
		case "R":
			data, err = m.rb.Read(op.n)
		case "M":
			data, err = m.rb.ReadMultipleOf(op.n)
		case "A":
			data, err = m.rb.ReadAll()
		}
		data = append([]byte{}, data...)
		x.Logf("%v -> %d bytes %v,%v   [ref rd=%d acc=%d]", op, len(data), data, err, m.rd, m.acc)
		if err != nil {
			if len(data) != 0 {
				return fmt.Sprintf("%v returned an error and %d bytes", op, len(data)), "read-error-with-data"
			}
			return "", ""
		}
		avail := int(m.acc - m.rd)
		if len(data) > avail {
			return fmt.Sprintf("%v returned %d bytes but only %d were written and unread", op, len(data), avail), "read-more-than-available"
		}
		if op.kind == "R" && len(data) > op.n && op.n >= 0 {
			return fmt.Sprintf("%v returned %d bytes, more than requested", op, len(data)), "read-more-than-requested"
		}
		for i, b := range data {
			if b != c18Tag(m.rd+uint64(i)) {
				return fmt.Sprintf("%v: byte %d of the read is tag %d, expected tag %d (absolute position %d): stream skipped, repeated or reordered",
					op, i, b, c18Tag(m.rd+uint64(i)), m.rd+uint64(i)), "fifo-content-mismatch"
			}
		}
		if op.kind == "M" && len(data)%op.n != 0 {
			return fmt.Sprintf("%v returned %d bytes, not a multiple of %d", op, len(data), op.n), "not-multiple-of-chunk"
		}
		m.rd += uint64(len(data))
	case "D":
		k := uint64(op.n)
		if err := m.rb.DiscardStride(k); err != nil {
			x.Logf("%v -> error %v", op, err)
			return "", ""
		}
		m.discards++
		a := m.rb.BytesReadable()
		x.Logf("%v -> readable afterwards %d   [ref rd=%d acc=%d]", op, a, m.rd, m.acc)
		if a < 0 || uint64(a) > m.acc-m.base {
			return fmt.Sprintf("%v: %d bytes readable afterwards but only %d ever accepted", op, a, m.acc-m.base), "discard-position-out-of-range"
		}
		np := m.acc - uint64(a)
		if np < m.rd {
			return fmt.Sprintf("%v moved the read position backwards from %d to %d (write position %d): bytes already returned will be returned again",
				op, m.rd, np, m.acc), "discard-moves-read-position-backwards"
		}
		// a stride boundary must be reached whenever one exists between the read and write positions
		first := (m.rd + k - 1) / k * k
		if first <= m.acc && np%k != 0 {
			return fmt.Sprintf("%v left the read position at %d, not a multiple of %d (a boundary exists in [%d,%d])", op, np, k, m.rd, m.acc), "discard-not-on-stride"
		}
		m.rd = np
	}
	return "", ""
}

func (m *c18Model) canon(M uint64) string {
	return fmt.Sprintf("b%d:%d,%d,%d", m.base, m.rd%M, m.acc%M, m.acc-m.rd)
}

func c18lcm(a, b uint64) uint64 {
	g, x, y := a, a, b
	for y != 0 {
		x, y = y, x%y
	}
	g = x
	return a / g * b
}

func c18BaseName(b uint64) string {
	for _, e := range []uint{63, 33, 32} {
		p := uint64(1) << e
		switch {
		case b >= p:
			return fmt.Sprintf("2^%d+%d", e, b-p)
		case p-b < 1<<16:
			return fmt.Sprintf("2^%d-%d", e, p-b)
		}
	}
	return fmt.Sprint(b)
}

func TestVerifC18(t *testing.T) {
	r := vexp.NewRunner("C18")
	defer r.Finish()
	caps := []int{5, 6, 8}
	depth := 4
	if r.Thorough() {
		depth = 5
	}
	var bnames []string
	for _, b := range c18Bases {
		bnames = append(bnames, c18BaseName(b))
	}
	r.SetBound(fmt.Sprintf("for each start value of both 64-bit counters in %v: BFS to closure for capacities %v over Write(0..cap+1), Read(-1..cap+1), "+
		"ReadMultipleOf(1..min(%d,cap-1)), DiscardStride(1..%d), ReadAll; plus un-merged DFS of all op sequences to depth %d",
		bnames, caps, c18MaxStride, c18MaxStride, depth))

	for _, base := range c18Bases {
		for _, capacity := range caps {
			capacity, base := capacity, base
			ops := c18Ops(capacity)
			// everything the code computes from the counters is position%capacity, position%stride and the difference
			M := c18lcm(uint64(capacity), 60)
			r.BFS(fmt.Sprintf("bfs/base%s/cap%d", c18BaseName(base), capacity), vexp.BFSSpec{
				NumOps: len(ops),
				Run: func(x *vexp.X, hist []int) (string, vexp.Result) {
					m := c18New(capacity, base)
					for _, oi := range hist {
						if v, cls := m.apply(x, ops[oi]); v != "" {
							return "", vexp.Result{Violation: v, Class: cls}
						}
					}
					return m.canon(M), vexp.Result{Nontrivial: m.wrapped, Outcome: m.canon(M)}
				},
			})
		}
	}
	// un-merged cross-check of the canonicalisation: every op sequence to the depth bound
	for _, base := range c18Bases {
		for _, capacity := range caps {
			capacity, base := capacity, base
			ops := c18Ops(capacity)
			for first := range ops {
				first := first
				r.DFS(fmt.Sprintf("dfs/base%s/cap%d/first=%v", c18BaseName(base), capacity, ops[first]), -1, func(x *vexp.X) vexp.Result {
					m := c18New(capacity, base)
					// start from a wrapped, non-initial state for half of the cases: pre-fill and drain
					if x.Choose(2) == 1 {
						m.apply(x, c18Op{"W", capacity - 2})
						m.apply(x, c18Op{"R", capacity - 3})
					}
					if v, cls := m.apply(x, ops[first]); v != "" {
						return vexp.Result{Violation: v, Class: cls}
					}
					for d := 1; d < depth; d++ {
						oi := x.Choose(len(ops))
						if v, cls := m.apply(x, ops[oi]); v != "" {
							return vexp.Result{Violation: v, Class: cls}
						}
					}
					return vexp.Result{Nontrivial: m.wrapped && m.full, Outcome: fmt.Sprintf("%d/%d/%d", m.rd-base, m.acc-base, m.discards)}
				})
			}
		}
	}
}
