//go:build verif

package ringbuffer

// C18 — the ring buffer is a loss-free, duplication-free FIFO across wrap.
// Engine A: BFS to a fixpoint over canonical states + un-merged depth-bounded DFS cross-check.
// Oracle: a boring reference queue (two integers over a position-tagged byte stream).

import (
	"fmt"
	"testing"

	"github.com/usnistgov/dastard/internal/vexp"
)

const c18TagMod = 251 // prime > any capacity used: a tag identifies the absolute position in the window

func c18Tag(abs uint64) byte { return byte(abs % c18TagMod) }

type c18Op struct {
	kind string // W R M D A
	n    int
}

func (o c18Op) String() string { return fmt.Sprintf("%s(%d)", o.kind, o.n) }

func c18Ops(capacity int) []c18Op {
	var ops []c18Op
	for n := 0; n <= capacity+1; n++ {
		ops = append(ops, c18Op{"W", n})
	}
	for n := -1; n <= capacity+1; n++ {
		ops = append(ops, c18Op{"R", n})
	}
	for k := 1; k <= 4 && k < capacity; k++ {
		ops = append(ops, c18Op{"M", k})
	}
	for k := 1; k <= 4; k++ {
		ops = append(ops, c18Op{"D", k})
	}
	ops = append(ops, c18Op{"A", 0})
	return ops
}

type c18Model struct {
	rb       *RingBuffer
	capacity int
	acc      uint64 // bytes accepted so far (reference write position)
	rd       uint64 // reference read position
	wrapped  bool
	full     bool
	discards int
}

func c18New(capacity int) *c18Model {
	rb := &RingBuffer{}
	rb.desc = &bufferDescription{magic: 0xb0ffde5c, version: 0x01020003, bufferSize: uint64(capacity), packetSize: 8192}
	rb.size = uint64(capacity)
	rb.raw = make([]byte, capacity)
	rb.writeable = true
	return &c18Model{rb: rb, capacity: capacity}
}

// apply executes one op on the real buffer and checks it against the reference queue.
func (m *c18Model) apply(x *vexp.X, op c18Op) (viol, class string) {
	x.Steps++
	switch op.kind {
	case "W":
		data := make([]byte, op.n)
		for i := range data {
			data[i] = c18Tag(m.acc + uint64(i))
		}
		written, err := m.rb.Write(data)
		x.Logf("Write(%d) -> %d,%v   [ref rd=%d acc=%d]", op.n, written, err, m.rd, m.acc)
		if err != nil {
			return "", "" // a rejected write accepts nothing
		}
		free := m.capacity - int(m.acc-m.rd)
		if written < 0 || written > op.n || written > free {
			return fmt.Sprintf("Write(%d) accepted %d bytes with only %d free (unread data overwritten)", op.n, written, free), "write-accepts-more-than-free"
		}
		if (m.acc+uint64(written))/uint64(m.capacity) > m.acc/uint64(m.capacity) {
			m.wrapped = true
		}
		m.acc += uint64(written)
		if int(m.acc-m.rd) >= m.capacity-1 {
			m.full = true
		}
	case "R", "M", "A":
		var data []byte
		var err error
		switch op.kind {
		case "R":
			data, err = m.rb.Read(op.n)
		case "M":
			data, err = m.rb.ReadMultipleOf(op.n)
		case "A":
			data, err = m.rb.ReadAll()
		}
		data = append([]byte{}, data...)
		x.Logf("%v -> %d bytes %v,%v   [ref rd=%d acc=%d]", op, len(data), data, err, m.rd, m.acc)
		if err != nil {
			if len(data) != 0 {
				return fmt.Sprintf("%v returned an error and %d bytes", op, len(data)), "read-error-with-data"
			}
			return "", ""
		}
		avail := int(m.acc - m.rd)
		if len(data) > avail {
			return fmt.Sprintf("%v returned %d bytes but only %d were written and unread", op, len(data), avail), "read-more-than-available"
		}
		if op.kind == "R" && len(data) > op.n && op.n >= 0 {
			return fmt.Sprintf("%v returned %d bytes, more than requested", op, len(data)), "read-more-than-requested"
		}
		for i, b := range data {
			if b != c18Tag(m.rd+uint64(i)) {
				return fmt.Sprintf("%v: byte %d of the read is tag %d, expected tag %d (absolute position %d): stream skipped, repeated or reordered",
					op, i, b, c18Tag(m.rd+uint64(i)), m.rd+uint64(i)), "fifo-content-mismatch"
			}
		}
		if op.kind == "M" && len(data)%op.n != 0 {
			return fmt.Sprintf("%v returned %d bytes, not a multiple of %d", op, len(data), op.n), "not-multiple-of-chunk"
		}
		m.rd += uint64(len(data))
	case "D":
		k := uint64(op.n)
		if err := m.rb.DiscardStride(k); err != nil {
			x.Logf("%v -> error %v", op, err)
			return "", ""
		}
		m.discards++
		a := m.rb.BytesReadable()
		x.Logf("%v -> readable afterwards %d   [ref rd=%d acc=%d]", op, a, m.rd, m.acc)
		if a < 0 || uint64(a) > m.acc {
			return fmt.Sprintf("%v: %d bytes readable afterwards but only %d ever accepted", op, a, m.acc), "discard-position-out-of-range"
		}
		np := m.acc - uint64(a)
		if np < m.rd {
			return fmt.Sprintf("%v moved the read position backwards from %d to %d (write position %d): bytes already returned will be returned again",
				op, m.rd, np, m.acc), "discard-moves-read-position-backwards"
		}
		// a stride boundary must be reached whenever one exists between the read and write positions
		first := (m.rd + k - 1) / k * k
		if first <= m.acc && np%k != 0 {
			return fmt.Sprintf("%v left the read position at %d, not a multiple of %d (a boundary exists in [%d,%d])", op, np, k, m.rd, m.acc), "discard-not-on-stride"
		}
		m.rd = np
	}
	return "", ""
}

func (m *c18Model) canon(M uint64) string {
	return fmt.Sprintf("%d,%d,%d", m.rd%M, m.acc%M, m.acc-m.rd)
}

func c18lcm(a, b uint64) uint64 {
	g, x, y := a, a, b
	for y != 0 {
		x, y = y, x%y
	}
	g = x
	return a / g * b
}

func TestVerifC18(t *testing.T) {
	r := vexp.NewRunner("C18")
	defer r.Finish()
	caps := []int{5, 6, 8}
	depth := 4
	if r.Thorough() {
		depth = 5
	}
	r.SetBound(fmt.Sprintf("BFS to closure for capacities %v over Write(0..cap+1), Read(-1..cap+1), ReadMultipleOf(1..4), DiscardStride(1..4), ReadAll; plus un-merged DFS of all op sequences to depth %d", caps, depth))

	for _, capacity := range caps {
		capacity := capacity
		ops := c18Ops(capacity)
		M := c18lcm(uint64(capacity), 12)
		r.BFS(fmt.Sprintf("bfs/cap%d", capacity), vexp.BFSSpec{
			NumOps: len(ops),
			Run: func(x *vexp.X, hist []int) (string, vexp.Result) {
				m := c18New(capacity)
				for _, oi := range hist {
					if v, cls := m.apply(x, ops[oi]); v != "" {
						return "", vexp.Result{Violation: v, Class: cls}
					}
				}
				return m.canon(M), vexp.Result{Nontrivial: m.wrapped, Outcome: m.canon(M)}
			},
		})
	}
	// un-merged cross-check of the canonicalisation: every op sequence to the depth bound
	for _, capacity := range caps {
		capacity := capacity
		ops := c18Ops(capacity)
		for first := range ops {
			first := first
			r.DFS(fmt.Sprintf("dfs/cap%d/first=%v", capacity, ops[first]), -1, func(x *vexp.X) vexp.Result {
				m := c18New(capacity)
				// start from a wrapped, non-initial state for half of the cases: pre-fill and drain
				if x.Choose(2) == 1 {
					m.apply(x, c18Op{"W", capacity - 2})
					m.apply(x, c18Op{"R", capacity - 3})
				}
				if v, cls := m.apply(x, ops[first]); v != "" {
					return vexp.Result{Violation: v, Class: cls}
				}
				for d := 1; d < depth; d++ {
					oi := x.Choose(len(ops))
					if v, cls := m.apply(x, ops[oi]); v != "" {
						return vexp.Result{Violation: v, Class: cls}
					}
				}
				return vexp.Result{Nontrivial: m.wrapped && m.full, Outcome: fmt.Sprintf("%d/%d/%d", m.rd, m.acc, m.discards)}
			})
		}
	}
}
