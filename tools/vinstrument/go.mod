module vinstrument

go 1.21
