// vinstrument inserts scheduling points (vhook.P / vhook.PS / vhook.C) into copies of selected
// repository source files, at check time, from the files as they are NOW in the working tree.
// Insertions are made on the same line as the statement they precede, so line numbers in panics
// and race reports are unchanged. See /verif/DESIGN.md section 3.2.
//
// spec JSON: {"files": {"data_source.go": {"exclude": ["ProcessSegments"], "only": []}, ...},
//             "crash": {"client_updater.go": ["saveState"]}}
//
// Opt-in per-file options (all default to off; without them the output is unchanged):
//
//	"call_points": ["aw.writer.Flush", "*.Write"]  a plain vhook.P point before every statement that contains a
//	               call whose function expression has exactly this source text, or ("*.Name") any method /
//	               qualified call with this selector name: the goroutine can be stalled right before the call
//	               (kind "call"), e.g. between draining a queue and the disk write.
//	"atomics": true   calls of methods named Load / Store / Swap / CompareAndSwap / Add / And / Or and of
//	               functions of package atomic become scheduling points (kind "atomic").
//	"opt_guard": "VerifStallPoints"   the points of the two options above are emitted as
//	               `if VerifStallPoints { vhook.P(id) }`: a package-level bool of the instrumented package
//	               (supplied through the overlay) switches them on per execution.
//
// Where no statement can be inserted (the condition of a `for` loop, which is evaluated again on every
// iteration, and of an `else if`), the opt-in points are put into the condition itself:
// `func() bool { vhook.P(id); return true }() && (cond)`.
// output: <out>/<flattened name>.go, <out>/map.json {orig abs path: new abs path}, <out>/points.json
package main

import (
	"encoding/json"
	"flag"
	"fmt"
	"go/ast"
	"go/parser"
	"go/token"
	"os"
	"path/filepath"
	"sort"
	"strings"
)

type fileSpec struct {
	Exclude    []string `json:"exclude"`
	Only       []string `json:"only"`
	CallPoints []string `json:"call_points"`
	Atomics    bool     `json:"atomics"`
	OptGuard   string   `json:"opt_guard"`
}

type spec struct {
	Files  map[string]fileSpec `json:"files"`
	Crash  map[string][]string `json:"crash"`
	BaseID int                 `json:"base_id"`
}

type point struct {
	ID    int    `json:"id"`
	File  string `json:"file"`
	Line  int    `json:"line"`
	Func  string `json:"func"`
	Kind  string `json:"kind"`
	Cases int    `json:"cases,omitempty"`
}

type insertion struct {
	off  int
	text string
}

var syncMethods = map[string]bool{"Lock": true, "RLock": true, "Wait": true, "Unlock": true, "RUnlock": true, "Done": true}

// headerHasSync reports whether the expression (not descending into function literals) contains a
// channel receive, a close() or a call of a synchronisation method.
func exprSync(e ast.Node) (kind string) {
	if e == nil {
		return ""
	}
	ast.Inspect(e, func(n ast.Node) bool {
		if kind != "" {
			return false
		}
		switch v := n.(type) {
		case *ast.FuncLit:
			return false
		case *ast.UnaryExpr:
			if v.Op == token.ARROW {
				kind = "recv"
			}
		case *ast.CallExpr:
			if id, ok := v.Fun.(*ast.Ident); ok && id.Name == "close" {
				kind = "close"
			}
			if sel, ok := v.Fun.(*ast.SelectorExpr); ok && syncMethods[sel.Sel.Name] {
				kind = strings.ToLower(sel.Sel.Name)
			}
		}
		return true
	})
	return kind
}

var atomicMethods = map[string]bool{"Load": true, "Store": true, "Swap": true, "CompareAndSwap": true, "Add": true, "And": true, "Or": true}

// exprOpt reports whether the node (not descending into function literals) contains a call selected by the
// opt-in options of the file: "atomic" (atomics) or "call" (call_points); "" if none or no option is set.
func (in *instr) exprOpt(e ast.Node) (kind string) {
	if e == nil || (!in.fs.Atomics && len(in.fs.CallPoints) == 0) {
		return ""
	}
	ast.Inspect(e, func(n ast.Node) bool {
		if kind != "" {
			return false
		}
		switch v := n.(type) {
		case *ast.FuncLit:
			return false
		case *ast.CallExpr:
			sel, isSel := v.Fun.(*ast.SelectorExpr)
			if in.fs.Atomics && isSel {
				if id, ok := sel.X.(*ast.Ident); (ok && id.Name == "atomic") || atomicMethods[sel.Sel.Name] {
					kind = "atomic"
					return false
				}
			}
			if len(in.fs.CallPoints) > 0 {
				text := strings.Join(strings.Fields(string(in.src[in.fset.Position(v.Fun.Pos()).Offset:in.fset.Position(v.Fun.End()).Offset])), "")
				for _, cp := range in.fs.CallPoints {
					if cp == text || (isSel && strings.HasPrefix(cp, "*.") && cp[2:] == sel.Sel.Name) {
						kind = "call"
						return false
					}
				}
			}
		}
		return true
	})
	return kind
}

func (in *instr) optText(id int) string {
	if in.fs.OptGuard != "" {
		return fmt.Sprintf("if %s { vhook.P(%d) }", in.fs.OptGuard, id)
	}
	return fmt.Sprintf("vhook.P(%d)", id)
}

func (in *instr) newPoint(pos token.Pos, kind string) int {
	id := *in.nextID
	*in.nextID++
	p := in.fset.Position(pos)
	*in.points = append(*in.points, point{ID: id, File: in.file, Line: p.Line, Func: in.funcName, Kind: kind})
	return id
}

// addOptPoint inserts an opt-in point (kind "atomic" / "call") before the statement at pos.
func (in *instr) addOptPoint(pos token.Pos, kind string) {
	id := in.newPoint(pos, kind)
	in.ins = append(in.ins, insertion{in.fset.Position(pos).Offset, in.optText(id) + "; "})
}

// wrapCond puts an opt-in point into a condition that no statement can precede.
func (in *instr) wrapCond(cond ast.Expr, kind string) {
	id := in.newPoint(cond.Pos(), kind)
	in.ins = append(in.ins, insertion{in.fset.Position(cond.Pos()).Offset, fmt.Sprintf("func() bool { %s; return true }() && (", in.optText(id))})
	in.ins = append(in.ins, insertion{in.fset.Position(cond.End()).Offset, ")"})
}

type instr struct {
	fs       fileSpec
	fset     *token.FileSet
	file     string
	src      []byte
	ins      []insertion
	points   *[]point
	nextID   *int
	funcName string
	crashFns map[string]bool
	crash    bool
}

func (in *instr) addPoint(pos token.Pos, kind string, cases int) {
	id := *in.nextID
	*in.nextID++
	p := in.fset.Position(pos)
	*in.points = append(*in.points, point{ID: id, File: in.file, Line: p.Line, Func: in.funcName, Kind: kind, Cases: cases})
	text := fmt.Sprintf("vhook.P(%d); ", id)
	if kind == "select" {
		text = fmt.Sprintf("vhook.PS(%d, %d); ", id, cases)
	}
	if kind == "crashpoint" {
		text = fmt.Sprintf("vhook.K(%d); ", id)
	}
	in.ins = append(in.ins, insertion{p.Offset, text})
}

func (in *instr) stmtList(list []ast.Stmt) {
	for _, s := range list {
		in.stmt(s, true)
	}
}

// funcLits visits the bodies of function literals appearing in the node.
func (in *instr) funcLits(n ast.Node) {
	if n == nil {
		return
	}
	ast.Inspect(n, func(m ast.Node) bool {
		if fl, ok := m.(*ast.FuncLit); ok {
			in.stmtList(fl.Body.List)
			return false
		}
		return true
	})
}

// commChannel returns the channel expression of a select communication and whether it is a send.
func commChannel(s ast.Stmt) (ast.Expr, bool) {
	switch v := s.(type) {
	case *ast.SendStmt:
		return v.Chan, true
	case *ast.ExprStmt:
		if u, ok := v.X.(*ast.UnaryExpr); ok && u.Op == token.ARROW {
			return u.X, false
		}
	case *ast.AssignStmt:
		if len(v.Rhs) == 1 {
			if u, ok := v.Rhs[0].(*ast.UnaryExpr); ok && u.Op == token.ARROW {
				return u.X, false
			}
		}
	}
	return nil, false
}

// simpleExpr: identifiers and field selections only (evaluating it twice has no side effect).
func simpleExpr(e ast.Expr) bool {
	switch v := e.(type) {
	case *ast.Ident:
		return true
	case *ast.SelectorExpr:
		return simpleExpr(v.X)
	case *ast.ParenExpr:
		return simpleExpr(v.X)
	}
	return false
}

func callsPkg(n ast.Node, pkgs ...string) bool {
	found := false
	if n == nil {
		return false
	}
	ast.Inspect(n, func(m ast.Node) bool {
		if _, ok := m.(*ast.FuncLit); ok {
			return false
		}
		if ce, ok := m.(*ast.CallExpr); ok {
			if sel, ok := ce.Fun.(*ast.SelectorExpr); ok {
				if id, ok := sel.X.(*ast.Ident); ok {
					for _, p := range pkgs {
						if id.Name == p {
							found = true
						}
					}
				}
			}
		}
		return true
	})
	return found
}

func (in *instr) stmt(s ast.Stmt, inList bool) {
	switch v := s.(type) {
	case *ast.LabeledStmt:
		in.stmt(v.Stmt, false)
	case *ast.BlockStmt:
		in.stmtList(v.List)
	case *ast.IfStmt:
		if inList && !in.crash {
			k := exprSync(v.Init)
			if k == "" {
				k = exprSync(v.Cond)
			}
			if k != "" {
				in.addPoint(v.Pos(), k, 0)
			} else if k := in.exprOpt(v.Init); k != "" {
				in.addOptPoint(v.Pos(), k)
			} else if k := in.exprOpt(v.Cond); k != "" {
				in.addOptPoint(v.Pos(), k)
			}
		}
		if !inList && !in.crash && v.Init == nil {
			if k := in.exprOpt(v.Cond); k != "" { // else if: the point goes into the condition
				in.wrapCond(v.Cond, k)
			}
		}
		if inList && in.crash && (callsPkg(v.Init, "os", "viper") || callsPkg(v.Cond, "os", "viper")) {
			in.addPoint(v.Pos(), "crashpoint", 0)
		}
		in.funcLits(v.Init)
		in.funcLits(v.Cond)
		in.stmtList(v.Body.List)
		if v.Else != nil {
			in.stmt(v.Else, false)
		}
	case *ast.ForStmt:
		if !in.crash {
			if k := in.exprOpt(v.Init); k != "" && inList {
				in.addOptPoint(v.Pos(), k)
			}
			if v.Cond != nil {
				if k := in.exprOpt(v.Cond); k != "" { // evaluated on every iteration: the point goes into the condition
					in.wrapCond(v.Cond, k)
				}
			}
		}
		in.funcLits(v.Init)
		in.funcLits(v.Cond)
		in.funcLits(v.Post)
		in.stmtList(v.Body.List)
	case *ast.RangeStmt:
		if inList && !in.crash {
			if k := in.exprOpt(v.X); k != "" {
				in.addOptPoint(v.Pos(), k)
			}
		}
		in.funcLits(v.X)
		in.stmtList(v.Body.List)
	case *ast.SwitchStmt:
		if inList && !in.crash {
			if k := exprSync(v.Init); k != "" {
				in.addPoint(v.Pos(), k, 0)
			} else if k := exprSync(v.Tag); k != "" {
				in.addPoint(v.Pos(), k, 0)
			} else if k := in.exprOpt(v.Init); k != "" {
				in.addOptPoint(v.Pos(), k)
			} else if k := in.exprOpt(v.Tag); k != "" {
				in.addOptPoint(v.Pos(), k)
			}
		}
		for _, c := range v.Body.List {
			in.stmtList(c.(*ast.CaseClause).Body)
		}
	case *ast.TypeSwitchStmt:
		for _, c := range v.Body.List {
			in.stmtList(c.(*ast.CaseClause).Body)
		}
	case *ast.SelectStmt:
		n := 0
		simple := true
		hasDefault := false
		var chans, sends []string
		for _, c := range v.Body.List {
			cc := c.(*ast.CommClause)
			if cc.Comm == nil {
				hasDefault = true
				continue
			}
			n++
			ch, send := commChannel(cc.Comm)
			if ch == nil || !simpleExpr(ch) {
				simple = false
				continue
			}
			chans = append(chans, string(in.src[in.fset.Position(ch.Pos()).Offset:in.fset.Position(ch.End()).Offset]))
			sends = append(sends, fmt.Sprint(send))
		}
		if inList && !in.crash {
			if simple && n >= 1 && !(n == 1 && hasDefault) {
				// the channels are plain variables / fields: let the scheduler see which cases are ready
				id := *in.nextID
				*in.nextID++
				p := in.fset.Position(v.Pos())
				*in.points = append(*in.points, point{ID: id, File: in.file, Line: p.Line, Func: in.funcName, Kind: "select", Cases: n})
				in.ins = append(in.ins, insertion{p.Offset, fmt.Sprintf("vhook.PSC(%d, []interface{}{%s}, []bool{%s}, %v); ", id, strings.Join(chans, ", "), strings.Join(sends, ", "), hasDefault)})
			} else {
				in.addPoint(v.Pos(), "select", n)
			}
		}
		for i, c := range v.Body.List {
			cc := c.(*ast.CommClause)
			if !in.crash {
				off := in.fset.Position(cc.Colon).Offset + 1
				in.ins = append(in.ins, insertion{off, fmt.Sprintf(" vhook.C(%d);", i)})
			}
			in.stmtList(cc.Body)
		}
	case *ast.GoStmt:
		in.funcLits(v.Call)
	case *ast.DeferStmt:
		in.funcLits(v.Call)
	default:
		// leaf statements: send, expression, assignment, return, inc/dec, decl
		if in.crash {
			if inList && callsPkg(s, "os", "viper") {
				in.addPoint(s.Pos(), "crashpoint", 0)
			}
			in.funcLits(s)
			return
		}
		kind := ""
		if _, ok := s.(*ast.SendStmt); ok {
			kind = "send"
		} else {
			kind = exprSync(s)
		}
		if kind != "" && inList {
			in.addPoint(s.Pos(), kind, 0)
		} else if k := in.exprOpt(s); k != "" && inList {
			in.addOptPoint(s.Pos(), k)
		}
		in.funcLits(s)
	}
}

func contains(l []string, s string) bool {
	for _, x := range l {
		if x == s {
			return true
		}
	}
	return false
}

func main() {
	repo := flag.String("repo", "/repo", "repository root")
	specPath := flag.String("spec", "", "spec JSON")
	out := flag.String("out", "", "output directory")
	flag.Parse()
	var sp spec
	b, err := os.ReadFile(*specPath)
	if err != nil {
		fmt.Println(err)
		os.Exit(1)
	}
	if err := json.Unmarshal(b, &sp); err != nil {
		fmt.Println(err)
		os.Exit(1)
	}
	var points []point
	nextID := sp.BaseID
	if nextID == 0 {
		nextID = 1000
	}
	mapping := map[string]string{}
	names := map[string]bool{}
	for f := range sp.Files {
		names[f] = true
	}
	for f := range sp.Crash {
		names[f] = true
	}
	var files []string
	for f := range names {
		files = append(files, f)
	}
	sort.Strings(files)
	for _, rel := range files {
		abs := filepath.Join(*repo, rel)
		src, err := os.ReadFile(abs)
		if err != nil {
			fmt.Println(err)
			os.Exit(1)
		}
		fset := token.NewFileSet()
		af, err := parser.ParseFile(fset, abs, src, parser.ParseComments)
		if err != nil {
			fmt.Println("parse error (the repository file does not compile):", err)
			os.Exit(1)
		}
		fs, doSync := sp.Files[rel]
		in := &instr{fs: fs, fset: fset, file: rel, src: src, points: &points, nextID: &nextID}
		for _, d := range af.Decls {
			fd, ok := d.(*ast.FuncDecl)
			if !ok || fd.Body == nil {
				continue
			}
			in.funcName = fd.Name.Name
			if contains(sp.Crash[rel], fd.Name.Name) {
				// crash points: refuse functions with defer (unwinding must equal a kill)
				hasDefer := false
				ast.Inspect(fd.Body, func(n ast.Node) bool {
					if _, ok := n.(*ast.DeferStmt); ok {
						hasDefer = true
					}
					return true
				})
				if hasDefer {
					fmt.Printf("refusing to place crash points in %s.%s: it contains defer\n", rel, fd.Name.Name)
					os.Exit(1)
				}
				in.crash = true
				in.stmtList(fd.Body.List)
				in.crash = false
				continue
			}
			if !doSync {
				continue
			}
			if len(fs.Only) > 0 && !contains(fs.Only, fd.Name.Name) {
				continue
			}
			if contains(fs.Exclude, fd.Name.Name) {
				continue
			}
			in.stmtList(fd.Body.List)
		}
		// import on the package-clause line keeps line numbers unchanged
		nameEnd := fset.Position(af.Name.End()).Offset
		if len(in.ins) > 0 {
			in.ins = append(in.ins, insertion{nameEnd, "; import vhook \"github.com/usnistgov/dastard/internal/vhook\""})
		}
		sort.SliceStable(in.ins, func(i, j int) bool { return in.ins[i].off > in.ins[j].off })
		res := append([]byte{}, src...)
		for _, i := range in.ins {
			res = append(res[:i.off], append([]byte(i.text), res[i.off:]...)...)
		}
		outName := filepath.Join(*out, strings.ReplaceAll(rel, "/", "__"))
		if err := os.WriteFile(outName, res, 0644); err != nil {
			fmt.Println(err)
			os.Exit(1)
		}
		mapping[abs] = outName
	}
	mb, _ := json.MarshalIndent(mapping, "", " ")
	os.WriteFile(filepath.Join(*out, "map.json"), mb, 0644)
	pb, _ := json.MarshalIndent(points, "", " ")
	os.WriteFile(filepath.Join(*out, "points.json"), pb, 0644)
	fmt.Printf("instrumented %d files, %d points\n", len(files), len(points))
}
